"""Checks of the `build` engine: C21 (fresh outputs), C22 (crash consistency) on
spec/Build.tla; C23 (output paths) on spec/Paths.tla; C20 (determinism) and C24
(formatting options) on spec/Output.tla (Build's OutputFunctional over recorded
observations).  The real code is driven by harness/crates/fsdrv."""
import json
import os
import random

import eng_build as eb
import eng_output as eo
import eng_paths as ep
import vlib
from vlib import Report, ToolError, cargo_build_or_die, log

GOOD = lambda t: {"ex": True, "ver": "cur", "hash": t, "body": t}  # noqa: E731


# --------------------------------------------------------------------------
# shared helpers
# --------------------------------------------------------------------------
def files_of(n):
    return ["f%d" % i for i in range(1, n + 1)]


def detect_protocol():
    """which modelled protocol do crash traces of the real code follow (header_first / temp_rename / any)"""
    hs = []
    for p in eb.POINTS:
        for pre in ("absent", "stale"):
            steps = [{"op": "reset", "src": {"f1": "A"}}]
            if pre == "stale":
                steps += [{"op": "build", "force": False, "files": ["f1"]}, {"op": "edit", "f": "f1", "t": "B"}]
            steps += [{"op": "crash", "force": False, "files": ["f1"], "point": p}]
            hs.append({"id": "d-%s-%s" % (p, pre), "steps": steps})
    res = eb.run_histories(["f1"], hs)
    r = eb.detect_and_validate([(h["id"], res[h["id"]]) for h in hs], 1, ["TypeOK"])
    log("protocol followed by the crash traces: %s" % r["protocol"])
    return r["protocol"], r


def broken_events(rep, hs, res, nfiles):
    """panics, lost children, time-outs of the code under test are data"""
    bad = set()
    for h in hs:
        for e in res[h["id"]]:
            if e["ev"] == "broken":
                bad.add(h["id"])
                rep.violation("kind=%s op=build" % e.get("result", "broken"),
                              "the build call ended with %s: %s" % (e.get("result"), (e.get("detail") or "")[:200]),
                              {"engine": "build", "mode": "history", "nfiles": nfiles, "steps": h["steps"]})
            if e.get("foreign"):
                bad.add(h["id"])
                rep.violation("kind=foreign_output", "unexpected file(s) %s in the output directory" % e["foreign"],
                              {"engine": "build", "mode": "history", "nfiles": nfiles, "steps": h["steps"]})
    return bad


def crash_class(e, sizes):
    """where in the protocol the fault was injected (from the injection itself, not from its effect)"""
    if e["ev"] == "crash":
        return {"after_check": "check", "after_mkdirs": "mkdirs", "after_remove": "remove", "after_generate": "generate",
                "after_create": "create", "after_ver": "ver_line", "after_hash": "hash_line", "after_body": "body",
                "after_rename": "rename"}.get(e["point"], e["point"]), "abort"
    la = e.get("limit_at") or {}
    sz = (sizes or {}).get("%s/%s" % (la.get("f"), la.get("t")))
    region, limit = e.get("region"), e.get("limit")
    if not sz or region not in ("ver", "hash", "body", "report"):
        return "unknown", "write"
    if region == "report":
        return "remove", "write"
    if region == "ver":
        return ("ver_line" if limit >= sz["ver"] - 1 else "create"), "write"
    if region == "hash":
        return ("hash_line" if limit >= sz["ver"] + sz["hash"] - 1 else "ver_line"), "write"
    return "hash_line", "write"


def src_along(steps):
    """the text of every grammar after each step (from the steps themselves)"""
    cur, out = {}, []
    for st in steps:
        if st["op"] == "reset":
            cur = dict(st["src"])
        elif st["op"] == "edit":
            cur[st["f"]] = st["t"]
        out.append(dict(cur))
    return out


def report_trace_violations(rep, prop, val, hs_by_id, res, nfiles, sizes):
    for inv, hid, idx, ev in val["violations"]:
        evs = [e for e in res[hid] if e["ev"] != "end"]
        steps = hs_by_id[hid]["steps"]
        out = evs[idx]["obs"]["out"]
        # the outputs that are not what a forced build gives, and the step that left each of them so
        si = evs[idx]["i"]
        src = src_along(steps)[si]
        stale = [f for f in ev.get("files", []) if f in src and
                 ((src[f] == "Bad" and out[f]["ex"]) or (src[f] != "Bad" and out[f]["ex"] and out[f] != GOOD(src[f])))]
        fault = None
        j = idx
        if stale:
            f = stale[0]
            while j > 0 and evs[j - 1]["obs"]["out"][f] == out[f]:
                j -= 1
            if evs[j]["ev"] in ("crash", "wfail"):
                fault = evs[j]
        prev = evs[j]["ev"] if stale else (evs[idx - 1]["ev"] if idx > 0 else "none")
        if fault:
            cls, how = crash_class(fault, sizes)
            key = "kind=stale_after_crash crash_after=%s fault=%s invariant=%s" % (cls, how, inv)
            what = "a %s build returned %s leaving %s, the state left by a %s at %s (%s)" % (
                "forced" if ev.get("force") else "non-forced", ev.get("result"), json.dumps(out, sort_keys=True),
                "process abort" if how == "abort" else "failing write", fault.get("point") or "byte %s" % fault.get("limit"), cls)
        else:
            key = "kind=stale_output after=%s invariant=%s" % (prev, inv)
            what = "a %s build returned %s leaving %s (set by step: %s)" % (
                "forced" if ev.get("force") else "non-forced", ev.get("result"), json.dumps(out, sort_keys=True), prev)
        rep.violation(key, what, {"engine": "build", "mode": "history", "nfiles": nfiles, "invariant": inv,
                                  "steps": steps[:si + 1]})


def replay_graph(rep, m, nfiles, picks, tag, sizes_out=None):
    """execute the user-level steps `picks` = [(state, opkey)] of the model graph in the real code (histories = a
    shortest path to a source state followed by a walk over transitions not covered yet); compare every observed
    state; -> (transitions covered, states compared, histories)"""
    parent = m.bfs()
    want = {(s, ok) for s, ok in picks if s in parent}
    depth = {}
    for s in {s for s, _ in want}:
        depth[s] = len(m.path_to(parent, s)[1])
    todo = sorted(want, key=lambda x: (depth[x[0]], x[0], x[1]))
    hs = []
    covered = 0
    for s, ok in todo:
        if (s, ok) not in want:
            continue
        # a history: the shortest path to s, then a walk that keeps taking transitions not yet covered
        init, path = m.path_to(parent, s)
        steps = eb.history_from_path(m, init, path)
        cur, first = s, ok
        for _ in range(50):
            cands = [first] if first else sorted(k for k in m.steps[cur] if (cur, k) in want)
            first = None
            if not cands:
                break
            k = cands[0]
            want.discard((cur, k))
            covered += 1
            steps.append(m.steps[cur][k]["op"])
            tos = m.steps[cur][k]["to"]
            if len(tos) != 1:
                break  # several outcomes allowed: the walk cannot be planned further
            cur = tos[0][0]
        hs.append({"id": "%s%d" % (tag, len(hs)), "steps": steps})
    res = eb.run_histories(files_of(nfiles), hs)
    if sizes_out is not None:
        sizes_out.update(res.get("__sizes__") or {})
    bad = broken_events(rep, hs, res, nfiles)
    steps = 0
    for h in hs:
        rep.case(h["steps"])
        if h["id"] in bad:
            continue
        n, mm = eb.compare_history(m, h["steps"], res[h["id"]])
        steps += n
        if mm:
            st = mm.get("step", {})
            key = "kind=replay_mismatch op=%s field=%s" % (st.get("op"), mm.get("field", "steps"))
            if st.get("op") in ("crash", "wfail"):
                key += " point=%s" % (st.get("point") or (st.get("limit_at") or {}).get("region"))
            rep.violation(key, "the model (%s) and the code differ after step %d %s: %s" % (
                m.protocol, mm["at"], json.dumps(st, sort_keys=True), json.dumps({k: mm[k] for k in mm if k not in ("at", "step")}, sort_keys=True)[:400]),
                {"engine": "build", "mode": "replay", "nfiles": nfiles, "protocol": m.protocol,
                 "steps": h["steps"][:mm["at"] + 1], "mismatch": mm})
    return covered, steps, len(hs)


def all_picks(m):
    return [(s, ok) for s in m.idle for ok in sorted(m.steps[s])]


def random_histories(seed, nfiles, count, lo, hi, faults, tag):
    rng = random.Random(seed)
    return [eb.random_history(rng, files_of(nfiles), rng.randint(lo, hi), faults, "%s%d" % (tag, i)) for i in range(count)]


def validate_histories(rep, prop, hs, nfiles, invariants, protocol_hint=None, variant=0):
    files = files_of(nfiles)
    res = eb.run_histories(files, hs, texts=eb.texts_for(files, variant))
    bad = broken_events(rep, hs, res, nfiles)
    good = [h for h in hs if h["id"] not in bad]
    val = eb.detect_and_validate([(h["id"], res[h["id"]]) for h in good], nfiles, invariants)
    report_trace_violations(rep, prop, val, {h["id"]: h for h in hs}, res, nfiles, res.get("__sizes__"))
    for h in good:
        rep.case(h["steps"])
    dropped = sum(e.get("dropped", 0) for h in good for e in res[h["id"]] if e["ev"] == "end")
    return val, res, dropped


# --------------------------------------------------------------------------
# C21
# --------------------------------------------------------------------------
def check_C21(tier, seed):
    rep = Report("C21", tier, "model_checking", seed)
    cargo_build_or_die(["fsdrv"])
    thorough = tier == "thorough"
    proto, det = detect_protocol()
    mproto = proto if proto in eb.PROTOCOLS else "header_first"
    # 1. the model: Fresh in every reachable state, complete
    states = trans = 0
    graphs = {}
    for n in ([1, 2, 3] if thorough else [1, 2]):
        mc = eb.model_check(n, mproto, False, "Fresh", edges=(n <= 2))
        states += mc["states"]
        trans += mc["transitions"]
        log("MCBuild %d file(s) %s no faults: %d states, %d unsafe" % (n, mproto, mc["states"], len(mc["unsafe"])))
        if mc["edges"] is not None:
            graphs[n] = eb.Macro(mc["edges"], mproto, report_ok=False)
        for u in mc["unsafe"][:3]:
            rep.violation("kind=model_unsafe protocol=%s files=%d" % (mproto, n),
                          "Build.tla (%s) reaches a returned build that is not fresh: %s" % (mproto, json.dumps(u, sort_keys=True)[:300]),
                          {"engine": "build", "mode": "model", "nfiles": n, "protocol": mproto, "state": u})
    rep.add(states=states, transitions=trans, exhaustive=True, protocol=proto)
    # 2. spec -> impl: every user-level transition of the state graph, in the real code
    nrep = nsteps = nhist = 0
    rng = random.Random(seed * 31 + 7)
    for n, m in sorted(graphs.items()):
        picks = all_picks(m)
        total = len(picks)
        a, b, c = replay_graph(rep, m, n, picks, "r%d-" % n)
        log("replayed %d of %d user-level transitions of the %d-file graph (%d histories, %d states compared)" % (a, total, n, c, b))
        nrep += a
        nsteps += b
        nhist += c
        rep.add(**{"graph_transitions_%dfile" % n: total, "graph_transitions_replayed_%dfile" % n: a})
    # 3. impl -> spec: random long histories validated by TraceBuild
    ntr = 0
    tstates = 0
    for n, count, lo, hi in ([(1, 400, 30, 200), (2, 400, 30, 200), (3, 160, 30, 150)] if thorough else [(1, 24, 30, 80), (2, 24, 30, 80)]):
        for variant in range(4 if thorough else 2):
            hs = random_histories(seed * 1000 + n * 10 + variant, n, max(4, count // (4 if thorough else 2)), lo, hi, False, "t%d%d-" % (n, variant))
            val, res, dropped = validate_histories(rep, "Fresh", hs, n, ["TypeOK", "Fresh", "OutputFunctional"], variant=variant)
            ntr += val["histories"]
            tstates += val["states"]
            rep.add(trace_events=val["lines"], trace_steps_not_enabled=dropped)
            if variant == 0 and n == 1:
                rep.sample({"history": hs[0]["steps"][:12], "observed_after_last": [e for e in res[hs[0]["id"]] if e["ev"] != "end"][11]["obs"]})
    rep.add(traces_validated_against_impl=nhist + ntr, replayed_histories=nhist, graph_transitions_replayed=nrep,
            replayed_steps_compared=nsteps, recorded_histories_validated=ntr, trace_states=tstates)
    m1 = graphs[1]
    s0 = m1.init[0]
    rep.sample({"model_state": m1.state[s0], "steps_enabled": [e["op"] for e in list(m1.steps[s0].values())[:6]]})
    rep.assumptions = ["fsdrv's projection of a file onto (ver, hash, body) compares with reference forced builds of the same code",
                       "concurrent edits during a build and hand edits of a body under an intact header are outside the contract",
                       "AlterHash writes another well-formed digest (not the hash of another known text)"]
    return rep.finish(
        rule="(a) MCBuild explored completely for 1 and 2 files (3 in the thorough tier), invariant Fresh; (b) every user-level "
             "transition (edit/touch/delete/alter/build x force x file set) of TLC's state graph executed in the real code after a "
             "shortest path to its source state, all for 1 file, a seeded sample (thorough: all) for 2 files, observed abstract state "
             "compared after every step; (c) seeded random histories of 30-200 steps recorded from the real code and validated by "
             "TraceBuild with Fresh evaluated in every state; a case is one history, distinct by its step sequence")


# --------------------------------------------------------------------------
# C22
# --------------------------------------------------------------------------
def fault_histories(sizes, thorough):
    """crash at every named point and a failing write at every offset of the header lines, the first and
    last byte of the body (and of the report) and a stride inside, each followed by a plain non-forced build"""
    hs = []
    pres = {
        "absent": ("B", []),
        "stale": ("A", [{"op": "build", "force": False, "files": ["f1"]}, {"op": "edit", "f": "f1", "t": "B"}]),
        "current": ("B", [{"op": "build", "force": False, "files": ["f1"]}]),
    }
    after = [{"op": "build", "force": False, "files": ["f1"]}, {"op": "build", "force": False, "files": ["f1"]}]
    sz = sizes["f1/B"]
    header = sz["ver"] + sz["hash"]
    stride = 257 if thorough else 2311
    offs = list(range(0, header + 1)) + [header + 1] + list(range(header + 2, header + sz["body"] - 1, stride)) + \
        [header + sz["body"] - 2, header + sz["body"] - 1]
    roffs = [0, 1] + list(range(2, sz["report"] - 1, 97 if thorough else 211)) + [sz["report"] - 1]
    for pre, (t0, psteps) in pres.items():
        force = pre == "current"  # an up-to-date output is only rewritten by a forced build
        for p in eb.POINTS:
            hs.append({"id": "c-%s-%s" % (pre, p), "steps": [{"op": "reset", "src": {"f1": t0}}] + psteps +
                       [{"op": "crash", "force": force, "files": ["f1"], "point": p}] + after})
        for o in offs:
            hs.append({"id": "w-%s-%d" % (pre, o), "steps": [{"op": "reset", "src": {"f1": t0}}] + psteps +
                       [{"op": "wfail", "force": force, "files": ["f1"], "limit": o,
                         "limit_at_info": None}] + after})
        for o in roffs:
            hs.append({"id": "wr-%s-%d" % (pre, o), "steps": [{"op": "reset", "src": {"f1": t0}}] + psteps +
                       [{"op": "wfail", "force": force, "files": ["f1"], "report": True,
                         "limit_at": {"f": "f1", "t": "B", "region": "report", "k": o}}] +
                       [dict(a, report=True) for a in after]})
    for h in hs:
        for s in h["steps"]:
            s.pop("limit_at_info", None)
    return hs, len(offs), len(roffs)


def classify_by_limit(e, sizes):
    """region of a raw byte limit relative to the layout of f1/B"""
    sz = sizes["f1/B"]
    lim = e["limit"]
    if lim < sz["ver"]:
        return "ver"
    if lim < sz["ver"] + sz["hash"]:
        return "hash"
    return "body"


def check_C22(tier, seed):
    rep = Report("C22", tier, "model_checking", seed)
    cargo_build_or_die(["fsdrv"])
    thorough = tier == "thorough"
    proto, det = detect_protocol()
    mproto = proto if proto in eb.PROTOCOLS else "header_first"
    sizes = {}
    # 1. the model with Crash at every pc and failing writes: CrashSafe, complete
    states = trans = 0
    graphs = {}
    for n in [1, 2]:
        mc = eb.model_check(n, mproto, True, "CrashSafe", edges=(n == 1 or thorough), timeout=2400)
        states += mc["states"]
        trans += mc["transitions"]
        log("MCBuild %d file(s) %s with faults: %d states, %d returned-but-not-fresh states" % (n, mproto, mc["states"], len(mc["unsafe"])))
        rep.add(**{"model_unsafe_states_%dfile" % n: len(mc["unsafe"])})
        if mc["edges"] is not None:
            graphs[n] = (eb.Macro(mc["edges"], mproto), mc["unsafe"])
    rep.add(states=states, transitions=trans, exhaustive=True, protocol=proto)
    # 2. TLC's counterexamples (if the protocol the code follows is unsafe in the model) confirmed in the real code,
    #    and every user-level transition of the graph -- crashes and failing writes included -- replayed
    nrep = nsteps = nhist = 0
    rng = random.Random(seed * 17 + 3)
    for n, (m, unsafe) in sorted(graphs.items()):
        picks = all_picks(m)
        total = len(picks)
        if n == 2:
            rng.shuffle(picks)
            picks = picks[:6000]
        a, b, c = replay_graph(rep, m, n, picks, "r%d-" % n, sizes)
        log("replayed %d of %d user-level transitions of the %d-file graph with faults (%d histories, %d states compared)" % (a, total, n, c, b))
        nrep += a
        nsteps += b
        nhist += c
        rep.add(**{"graph_transitions_%dfile" % n: total, "graph_transitions_replayed_%dfile" % n: a})
        if n == 1:
            nhist += confirm_unsafe(rep, m, unsafe, n, sizes)
    log("C22: graph replay done at %.0fs" % (vlib.time.time() - rep.t0))
    # 3. fault enumeration in the real code, validated by TraceBuild with CrashSafe in every state
    if not sizes:
        sizes.update(eb.run_histories(["f1"], [{"id": "s", "steps": [{"op": "reset", "src": {"f1": "A"}}]}])["__sizes__"])
    hs, noffs, nroffs = fault_histories(sizes, thorough)
    res = eb.run_histories(["f1"], hs)
    log("C22: %d fault histories executed at %.0fs" % (len(hs), vlib.time.time() - rep.t0))
    for h in hs:  # give raw byte limits their region (for the classification of violations)
        for e in res[h["id"]]:
            if e["ev"] == "wfail" and e.get("region") == "given":
                e["region"] = classify_by_limit(e, sizes)
                e["limit_at"] = {"f": "f1", "t": "B"}
    bad = broken_events(rep, hs, res, 1)
    good = [h for h in hs if h["id"] not in bad]
    val = eb.detect_and_validate([(h["id"], res[h["id"]]) for h in good], 1, ["TypeOK", "CrashSafe", "OutputFunctional"])
    report_trace_violations(rep, "CrashSafe", val, {h["id"]: h for h in hs}, res, 1, sizes)
    fired = sum(1 for h in good for e in res[h["id"]] if e["ev"] in ("crash", "wfail"))
    for h in good:
        rep.case(h["steps"])
    rep.add(fault_histories=len(good), faults_that_fired=fired, header_and_body_offsets=noffs, report_offsets=nroffs,
            crash_points=len(eb.POINTS), trace_events=val["lines"])
    ntr = val["histories"]
    ex = next(h for h in hs if h["id"] == "c-stale-after_hash")
    rep.sample({"history": ex["steps"], "observed": [{"ev": e["ev"], "out": e["obs"]["out"]["f1"]} for e in res[ex["id"]] if e["ev"] != "end"]})
    log("C22: fault histories validated at %.0fs" % (vlib.time.time() - rep.t0))
    # 4. random histories with faults, one and two files
    for n, count, lo, hi in ([(1, 150, 30, 200), (2, 150, 30, 200)] if thorough else [(1, 20, 30, 60), (2, 20, 30, 60)]):
        hs2 = random_histories(seed * 977 + n, n, count, lo, hi, True, "x%d-" % n)
        val2, res2, dropped = validate_histories(rep, "CrashSafe", hs2, n, ["TypeOK", "CrashSafe", "OutputFunctional"])
        ntr += val2["histories"]
        rep.add(trace_events=val2["lines"], trace_steps_not_enabled=dropped)
    rep.add(traces_validated_against_impl=nhist + ntr, replayed_histories=nhist, graph_transitions_replayed=nrep,
            replayed_steps_compared=nsteps, recorded_histories_validated=ntr)
    rep.assumptions = ["a crash is the death of the process (abort at a cfg-guarded hook) or a write failing at a byte offset "
                       "(RLIMIT_FSIZE, SIGXFSZ ignored); power loss with reordered writes is not modelled",
                       "fsdrv's projection of a file onto (ver, hash, body) compares with reference forced builds of the same code"]
    return rep.finish(
        rule="(a) MCBuild with Crash enabled at every pc and failing header/body/report writes explored completely for 1 and 2 "
             "files under the protocol the crash traces of the real code follow (detected by trace validation), invariant CrashSafe; "
             "(b) every user-level transition of the 1-file graph, faults included (thorough: also the 2-file graph), executed in the "
             "real code with the state compared after every step, and every returned-but-not-fresh model state reached in the real code "
             "by its shortest path; (c) a process abort at each of the 9 hook points and a failing write at every byte offset of the two "
             "header lines, first/last byte and a stride of the body and of the report, from three prior states, each followed by two "
             "plain non-forced builds, validated by TraceBuild with CrashSafe in every state; (d) seeded random histories with faults; "
             "a case is one history, distinct by its step sequence")


def confirm_unsafe(rep, m, unsafe, nfiles, sizes):
    """TLC's counterexamples: reach, in the real code, the returns the model says are not fresh"""
    if not unsafe:
        return 0
    parent = m.bfs()
    # a `done` state is reached by the build step of the idle state before it: find those steps
    want = {eb.skey({k: u[k] for k in ("out", "tmp", "touched")}) + ("ok" if u["failed"] == "none" else "err") for u in unsafe}
    hs = []
    for s in m.idle:
        if s not in parent:
            continue
        for ok, ent in sorted(m.steps[s].items()):
            if ent["op"]["op"] != "build":
                continue
            for to, exp in ent["to"]:
                k = eb.skey({k2: exp[k2] for k2 in ("out", "tmp", "touched")}) + exp["result"]
                st = m.state[s]
                fresh = all(exp["out"][f] == GOOD(st["src"][f]) for f in ent["op"]["files"] if st["src"][f] != "Bad")
                if k in want and not fresh:
                    init, path = m.path_to(parent, s)
                    hs.append({"id": "u%d" % len(hs), "steps": eb.history_from_path(m, init, path, (s, ok))})
    if not hs:
        raise ToolError("the model reports unsafe returns but none is reachable by user-level steps")
    res = eb.run_histories(files_of(nfiles), hs)
    sizes.update(res.get("__sizes__") or {})
    n = 0
    for h in hs:
        k, mm = eb.compare_history(m, h["steps"], res[h["id"]])
        if mm:
            continue  # reported by the replay of the graph
        n += 1
        evs = [e for e in res[h["id"]] if e["ev"] != "end"]
        fault = next((e for e in evs[::-1] if e["ev"] in ("crash", "wfail")), None)
        cls, how = crash_class(fault, sizes) if fault else ("none", "none")
        rep.case(h["steps"])
        rep.violation("kind=stale_after_crash crash_after=%s fault=%s invariant=CrashSafe source=tlc_counterexample" % (cls, how),
                      "TLC's counterexample to CrashSafe reproduced in the real code: after a %s at %s the next non-forced build "
                      "returned ok leaving %s" % ("process abort" if how == "abort" else "failing write",
                                                  (fault or {}).get("point") or "byte %s" % (fault or {}).get("limit"),
                                                  json.dumps(evs[-1]["obs"]["out"], sort_keys=True)),
                      {"engine": "build", "mode": "history", "nfiles": nfiles, "invariant": "CrashSafe", "steps": h["steps"]})
    return n


# --------------------------------------------------------------------------
# replay of a recorded violation
# --------------------------------------------------------------------------
def replay(obj):
    cargo_build_or_die(["fsdrv"])
    mode = obj.get("mode")
    if mode in ("history", "replay"):
        n = obj["nfiles"]
        hs = [{"id": "replay", "steps": obj["steps"]}]
        res = eb.run_histories(files_of(n), hs)
        evs = res["replay"]
        for e in evs:
            if e["ev"] != "end":
                print("  %-10s %s -> out %s" % (e["ev"], json.dumps({k: e[k] for k in ("f", "t", "force", "files", "point", "limit", "result") if k in e}),
                                               json.dumps(e["obs"]["out"], sort_keys=True)))
        if any(e["ev"] == "broken" or e.get("foreign") for e in evs):
            print("REPRODUCED: the call broke / left foreign files")
            return 1
        val = eb.detect_and_validate([("replay", evs)], n, ["TypeOK", "Fresh", "OutputFunctional"])
        if mode == "replay":
            mc = eb.model_check(n, obj["protocol"], True, "CrashSafe", edges=True)
            k, mm = eb.compare_history(eb.Macro(mc["edges"], obj["protocol"]), obj["steps"], evs)
            if mm:
                print("REPRODUCED: model and code differ:", json.dumps(mm, sort_keys=True)[:600])
                return 1
        for inv, hid, idx, ev in val["violations"]:
            print("REPRODUCED: %s violated at step %d (%s)" % (inv, idx, json.dumps(ev.get("obs", {}).get("out"), sort_keys=True)))
        return 1 if val["violations"] else 0
    if mode == "model":
        mc = eb.model_check(obj["nfiles"], obj["protocol"], False, "Fresh")
        print("REPRODUCED: model unsafe" if mc["unsafe"] else "model safe")
        return 1 if mc["unsafe"] else 0
    if mode == "paths":
        return ep.replay(obj)
    if mode == "output":
        return eo.replay(obj)
    raise ToolError("unknown replay mode %r" % mode)


REGISTRY = {"C21": check_C21, "C22": check_C22}
REPLAY = {"build": replay}


# --------------------------------------------------------------------------
# C23
# --------------------------------------------------------------------------
def check_C23(tier, seed):
    rep = Report("C23", tier, "model_checking", seed)
    cargo_build_or_die(["fsdrv"])
    ep.build_cli()
    thorough = tier == "thorough"
    cases, r = ep.tlc_cases(3 if thorough else 2, 2 if thorough else 1)
    log("Paths.tla: %d cases" % len(cases))
    fcs = [ep.materialise(c, k) for k, c in enumerate(cases)]
    res = ep.run_cases(fcs)
    if len(res) != len(fcs):
        raise ToolError("fsdrv answered %d of %d cases" % (len(res), len(fcs)))
    apis = {}
    outputs = 0
    for k, c in enumerate(cases):
        x = c["expect"]
        rep.case({"tree": c["tree"], "cfg": c["cfg"], "target": c["target"]},
                 nontrivial=bool(x["may"] or x["rejected"] or x["result"] == "err"))
        apis[c["cfg"]["api"]] = apis.get(c["cfg"]["api"], 0) + 1
        outputs += len(res[k]["rs"])
        for key, what in ep.judge(c, fcs[k], res[k]):
            tree = "; ".join("%s %s/%s" % (e["kind"], "/".join(["t"] + e["dir"]), ep.fname(e["name"])) for e in c["tree"])
            rep.violation(key, "%s [tree: %s; call: %s]" % (what, tree, json.dumps(fcs[k]["call"], sort_keys=True)),
                          {"engine": "build", "mode": "paths", "case": c})
    interesting = [k for k, c in enumerate(cases) if c["expect"]["may"] and len(c["tree"]) <= 2]
    for k in interesting[::max(1, len(interesting) // 5)][:5]:
        rep.sample({"tree": cases[k]["tree"], "cfg": cases[k]["cfg"], "expected": cases[k]["expect"],
                    "observed": {"status": res[k]["status"], "rs": [f["phys"] for f in res[k]["rs"]], "directives": res[k]["directives"]}})
    rep.add(states=r.distinct, transitions=r.generated, traces_validated_against_impl=len(cases), exhaustive=True,
            cases_by_api=apis, outputs_written=outputs)
    rep.assumptions = ["symbolic link cycles, non-UTF-8 names and process_dir without any output directory (neither set_out_dir nor "
                       "OUT_DIR) are outside the enumerated space",
                       "a batch that contains a rejected name may stop anywhere: only `no output outside the documented map, none for "
                       "the rejected file, Err returned` is required of it"]
    return rep.finish(
        rule="TLC enumerates (as initial states of Paths.tla) every tree of the scope -- every single entry (directory of depth <= "
             "2, thorough 3, over {src,a,b}) x {x.lalrpop, y.z.lalrpop, 'p q.lalrpop', n.txt} x {file, link to file, dangling link, "
             "link to directory}, every pair of a reduced entry set, two large mixed trees -- x every configuration (process_dir / "
             "set_in_dir+process / cargo conventions / process / in-source / process_current_dir / process_root / process_src x path "
             "style x OUT_DIR or set_out_dir; process_file and the real CLI x path style x --out-dir; two documented misuses) with the "
             "expected (input -> output) map; each is created in a scratch directory and executed; the set of .rs files, the result "
             "and the rerun directives are compared; a case is distinct by (tree, configuration, target) and non-trivial when the "
             "expectation names an output, a rejected input or an error")


REGISTRY["C23"] = check_C23


# --------------------------------------------------------------------------
# C20 / C24
# --------------------------------------------------------------------------
def check_C20(tier, seed):
    rep = Report("C20", tier, "exploration", seed)
    cargo_build_or_die(["fsdrv"])
    thorough = tier == "thorough"
    wd = vlib.mkscratch("c20")
    try:
        gs = eo.usable(eo.grammars(tier, wd, seed))
        K = 8 if thorough else 3
        slots = 4 if thorough else 3
        batches = eo.tlc_batches(slots)
        cases, meta = [], []
        cfgs = eo.FLAGS if thorough else [(False, True, False), (True, False, True)]
        # (a) alone, K separate processes per configuration
        for gid, path in gs:
            for flags in cfgs:
                for k in range(K):
                    cases.append(eo.case_alone(len(cases), gid, path, flags))
                    meta.append({"how": "alone process %d" % k, "flags": flags, "files": {gid: gid}})
        # (b) directory builds in every composition and order TLC enumerates, each in its own process
        rng = random.Random(seed * 13 + 5)
        order = list(gs)
        rng.shuffle(order)
        groups = [order[i:i + slots] for i in range(0, len(order), slots)]
        if len(groups[-1]) < slots:
            groups[-1] = (groups[-1] + order)[:slots]
        for gi, group in enumerate(groups):
            for b in batches:
                c, names = eo.case_batch(len(cases), b, group)
                cases.append(c)
                meta.append({"how": "batch", "order": b, "group": [g for g, _ in group], "flags": (False, True, False), "files": names})
        log("C20: %d grammars, %d calls (%d batch compositions x %d groups)" % (len(gs), len(cases), len(batches), len(groups)))
        res = ep.run_cases(cases, procs=10)
        obs = []
        for k, (c, m) in enumerate(zip(cases, meta)):
            r = res[k]
            if r["status"] != "ok":
                rep.violation("kind=%s how=%s" % (r["status"], m["how"].split()[0]),
                              "generation ended with %s: %s (%s)" % (r["status"], r["message"][:200], sorted(m["files"].values())),
                              {"engine": "build", "mode": "output", "observations": [], "note": r["message"][:500]})
                continue
            got = {os.path.basename(f["phys"])[:-3]: f for f in r["rs"]}
            for n, gid in m["files"].items():
                if n not in got:
                    raise ToolError("no output for %s in a successful call" % n)
                obs.append({"key": "%s|%s" % (gid, eo.flag_name(m["flags"])), "digest": got[n]["sha3"], "grammar": gid,
                            "how": m["how"], "order": m.get("order"), "group": m.get("group"), "flags": list(m["flags"]),
                            "size": got[n]["size"]})
        bad, r = eo.judge(obs)
        for i in bad:
            o = obs[i]
            first = eo.first_of(obs, o["key"])
            rep.violation("kind=nondeterministic_output how=%s" % o["how"].split()[0],
                          "grammar %s: bytes differ between `%s` and `%s` (%s)" % (o["grammar"], first["how"], o["how"], o["key"]),
                          {"engine": "build", "mode": "output", "tokens": False, "seed": seed, "observations": [first, o]})
        per_key = {}
        for o in obs:
            per_key.setdefault(o["key"], []).append(o)
        for key, os_ in per_key.items():
            # one case per (grammar, configuration): non-trivial when it was observed in several processes / compositions
            rep.case({"key": key, "n": len(os_)}, nontrivial=len(os_) >= 2)
        rep.evaluations = len(obs)
        rep.add(programs=len(gs), observations=len(obs), processes=len(cases), batch_compositions=len(batches),
                tlc_states=r.distinct, keys=len(per_key))
        k0 = next(iter(per_key))
        rep.sample({"key": k0, "digest": per_key[k0][0]["digest"], "observed_in": [o["how"] + (" %s" % o["order"] if o["order"] else "") for o in per_key[k0][:8]]})
        big = max(obs, key=lambda o: o["size"])
        rep.sample({"largest_output": big["grammar"], "bytes": big["size"]})
    finally:
        vlib.rmtree(wd)
    rep.assumptions = ["a hash-seed dependent difference is found only if one of the K processes draws a seed that exposes it",
                       "the LALRPOP version and LALRPOP_LANE_TABLE are fixed during the run"]
    return rep.finish(
        rule="every grammar of lalrpop-test, LALRPOP's own grammar, five grammars written for the purpose (many macro instances, "
             "inferred types, conditions, precedence, recursive ascent) and seeded random grammars (16 quick, 200 thorough; the accepted "
             "ones) is generated (a) alone in K separate processes (K=3 quick, 8 thorough) under two (thorough: all eight) configurations and (b) by process_dir in every non-empty subset and order of its group of 3 (thorough 4) "
             "grammars, the compositions being enumerated by TLC (Output.tla Batches) and the order realised through the file names; each "
             "output is one observation (key = grammar, configuration; digest = sha3 of the bytes) and Output.tla's OutputFunctional "
             "requires every observation of a key to equal the first; a case is a key, non-trivial when observed at least twice")


def check_C24(tier, seed):
    rep = Report("C24", tier, "translation_validation", seed)
    cargo_build_or_die(["fsdrv"])
    wd = vlib.mkscratch("c24")
    try:
        nrandom = 1200 if tier == "thorough" else 16
        gs = eo.usable(eo.grammars(tier, wd, seed, nrandom))
        cases, meta = [], []
        for gid, path in gs:
            for flags in eo.FLAGS:
                cases.append(eo.case_alone(len(cases), gid, path, flags, subprocess_=False, tokens=True))
                meta.append((gid, flags))
        res = ep.run_cases(cases, procs=10)
        obs = []
        for k, (gid, flags) in enumerate(meta):
            r = res[k]
            rs = [f for f in r["rs"] if f["phys"].endswith(gid + ".rs")]
            if r["status"] != "ok" or not rs:
                rep.violation("kind=%s flags=%s" % (r["status"], eo.flag_name(flags)),
                              "grammar %s is not generated under %s: %s" % (gid, eo.flag_name(flags), r["message"][:200]),
                              {"engine": "build", "mode": "output", "tokens": True, "observations": []})
                continue
            t = rs[0]["tokens"]
            if not t.get("ok"):
                rep.violation("kind=not_a_token_stream flags=%s" % eo.flag_name(flags),
                              "the output for %s under %s does not tokenise: %s" % (gid, eo.flag_name(flags), t.get("error")),
                              {"engine": "build", "mode": "output", "tokens": True,
                               "observations": [{"grammar": gid, "how": "alone", "flags": list(flags)}]})
                continue
            obs.append({"key": gid, "digest": t["digest"], "grammar": gid, "how": "alone " + eo.flag_name(flags), "flags": list(flags),
                        "bytes": rs[0]["sha3"], "tokens": t["tokens"], "docs": t["docs"], "size": rs[0]["size"], "order": None})
        bad, r = eo.judge(obs)
        for i in bad:
            o = obs[i]
            first = eo.first_of(obs, o["key"])
            diff = [n for n, (a, b) in zip(("comments", "whitespace", "report"), zip(first["flags"], o["flags"])) if a != b]
            rep.violation("kind=token_stream_differs flags=%s" % "+".join(diff),
                          "grammar %s: the Rust token stream under %s (%d tokens) differs from the one under %s (%d tokens)" % (
                              o["grammar"], o["how"], o["tokens"], first["how"], first["tokens"]),
                          {"engine": "build", "mode": "output", "tokens": True, "seed": seed, "nrandom": nrandom, "observations": [first, o]})
        per = {}
        for o in obs:
            per.setdefault(o["grammar"], []).append(o)
        changed = 0
        for gid, os_ in per.items():
            nbytes = len({o["bytes"] for o in os_})
            changed += nbytes > 1
            rep.case({"grammar": gid, "byte_variants": nbytes}, nontrivial=nbytes > 1)
        rep.evaluations = len(obs)
        rep.add(programs=len(per), disagreements_checked=len(obs), flag_combinations=len(eo.FLAGS),
                programs_whose_bytes_change_with_flags=changed, tlc_states=r.distinct)
        g0 = "v_macros" if "v_macros" in per else next(iter(per))
        rep.sample({"grammar": g0, "variants": [{"flags": o["how"], "bytes": o["size"], "tokens": o["tokens"], "doc_comments": o["docs"],
                                                 "token_digest": o["digest"][:16]} for o in per[g0]]})
    finally:
        vlib.rmtree(wd)
    rep.assumptions = ["proc-macro2's tokenisation agrees with rustc's lexer; doc comments (which tokenise as #[doc] attributes) are "
                       "removed before comparing, because the property allows comments to differ",
                       "token adjacency (proc-macro2 Spacing) is part of the comparison: `> >` and `>>` are different streams"]
    return rep.finish(
        rule="every grammar of lalrpop-test, LALRPOP's own grammar, five written for the purpose and seeded random grammars (16 quick, "
             "1200 thorough; the accepted ones) is generated under all 8 "
             "combinations of emit_comments / emit_whitespace / emit_report; each output is tokenised (proc-macro2) and is one "
             "observation (key = grammar, digest = sha3 of the canonical token text); Output.tla's OutputFunctional requires all 8 to "
             "agree; a case is a grammar, non-trivial when the flags do change its bytes")


REGISTRY["C20"] = check_C20
REGISTRY["C24"] = check_C24


# --------------------------------------------------------------------------
# self-tests: the binding rejects what it must reject
# --------------------------------------------------------------------------
def _probe_history():
    steps = [{"op": "reset", "src": {"f1": "A"}}, {"op": "build", "force": False, "files": ["f1"]},
             {"op": "build", "force": False, "files": ["f1"]}, {"op": "edit", "f": "f1", "t": "B"},
             {"op": "alter_ver", "f": "f1"}, {"op": "build", "force": False, "files": ["f1"]},
             {"op": "crash", "force": True, "files": ["f1"], "point": "after_create"},
             {"op": "build", "force": False, "files": ["f1"]}]
    res = eb.run_histories(["f1"], [{"id": "p", "steps": steps}])
    return steps, res["p"]


def selftest_trace():
    """a recorded history is accepted; the same history with one observed field altered is rejected"""
    cargo_build_or_die(["fsdrv"])
    steps, evs = _probe_history()
    lines = eb.trace_lines(evs)
    proto = None
    for p in eb.PROTOCOLS:
        if eb.validate_trace(lines, 1, p, False, ["TypeOK", "Fresh"])["accepted"]:
            proto = p
            break
    if not proto:
        return ("build.trace", False, "the genuine trace is rejected by every protocol")
    out = []
    for (k, field, val) in [(2, "touched", True), (5, "ver", "old"), (6, "ex", None)]:
        bad = json.loads(json.dumps(lines))
        if field == "touched":
            bad[k]["obs"]["touched"]["f1"] = val
        elif val is None:
            bad[k]["obs"]["out"]["f1"][field] = not bad[k]["obs"]["out"]["f1"][field]
        else:
            bad[k]["obs"]["out"]["f1"][field] = val
        r = eb.validate_trace(bad, 1, proto, False, ["TypeOK", "Fresh"])
        out.append(not r["accepted"] and r["reject"]["line"] == k + 1)
    other = [p for p in eb.PROTOCOLS if p != proto][0]
    r2 = eb.validate_trace(lines, 1, other, False, ["TypeOK"])
    out.append(not r2["accepted"])  # the crash at after_create tells the two protocols apart
    stale = json.loads(json.dumps(lines))
    stale[5]["obs"]["out"]["f1"] = {"ex": True, "ver": "old", "hash": "A", "body": "A"}   # a build that kept the stale file
    stale = stale[:6]
    r3 = eb.validate_trace(stale, 1, proto, True, ["TypeOK", "Fresh"])
    out.append(r3["accepted"] and any(v[0] == "Fresh" for v in r3["violations"]))
    return ("build.trace", all(out), "genuine trace accepted under %s; corrupted touched/ver/ex rejected at the corrupted line, other "
            "protocol rejected, stale-output return flagged by Fresh under protocol any: %s" % (proto, out))


def selftest_replay():
    """a replay whose expected state is altered must be reported as a mismatch"""
    proto, _ = detect_protocol()
    mproto = proto if proto in eb.PROTOCOLS else "header_first"
    mc = eb.model_check(1, mproto, False, "Fresh", edges=True)
    m = eb.Macro(mc["edges"], mproto, report_ok=False)
    parent = m.bfs()
    picks = [(s, ok) for s, ok in all_picks(m) if m.steps[s][ok]["op"]["op"] == "build" and m.state[s]["out"]["f1"]["ver"] == "old"][:1]
    s, ok = picks[0]
    init, path = m.path_to(parent, s)
    steps = eb.history_from_path(m, init, path, (s, ok))
    res = eb.run_histories(["f1"], [{"id": "r", "steps": steps}])
    n, mm = eb.compare_history(m, steps, res["r"])
    good = mm is None
    evs = json.loads(json.dumps(res["r"]))
    last = [e for e in evs if e["ev"] != "end"][-1]
    last["obs"]["out"]["f1"]["ver"] = "old"       # as if the build had kept the file of another version
    n2, mm2 = eb.compare_history(m, steps, evs)
    return ("build.replay", good and mm2 is not None and mm2.get("field") == "out",
            "faithful replay matches (%s); altered observation reported as mismatch (%s)" % (good, mm2 and mm2.get("field")))


def selftest_paths():
    """an expectation moved to another directory must be reported"""
    cases, _ = ep.tlc_cases(1, 0)
    k = next(i for i, c in enumerate(cases) if c["cfg"]["api"] == "process_dir" and c["expect"]["must"]
             and any(e["dir"] == ["src"] for e in c["tree"]) and c["cfg"]["in"] == [])
    c = cases[k]
    fc = ep.materialise(c, k)
    r = ep.run_cases([fc])[k]
    good = not ep.judge(c, fc, r)
    bad = json.loads(json.dumps(c))
    for p in bad["expect"]["may"] + bad["expect"]["must"]:
        p["output"] = ["o", "src"] + p["output"][1:]          # as if the leading `src` were kept
    fb = ep.materialise(bad, k)
    rb = ep.run_cases([fb])[k]
    dis = ep.judge(bad, fb, rb)
    return ("build.paths", good and any("unexpected_output" in d[0] for d in dis),
            "TLC's expectation holds (%s); a shifted expectation is reported (%s)" % (good, [d[0] for d in dis]))


def selftest_output():
    """two different digests under one key violate OutputFunctional; tokenisation ignores comments but not operators"""
    bad, _ = eo.judge([{"key": "g", "digest": "1"}, {"key": "h", "digest": "2"}, {"key": "g", "digest": "1"}, {"key": "g", "digest": "3"}])
    wd = vlib.mkscratch("st")
    try:
        srcs = {"a.rs": "fn f(a: u8, b: u8) -> u8 { a >> b }\n",
                "b.rs": "// note\nfn f(a:u8,b:u8)->u8{a>>b /* x */ }\n/// doc\n",
                "c.rs": "fn f(a: u8, b: u8) -> u8 { a > > b }\n"}
        for n, t in srcs.items():
            with open(os.path.join(wd, n), "w") as f:
                f.write(t)
        with open(os.path.join(wd, "j.json"), "w") as f:
            json.dump({"files": [os.path.join(wd, n) for n in sorted(srcs)]}, f)
        import subprocess
        subprocess.run([os.path.join(vlib.BIN, "fsdrv"), "tokens", os.path.join(wd, "j.json"), os.path.join(wd, "o.ndjson")], check=True)
        d = [json.loads(l)["digest"] for l in open(os.path.join(wd, "o.ndjson"))]
    finally:
        vlib.rmtree(wd)
    return ("build.output", bad == [3] and d[0] == d[1] and d[0] != d[2],
            "clash found at observation %s; comments/white space/doc comments ignored (%s), `>>` vs `> >` distinguished (%s)" % (
                bad, d[0] == d[1], d[0] != d[2]))


SELFTESTS = [selftest_trace, selftest_replay, selftest_paths, selftest_output]

ENGINES = [{"name": "build",
            "path": "tools/c_build.py, tools/eng_build.py, tools/eng_paths.py, tools/eng_output.py, spec/Build.tla, spec/MCBuild.tla, "
                    "spec/TraceBuild.tla, spec/Paths.tla, spec/Output.tla, spec/MCBatches.tla, harness/crates/fsdrv",
            "serves_properties": ["C20", "C21", "C22", "C23", "C24"],
            "kind_free_text": "TLA+ model of the build protocol (one action per file-system operation of process_file_into, user steps, "
                              "crashes, failing writes), explored completely by TLC; bound to the real lalrpop::Configuration by replaying "
                              "every transition of TLC's state graph in scratch directories and by validating recorded histories "
                              "(TraceBuild); Paths.tla enumerates directory trees x configurations with the documented output map; "
                              "Output.tla judges observations of the generator for functional dependence on the grammar text"}]


def _m(pid, cat, ref, text, note, technique):
    return {"property_id": pid, "quick_cmd": "./check %s --tier quick" % pid, "thorough_cmd": "./check %s --tier thorough" % pid,
            "evidence_file": "evidence/%s.json" % pid, "replay_cmd_template": "./check %s --replay {path}" % pid, "engine": "build",
            "level_claimed": {"category": cat, "design_ref": ref, "text": text}, "level_note": note, "technique": technique}


MANIFEST = [
    _m("C20", "exploration", "DESIGN.md 4.7, 5/C20",
       "Every grammar of lalrpop-test, LALRPOP's own grammar and grammars written to stress hash-ordered collections are generated in K "
       "separate processes and in every batch composition and order that TLC enumerates; Output.tla's OutputFunctional (the first "
       "observation of a (grammar, configuration) defines the output, every other must be byte-equal) is checked by TLC over the recorded "
       "observations.",
       "A comparison of LALRPOP with itself over a finite population and K hash seeds per grammar; the spec organises the comparison, "
       "it does not predict the bytes.",
       "TLA+ functional-dependency invariant checked by TLC over observations recorded from the real generator"),
    _m("C21", "model_checking", "DESIGN.md 4.7, 5/C21, Appendix C",
       "Build.tla (one action per file-system operation of process_file_into; edit/touch/delete/alter-header/build x force x file set) is "
       "explored completely by TLC for 1 and 2 files (3 in the thorough tier) with invariant Fresh; every user-level transition of TLC's "
       "state graph is executed in the real code with the abstract file-system state compared after each step, and random long histories "
       "recorded from the real code are validated by TraceBuild with Fresh evaluated in every state.",
       "Trusted: fsdrv's projection of files onto (version line, hash line, body) by comparison with reference forced builds; TLC. "
       "Texts are abstracted to two valid grammars and one rejected one per file.",
       "TLA+ state machine of the build protocol, exhaustive TLC exploration, replay of the whole state graph into the real "
       "Configuration API, trace validation of recorded histories"),
    _m("C22", "model_checking", "DESIGN.md 4.7, 5/C22, 8, Appendix C",
       "Build.tla with Crash enabled at every program counter and failing header/body/report writes is explored completely (1 and 2 "
       "files) under the protocol the real code's crash traces follow (header_first or temp_rename, detected by trace validation), "
       "invariant CrashSafe; every transition of the 1-file graph including the faults is executed in the real code (process abort at "
       "cfg-guarded hooks in a subprocess, RLIMIT_FSIZE for byte-level write failures); a fault at every hook and at every byte offset of "
       "the header, first/last/stride of body and report is followed by non-forced builds and validated by TraceBuild with CrashSafe.",
       "A crash is process death or a failing write; power loss with reordered writes is not modelled. Known finding on the unchanged "
       "tree: crash_after=hash_line (header written before the body).",
       "TLA+ state machine with crash and write-failure actions, exhaustive TLC exploration of the as-is and repaired protocols, "
       "crash injection in the real code, trace validation"),
    _m("C23", "model_checking", "DESIGN.md 4.7, 5/C23",
       "Paths.tla gives, at constant level, the expected (input -> output) map, rejected inputs and rerun directives for every directory "
       "tree of a finite scope x every configuration of the public API and the CLI; TLC enumerates the whole scope; each case is created in "
       "a scratch directory and executed by the real code (panics are data).",
       "Exhaustive over the stated scope of trees (single entries to depth 2/3, pairs, two mixed trees); the oracle is the documented path "
       "rule written in TLA+.",
       "constant-level TLA+ specification enumerated by TLC, replay of every case into the real API and CLI"),
    _m("C24", "translation_validation", "DESIGN.md 4.7, 5/C24",
       "For every grammar of the population the outputs under all 8 combinations of emit_comments / emit_whitespace / emit_report are "
       "tokenised with proc-macro2 and Output.tla's OutputFunctional (key = grammar) is checked by TLC over the token-stream digests.",
       "Validates each generated program against the default-flag program of the same grammar (token-stream equality, doc comments "
       "removed); the sample-compilation half of DESIGN 5/C24 is not built.",
       "TLA+ functional-dependency invariant over recorded observations; Rust token-stream comparison"),
]
