pub const MODULES: &[&str] = &[];
pub fn dispatch(_m: &str, _start: &str, _s: crate::rt::Stream) -> Option<serde_json::Value> { None }
