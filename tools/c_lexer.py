"""Checks built on the `lexer` engine: C09 (longest match, documented precedence),
C10 (literals / regexes match exactly their language), C11 (ambiguity reported
exactly on overlap) and the lexer half of C08 (no endless empty tokens, no hang,
no panic).  One shared run (cached per repository state, tier and seed) feeds
all four; see tools/eng_lexer.py for the moving parts and spec/Regex.tla,
spec/Lexer.tla, spec/MCLex.tla, spec/MCLexTab.tla, spec/MCOverlap.tla for the
specification every expected value comes from."""
import json
import os
import time
from concurrent.futures import ThreadPoolExecutor

import eng_lexer as E
import vlib
from vlib import Report, ToolError, cached, cargo_build_or_die, log, mkscratch, rmtree


# --------------------------------------------------------------------------
# structural facts used in violation keys
# --------------------------------------------------------------------------
def _nonascii_lit(case, r):
    """the regex contains a single non-ASCII character as a literal (what regex-syntax turns into HIR Literal bytes)"""
    alpha = case["alpha"]
    for n in E.walk(r):
        if n["k"] == "chr" and ord(alpha[n["c"] - 1]["rep"]) > 0x7f:
            return True
        if n["k"] == "set" and len(n["s"]) == 1 and not n.get("neg") and not n.get("named"):
            cl = alpha[n["s"][0] - 1]
            if E.is_single(cl) and ord(cl["rep"]) > 0x7f:
                return True
    return False


def _nonascii_class(case, r):
    """the regex contains a character class of more than one code point reaching beyond ASCII"""
    alpha = case["alpha"]
    for n in E.walk(r):
        if n["k"] != "set":
            continue
        if n.get("named") or n.get("neg") or (E.has_other(alpha) and len(alpha) in n["s"]):
            return True
        cls = [alpha[i - 1] for i in n["s"]]
        many = len(cls) > 1 or any(not E.is_single(c) for c in cls)
        if many and any(hi > 0x7f for c in cls for lo, hi in c["ranges"]):
            return True
    return False


def lit_vs_class(case, pats_e):
    """some pair of the given entries sets a non-ASCII literal against a non-ASCII class"""
    by_e = {}
    for ent in E.all_entries(case) + case["uses"]:
        by_e.setdefault(ent["e"], ent)
    es = [by_e[e] for e in pats_e if e in by_e]
    for a in es:
        for b in es:
            if a is not b and _nonascii_lit(case, a["re"]) and _nonascii_class(case, b["re"]):
                return True
    return False


def case_facts(case):
    reps = "".join(cl["rep"] for cl in case["alpha"])
    return "alphabet=%s match=%s nonascii=%s" % (case["aname"], "yes" if case["match"] is not None else "no",
                                                  "yes" if any(ord(ch) > 0x7f for ch in reps) else "no")


def show(case, w):
    return json.dumps(E.text_of(case, w), ensure_ascii=False)


# --------------------------------------------------------------------------
# the shared analysis
# --------------------------------------------------------------------------
def analyse(pop, tier, routes=("a", "b"), compiled_limit=None, lex_prefixes=None, quiet=False):
    """run the whole pipeline over the definitions `pop`; returns a JSON-able summary"""
    t_start = time.time()
    wd = mkscratch("lexer")
    dis = []       # disagreements: {prop, key, what, case, w}
    S = {"cases": len(pop), "timing": {}}
    byid = {c["id"]: c for c in pop}

    def add(prop, key, what, case, w=None, extra=None):
        dis.append({"prop": prop, "key": key, "what": what, "case": case["id"], "w": list(w) if w is not None else None,
                    "extra": extra})

    try:
        # ---- 1. the real generator and the exact overlap decision, side by side
        with ThreadPoolExecutor(max_workers=3) as ex:
            f_lal = ex.submit(E.run_lalrpop, pop, wd)
            f_ovl = ex.submit(E.run_overlap, pop, 6)
            f_cla = ex.submit(E.run_clash, pop, 4)
            lal = f_lal.result()
            ovl, ov_states, ov_trans = f_ovl.result()
            clash, cl_states, cl_trans = f_cla.result()
        S["clash_states"] = cl_states
        S["timing"]["lalrpop+overlap"] = round(time.time() - t_start, 1)
        S["overlap_states"], S["overlap_transitions"] = ov_states, ov_trans

        # ---- 2. C11: verdicts
        verdicts = {}
        n_pairs = 0
        for c in pop:
            o = ovl[c["id"]]
            if not o["wellformed"]:
                raise ToolError("generator produced a definition the specification calls ill-formed: " + c["id"])
            n_pairs += o["pairs"]
            spec = "unsupported" if not o["supported"] else "ambiguous" if o["overlaps"] else "ok"
            real = E.classify_lalrpop(lal[c["id"]])
            verdicts[c["id"]] = (spec, real)
            if spec == real:
                continue
            r = lal[c["id"]]
            msg = (r.get("stdout", "") + r.get("stderr", "") + r.get("message", "")).strip().replace("\n", " ")[:300]
            facts = case_facts(c)
            if spec == "unsupported":
                kind = {"ok": "unsupported_accepted", "panic": "unsupported_panic"}.get(real, "unsupported_wrong_diagnostic")
                add("C11", "kind=%s construct=%s %s" % (kind, c["tags"][-1], facts),
                    "%s: a regex with an unsupported construct (%s) got `%s` instead of the documented diagnostic: %s"
                    % (c["id"], c["tags"][-1], real, msg), c)
            elif spec == "ambiguous" and real == "ok":
                es = sorted({e for x in o["overlaps"] for e in (x["ei"], x["ej"])})
                wit = o["overlaps"][0]
                # is some common string left to the pair by the higher-precedence terminals?
                shadowed = not clash.get(c["id"])
                add("C11", "kind=missed_overlap shadowed_by_higher_precedence=%s nonascii_literal_vs_class=%s %s"
                    % ("yes" if shadowed else "no", "yes" if lit_vs_class(c, es) else "no", facts),
                    "%s: terminals %s and %s have equal precedence and both match %s, but LALRPOP accepts the grammar%s"
                    % (c["id"], wit["ei"], wit["ej"], show(c, wit["path"]),
                       " (on every common string a higher-precedence terminal matches too)" if shadowed else ""),
                    c, wit["path"], {"pair": [wit["ei"], wit["ej"]]})
            elif spec == "ok" and real == "ambiguous" and not E.is_exact(c):
                # \d \w \s or a negation without an `other` class: the absence of a common string is only known
                # over the representatives, so this direction cannot be judged
                S["inexact_not_judged"] = S.get("inexact_not_judged", 0) + 1
            elif spec == "ok" and real == "ambiguous":
                es = [p["e"] for p in o["pats"]]
                add("C11", "kind=false_overlap nonascii_literal_vs_class=%s %s" % ("yes" if lit_vs_class(c, es) else "no", facts),
                    "%s: no two equal-precedence terminals share a string (exact), but LALRPOP reports: %s" % (c["id"], msg), c)
            else:
                add("C11", "kind=verdict_%s_expected_%s %s" % (real, spec, facts),
                    "%s: expected `%s`, LALRPOP says `%s`: %s" % (c["id"], spec, real, msg), c)
        S["verdicts"] = {}
        for sp, re_ in verdicts.values():
            k = "%s/%s" % (sp, re_)
            S["verdicts"][k] = S["verdicts"].get(k, 0) + 1
        S["equal_prec_pairs"] = n_pairs
        S["distinct_definitions"] = len({json.dumps([E.tla_case(c)["match"], E.tla_case(c)["uses"], c["aname"]], sort_keys=True)
                                         for c in pop})
        S["overlap_witnesses"] = sum(len(o["overlaps"]) for o in ovl.values())

        # ---- 3. the definitions to lex: accepted by the specification (unique winners) ...
        lexable = [c for c in pop if verdicts[c["id"]][0] == "ok" and
                   (lex_prefixes is None or c["id"][0] in lex_prefixes)]
        # ... and, for the binding, accepted by LALRPOP too (a disagreement is C11's, not counted twice)
        runnable = [c for c in lexable if verdicts[c["id"]][1] == "ok"]
        S["lexable"], S["runnable"] = len(lexable), len(runnable)
        nullable_defs = [c for c in lexable if any(p["nullable"] and not p["skip"] for p in ovl[c["id"]]["pats"])]
        # the as-is model lists one counterexample per looping string: keep its output bounded
        nullable_defs = sorted(nullable_defs, key=lambda c: (len(c["alpha"]) ** c["N"], c["id"]))[:12]
        if not lexable:
            S.update(lex_states=0, lex_transitions=0, tab_states=0, tab_transitions=0, asis_states=0, asis_transitions=0,
                     strings=0, route_a=0, route_b=0, probes=0, prec_pairs=0, samples={}, disagreements=_finish(dis, byid))
            return S

        compiled = []
        if "b" in routes:
            compiled = [c for c in runnable if compiled_limit is None or True]
            if compiled_limit is not None:
                # a spread over the kinds of definitions, fixed ones first
                compiled = sorted(compiled, key=lambda c: (c["id"][0] not in "F", hash_id(c["id"])))[:compiled_limit]
        t1 = time.time()
        with ThreadPoolExecutor(max_workers=6) as ex:
            f_lex = ex.submit(E.run_mclex, lexable, False, 8)
            f_tab = ex.submit(E.run_tab, lexable, 4)
            f_asis = ex.submit(E.run_mclex, nullable_defs, True, 2) if nullable_defs else None
            f_bin = ex.submit(E.build_lexrun, compiled, wd) if compiled else None
            live_defs = (nullable_defs + lexable[:3])[:12]
            f_live = ex.submit(E.run_live, live_defs, False)
            f_live2 = ex.submit(E.run_live, live_defs, True)
            spec_lex, spec_pats, lx_states, lx_trans, lx_viol = f_lex.result()
            tab, tb_states, tb_trans = f_tab.result()
            if f_asis:
                asis_lex, _, as_states, as_trans, as_viol = f_asis.result()
            else:
                asis_lex, as_states, as_trans, as_viol = {}, 0, 0, []
            lexrun_bin, build_err = f_bin.result() if f_bin else (None, "")
            live_ok, live_states = f_live.result()
            live_asis_ok, _ = f_live2.result()
        S["timing"]["tlc+rustc"] = round(time.time() - t1, 1)
        if lx_viol:
            raise ToolError("MCLex (ZeroLenIsError = TRUE): %s violated -- the specification is inconsistent:\n%s"
                            % (lx_viol[0]["name"], lx_viol[0]["trace"][-1500:]))
        bad = [v for v in as_viol if v["name"] != "LexProgress"]
        if bad:
            raise ToolError("MCLexAsIs: %s violated:\n%s" % (bad[0]["name"], bad[0]["trace"][-1500:]))
        S.update(lex_states=lx_states, lex_transitions=lx_trans, tab_states=tb_states, tab_transitions=tb_trans,
                 asis_states=as_states, asis_transitions=as_trans, asis_lexprogress_violations=len(as_viol),
                 asis_definitions=len(nullable_defs))
        loops = {k for k, v in asis_lex.items() if v["end"] == "loop"}
        if not live_ok:
            raise ToolError("MCLexLive: Terminates is violated by the repaired tokenizer machine -- specification bug")
        if live_asis_ok != (not any(k[0] in {c["id"] for c in live_defs} for k in loops)):
            raise ToolError("MCLexLiveAsIs: Terminates and the `loop` runs of MCLexAsIs disagree")
        S["liveness_states"] = live_states
        S["liveness_asis_terminates"] = live_asis_ok
        if len(loops) != len(as_viol):
            raise ToolError("MCLexAsIs: %d LexProgress counterexamples but %d runs ending in `loop`" % (len(as_viol), len(loops)))
        zero_nonskip = {k for k, v in spec_lex.items() if v["end"] == "zero" and v["zname"] != "" and k[0] in
                        {c["id"] for c in nullable_defs}}
        if zero_nonskip != loops:
            raise ToolError("the two configurations of MCLex disagree on where a terminal matches the empty string")
        S["spec_zero_length_runs"] = sum(1 for v in spec_lex.values() if v["end"] == "zero")
        S["spec_loop_runs"] = len(loops)
        # completeness of the enumeration
        for c in lexable:
            n = sum(len(c["alpha"]) ** k for k in range(c["N"] + 1))
            got = sum(1 for k in spec_lex if k[0] == c["id"])
            if got != n:
                raise ToolError("MCLex printed %d of %d strings for %s" % (got, n, c["id"]))
        S["strings"] = len(spec_lex)

        # ---- 4. bind the real lexers and run route (a)
        t2 = time.time()
        bound = {}
        for c in runnable:
            b, problems = E.bind_case(c, lal[c["id"]], wd)
            if problems:
                raise ToolError("binding of %s: %s" % (c["id"], "; ".join(problems)))
            bound[c["id"]] = b
            # the precedence order the real generator assigned (white box, in addition to behaviour)
            sp = {p["e"]: p for p in spec_pats[c["id"]]}
            ex_ents = b["export"]
            for i, ei in enumerate(ex_ents):
                for j, ej in enumerate(ex_ents):
                    if i < j:
                        a_, b_ = sp[b["idx2e"][i]], sp[b["idx2e"][j]]
                        S["prec_pairs"] = S.get("prec_pairs", 0) + 1
                        if _sign(a_["prec"] - b_["prec"]) != _sign(ei["prec"] - ej["prec"]):
                            add("C09", "kind=prec_order %s" % case_facts(c),
                                "%s: the documentation orders %s and %s as %d vs %d, LALRPOP assigned %d vs %d"
                                % (c["id"], a_["e"], b_["e"], a_["prec"], b_["prec"], ei["prec"], ej["prec"]), c)
            # every pattern of the specification is an entry of the real lexer and vice versa
            if set(b["e2idx"]) != set(sp):
                add("C09", "kind=pattern_set %s" % case_facts(c),
                    "%s: the specification has patterns %s, the real lexer %s" % (c["id"], sorted(sp), sorted(b["e2idx"])), c)
        jobs, probes = [], []
        strings = {}
        for c in runnable:
            ws = list(E.all_strings(c))
            strings[c["id"]] = ws
            texts = [E.text_of(c, w) for w in ws]
            jobs.append({"id": c["id"], "mode": "lex", "entries": bound[c["id"]]["entries"], "strings": texts})
            for e, idx in bound[c["id"]]["e2idx"].items():
                if e != "ws":
                    probes.append({"id": c["id"] + "/" + e, "mode": "probe",
                                   "entries": [[bound[c["id"]]["entries"][idx][0], False]], "strings": texts[1:]})
        ra = E.run_drivers_parallel("lexdrv", jobs, wd, "la", procs=8) if "a" in routes else {}
        rp = E.run_drivers_parallel("lexdrv", probes, wd, "lp", procs=8) if "a" in routes else {}
        S["timing"]["route_a"] = round(time.time() - t2, 1)

        names = {c["id"]: E.terminal_names(c) for c in runnable}
        S["route_a"] = 0
        samples = {"C08": [], "C09": [], "C10": [], "C11": []}
        for c in runnable:
            cid = c["id"]
            if cid not in ra:
                continue
            if ra[cid]["build_error"]:
                add("C09", "kind=matcher_build_error %s" % case_facts(c),
                    "%s: MatcherBuilder::new rejected the emitted regexes: %s" % (cid, ra[cid]["build_error"]), c)
                continue
            pname = {idx: next((p["name"] for p in spec_pats[cid] if p["e"] == e), "?") for idx, e in bound[cid]["idx2e"].items()}
            for w, real in zip(strings[cid], ra[cid]["res"]):
                S["route_a"] += 1
                compare_run(add, c, w, spec_lex[(cid, w)], real, lambda i: pname.get(i, "?"), "a", (cid, w) in loops)
            if len(samples["C09"]) < 3:
                k = max(range(len(strings[cid])), key=lambda i: len(spec_lex[(cid, strings[cid][i])]["toks"]))
                w = strings[cid][k]
                samples["C09"].append({"definition": cid, "grammar": E.render_grammar(c), "input": E.text_of(c, w),
                                       "expected_by_MCLex": spec_lex[(cid, w)], "real_matcher": ra[cid]["res"][k]})
        # ---- C10: the table
        S["probes"] = 0
        for c in runnable:
            cid = c["id"]
            for e in bound[cid]["e2idx"]:
                if e == "ws" or (cid + "/" + e) not in rp:
                    continue
                r = rp[cid + "/" + e]
                ent = next(x for x in E.all_entries(c) + c["uses"] if x["e"] == e)
                kind, src, text = E.term_source(c, ent)
                if r["build_error"]:
                    add("C10", "kind=matcher_build_error lit=%s %s" % ("yes" if ent["lit"] else "no", case_facts(c)),
                        "%s: the regex emitted for %s does not compile: %s" % (cid, text, r["build_error"]), c)
                    continue
                if (cid, e) not in tab:
                    raise ToolError("MCLexTab has no row for %s/%s" % (cid, e))
                exp = tab[(cid, e)]
                for w, got in zip(strings[cid][1:], r["res"]):
                    S["probes"] += 1
                    if got is not True and got is not False:
                        add("C10", "kind=probe_%s lit=%s %s" % (got, "yes" if ent["lit"] else "no", case_facts(c)),
                            "%s: matching %s against %s: %s" % (cid, text, show(c, w), got), c, w, {"e": e})
                    elif got != (w in exp):
                        add("C10", "kind=match_mismatch lit=%s %s" % ("yes" if ent["lit"] else "no", case_facts(c)),
                            "%s: terminal %s (emitted as %s) %s %s, Matches says %s"
                            % (cid, text, json.dumps(bound[cid]["entries"][bound[cid]["e2idx"][e]][0], ensure_ascii=False),
                               "matches" if got else "does not match", show(c, w), w in exp), c, w, {"e": e})
                if len(samples["C10"]) < 4:
                    samples["C10"].append({"definition": cid, "terminal": text, "emitted_regex": bound[cid]["entries"][bound[cid]["e2idx"][e]][0],
                                           "strings_tabulated": len(strings[cid]) - 1,
                                           "in_language": sorted(E.text_of(c, w) for w in exp)[:12]})

        # ---- 5. route (b): compiled generated parsers
        S["route_b"] = 0
        S["compiled_parsers"] = 0
        if compiled:
            if lexrun_bin is None:
                # rustc rejected a parser LALRPOP generated: data for C19, a tool error here
                raise ToolError("the generated parsers do not compile:\n" + build_err[-3000:])
            t3 = time.time()
            S["compiled_parsers"] = len(compiled)
            jb, hang_jobs = [], []
            for c in compiled:
                cid = c["id"]
                ws = [w for w in strings[cid] if spec_lex[(cid, w)]["end"] != "zero"]
                jb.append({"id": cid, "case": cid, "strings": [E.text_of(c, w) for w in ws], "_ws": ws})
                hz = [w for w in strings[cid] if spec_lex[(cid, w)]["end"] == "zero"][:2]
                if hz:
                    hang_jobs.append({"id": cid + "#z", "case": cid, "strings": [E.text_of(c, w) for w in hz], "_ws": hz})
            send = [{k: v for k, v in j.items() if k != "_ws"} for j in jb]
            rb = E.run_drivers_parallel(lexrun_bin, send, wd, "lb", procs=8)
            send = [{k: v for k, v in j.items() if k != "_ws"} for j in hang_jobs[:6]]
            rbz = E.run_drivers_parallel(lexrun_bin, send, wd, "lz", procs=6, budget_env={"LEXRUN_BUDGET_MS": "700"})
            for j in jb + hang_jobs[:6]:
                c = byid[j["case"]]
                res = (rb if j["id"] in rb else rbz)[j["id"]]["res"]
                nm = names[c["id"]]
                for w, real in zip(j["_ws"], res):
                    S["route_b"] += 1
                    real2 = dict(real)
                    real2["e"] = {"ok": "eof"}.get(real["e"], real["e"])
                    compare_run(add, c, w, spec_lex[(c["id"], w)], real2, lambda i: nm[i] if i < len(nm) else "?", "b",
                                (c["id"], w) in loops)
            S["timing"]["route_b"] = round(time.time() - t3, 1)

        # ---- samples
        for c in pop:
            sp, re_ = verdicts[c["id"]]
            if len(samples["C11"]) < 5 and (sp != "ok" or len(samples["C11"]) < 2):
                o = ovl[c["id"]]
                seen_e, terms = set(), []
                for x in E.all_entries(c) + c["uses"]:
                    if x["e"] not in seen_e:
                        seen_e.add(x["e"])
                        terms.append(E.term_source(c, x)[2])
                samples["C11"].append({"definition": c["id"], "terminals": terms,
                                       "equal_precedence_pairs": o["pairs"], "spec_verdict": sp, "lalrpop_verdict": re_,
                                       "witness": show(c, o["overlaps"][0]["path"]) if o["overlaps"] else None})
        for k in sorted(loops)[:3]:
            c = byid[k[0]]
            samples["C08"].append({"definition": k[0], "grammar": E.render_grammar(c), "input": E.text_of(c, k[1]),
                                   "MCLexAsIs": asis_lex[k], "MCLex": spec_lex[k],
                                   "real_matcher": ra.get(k[0], {"res": []})["res"][strings[k[0]].index(k[1])] if k[0] in strings and k[0] in ra else None})
        for c in runnable[:2]:
            w = strings[c["id"]][-1]
            samples["C08"].append({"definition": c["id"], "input": E.text_of(c, w), "MCLex": spec_lex[(c["id"], w)],
                                   "real_matcher": ra.get(c["id"], {"res": [None]})["res"][-1]})
        S["samples"] = samples
        S["features"] = {}
        for c in runnable:
            for t in set(c["tags"]):
                S["features"][t] = S["features"].get(t, 0) + 1
        S["disagreements"] = _finish(dis, byid)
        S["timing"]["total"] = round(time.time() - t_start, 1)
        return S
    finally:
        rmtree(wd)


def hash_id(s):
    import hashlib
    return hashlib.sha1(s.encode()).hexdigest()


def _sign(x):
    return (x > 0) - (x < 0)


def _finish(dis, byid):
    """attach the full definition to (a bounded number of) disagreements so that they can be replayed"""
    out = []
    per_key = {}
    for d in dis:
        k = (d["prop"], d["key"])
        per_key[k] = per_key.get(k, 0) + 1
        d = dict(d)
        d["n"] = per_key[k]
        if per_key[k] <= 3:
            d["definition"] = byid[d["case"]]
        out.append(d)
    return out


def compare_run(add, c, w, spec, real, name_of, route, predicted_loop):
    """one behaviour of the tokenizer machine against one run of the real code.
    spec: {toks, end: done|invalid|zero, at, zname}; real: {t: [[idx, lo, hi]], e: eof|invalid|budget|timeout|panic|..., at}"""
    cid = c["id"]
    facts = case_facts(c)
    exp = [[t["name"], t["lo"], t["hi"]] for t in spec["toks"]]
    got = [[name_of(t[0]), t[1], t[2]] for t in real["t"]]
    e = real["e"]
    where = "route=%s" % route
    # ---- C08: termination / panic, whatever the tokens
    if e in ("budget", "timeout"):
        if spec["end"] == "zero":
            add("C08", "kind=zero_length_token_loop nonskip=%s %s %s" % ("yes" if spec["zname"] != "" else "no", where, facts),
                "%s: on %s the longest match at byte %d is the empty string (terminal %s); the real lexer %s"
                % (cid, show(c, w), spec["at"], spec["zname"] or "<skip>",
                   "keeps yielding empty tokens %s" % got[len(exp):len(exp) + 3] if e == "budget" else "does not return (watchdog)"),
                c, w, {"route": route})
        else:
            add("C08", "kind=hang %s %s" % (where, facts),
                "%s: on %s the real lexer does not finish (%s) although every match is non-empty" % (cid, show(c, w), e),
                c, w, {"route": route})
    elif e in ("panic", "badslice", "othererr"):
        add("C08" if e == "panic" else "C09", "kind=%s %s %s" % (e, where, facts),
            "%s: on %s the real lexer ended with `%s`" % (cid, show(c, w), e), c, w, {"route": route})
    # ---- C09: the tokens
    if e in ("panic", "badslice", "othererr", "timeout", "nocase"):
        if e == "nocase":
            raise ToolError("lexrun has no parser for " + cid)
        return
    if e == "error":
        add("C09", "kind=parse_error %s %s" % (where, facts),
            "%s: on %s the generated parser failed with %s; expected tokens %s" % (cid, show(c, w), real.get("msg", "?")[:200], exp),
            c, w, {"route": route})
        return
    if spec["end"] == "zero":
        # only the tokens before the empty match are determined by C09; what happens at it is C08's
        if route == "a" and got[:len(exp)] != exp:
            add("C09", "kind=token_mismatch %s %s" % (where, facts),
                "%s: on %s expected the tokens %s before byte %d, the real lexer yields %s" % (cid, show(c, w), exp, spec["at"], got[:len(exp) + 1]),
                c, w, {"route": route})
        elif e == "invalid" and real["at"] != spec["at"]:
            add("C09", "kind=invalid_position %s %s" % (where, facts),
                "%s: on %s expected InvalidToken at %d, got %d" % (cid, show(c, w), spec["at"], real["at"]), c, w, {"route": route})
        return
    if spec["end"] == "done":
        if e != "eof" or got != exp:
            add("C09", "kind=token_mismatch %s %s" % (where, facts),
                "%s: on %s expected %s, the real lexer gives %s%s" % (cid, show(c, w), exp, got, "" if e == "eof" else " then InvalidToken(%s)" % real["at"]),
                c, w, {"route": route})
    else:  # invalid
        if e != "invalid":
            add("C09", "kind=token_mismatch %s %s" % (where, facts),
                "%s: on %s expected %s then InvalidToken(%d), the real lexer gives %s and ends" % (cid, show(c, w), exp, spec["at"], got),
                c, w, {"route": route})
        elif real["at"] != spec["at"] or (route == "a" and got != exp):
            add("C09", "kind=%s %s %s" % ("invalid_position" if real["at"] != spec["at"] else "token_mismatch", where, facts),
                "%s: on %s expected %s then InvalidToken(%d), got %s then InvalidToken(%d)" % (cid, show(c, w), exp, spec["at"], got, real["at"]),
                c, w, {"route": route})


# --------------------------------------------------------------------------
# checks
# --------------------------------------------------------------------------
def shared(tier, seed):
    cargo_build_or_die(["lpdrv", "lexdrv", "lexrun"])
    key = "lexer-%s-%s-%s-%d" % (vlib.repo_fingerprint(), vlib.verif_fingerprint(), tier, seed)

    def build(d):
        pop = E.population(tier, seed)
        log("lexer: %d definitions" % len(pop))
        s = analyse(pop, tier, compiled_limit=14 if tier == "quick" else 120,
                    lex_prefixes="FLM" if tier == "quick" else "FLMG")
        log("lexer: timing %s" % s["timing"])
        with open(os.path.join(d, "summary.json"), "w") as f:
            json.dump(s, f)

    d = cached(key, build)
    with open(os.path.join(d, "summary.json")) as f:
        return json.load(f)


TRUSTED = ["TLC evaluates spec/Regex.tla and spec/Lexer.tla faithfully",
           "the renderer of tools/eng_lexer.py (AST -> regex / literal text) and its alphabet tables (code point ranges, \\d \\w \\s "
           "membership of the representatives) are right",
           "regex fragment covered: literals, classes (ranges, negation, \\d \\w \\s over the tabulated representatives), "
           "concatenation, alternation, groups, * + ? {m,n}; flags, Unicode property classes and anything else are outside"]


def _report_dis(rep, s, prop):
    # the shared run may come from the artefact cache; this is what it cost when it was made
    rep.add(shared_run_wall_s=s["timing"].get("total", 0.0), shared_run_timing=s["timing"])
    for d in s["disagreements"]:
        if d["prop"] == prop and "definition" in d:
            rep.violation(d["key"], d["what"], {"engine": "lexer", "property": prop, "definition": d["definition"],
                                                "w": d["w"], "extra": d.get("extra")})
        elif d["prop"] == prop:
            rep.viol.append((d["key"], d["what"], None))


def _fix_viol(rep):
    """occurrences beyond the first three of a key carry no replay object; give them the first one's"""
    first = {}
    for k, w, r in rep.viol:
        if r is not None:
            first.setdefault(k, r)
    rep.viol = [(k, w, r if r is not None else first.get(k)) for k, w, r in rep.viol]


def c08_lexer_part(rep, tier, seed):
    """lexer half of C08: adds its coverage and violations to an existing report"""
    s = shared(tier, seed)
    rep.add(states=s["lex_states"] + s["asis_states"], transitions=s["lex_transitions"] + s["asis_transitions"],
            traces_validated_against_impl=s["route_a"] + s["route_b"],
            lexer_definitions=s["runnable"], lexer_strings_under_watchdog=s["route_a"], lexer_compiled_parses=s["route_b"],
            lexprogress_repaired_model_states=s["lex_states"], lexprogress_asis_model_states=s["asis_states"],
            lexprogress_asis_counterexamples=s.get("asis_lexprogress_violations", 0))
    for x in s["samples"]["C08"]:
        rep.sample(x)
    _report_dis(rep, s, "C08")
    _fix_viol(rep)
    rep.evaluations += s["route_a"] + s["route_b"]
    rep._distinct |= {("lexer", i) for i in range(s["route_a"])}     # (definition, string) pairs, distinct by construction
    return s


def check_C08(tier, seed):
    rep = Report("C08", tier, "model_checking", seed)
    c08_lexer_part(rep, tier, seed)
    import c_core
    c_core.c08_parser_part(rep, tier, seed)
    rep.assumptions = TRUSTED + ["parser half: LRMachine.tla (runtime driver incl. error recovery and the accepts() simulation) over "
                                 "the exported tables with StepBound / AcceptsTerminates as invariants, every behaviour replayed "
                                 "through the compiled parsers under catch_unwind, a pull budget and a watchdog (engine core)"]
    return rep.finish(
        rule="parser half: every token sequence up to the bound for every grammar of the core batch (with and without `!`), "
             "table-driven and recursive ascent; lexer half: every string up to N over the representatives of every generated lexer definition, through the real Matcher "
             "(step budget len+2, watchdog) and through compiled generated parsers; LexProgress model-checked for the repaired "
             "(ZeroLenIsError) and the as-is tokenizer machine; a case is one (definition, string)")


def check_C09(tier, seed):
    rep = Report("C09", tier, "model_checking", seed)
    s = shared(tier, seed)
    rep.add(states=s["lex_states"], transitions=s["lex_transitions"],
            traces_validated_against_impl=s["route_a"] + s["route_b"], definitions=s["runnable"],
            strings_route_a_real_matcher=s["route_a"], strings_route_b_compiled_parser=s["route_b"],
            compiled_parsers=s["compiled_parsers"], precedence_order_pairs_checked=s.get("prec_pairs", 0),
            features=s.get("features", {}), exhaustive=True)
    rep.evaluations = s["route_a"] + s["route_b"]
    rep._distinct = set(range(s["route_a"]))      # (definition, string) pairs, distinct by construction
    for x in s["samples"]["C09"]:
        rep.sample(x)
    _report_dis(rep, s, "C09")
    _fix_viol(rep)
    rep.assumptions = TRUSTED + ["definitions the specification calls ambiguous (C11) or LALRPOP rejects are not lexed here; "
                                 "what happens AT an empty longest match is C08's, the tokens before it are compared"]
    return rep.finish(
        rule="TLC (MCLex) runs the documented tokenizer machine on every string up to N over the class representatives of every "
             "generated lexer definition (with/without match, 1-5 rungs, => Name / => \"name\" / => {} entries, `_` in any rung, "
             "literal-vs-regex ties, non-ASCII 2/3/4-byte characters); each behaviour is replayed through the real MatcherBuilder/"
             "Matcher built from the emitted (regex, skip) list and, for a subset, through the compiled generated parser")


def check_C10(tier, seed):
    rep = Report("C10", tier, "model_checking", seed)
    s = shared(tier, seed)
    rep.add(states=s["tab_states"], transitions=s["tab_transitions"],
            traces_validated_against_impl=s["probes"] + s["route_b"], table_cells_route_a=s["probes"],
            strings_route_b_compiled_parser=s["route_b"], definitions=s["runnable"], exhaustive=True)
    rep.evaluations = s["probes"]
    rep._distinct = set(range(s["probes"]))       # (terminal, string) cells, distinct by construction
    for x in s["samples"]["C10"]:
        rep.sample(x)
    _report_dis(rep, s, "C10")
    # route (b) exercises the Debug-quoted Rust literal -> rustc -> runtime DFA leg; its disagreements are token mismatches
    for d in s["disagreements"]:
        if d["prop"] == "C09" and "route=b" in d["key"] and "definition" in d:
            rep.violation(d["key"] + " via=C09_route_b", d["what"], {"engine": "lexer", "property": "C09",
                                                                     "definition": d["definition"], "w": d["w"]})
    _fix_viol(rep)
    rep.assumptions = TRUSTED + ["the empty string is not probed (Matcher::next returns None on empty text)"]
    return rep.finish(
        rule="TLC (MCLexTab) tabulates Matches(r, w) for every literal / regex terminal of every generated definition and every "
             "string up to N (the derivative and the denotational semantics are checked against each other in every state); "
             "each cell is executed by a one-pattern real Matcher built from the regex string LALRPOP emitted for that terminal "
             "(literal -> regex_syntax::escape -> HIR -> Display), and the compiled parsers cover the Debug-quoted Rust literal")


def check_C11(tier, seed):
    rep = Report("C11", tier, "model_checking", seed)
    s = shared(tier, seed)
    rep.add(states=s["overlap_states"], transitions=s["overlap_transitions"], traces_validated_against_impl=s["cases"],
            definitions=s["cases"], equal_precedence_pairs_decided=s["equal_prec_pairs"],
            overlap_witnesses=s["overlap_witnesses"], verdict_counts=s["verdicts"], exhaustive=True)
    rep.evaluations = s["cases"]
    rep._distinct = set(range(s["distinct_definitions"]))
    for x in s["samples"]["C11"]:
        rep.sample(x)
    _report_dis(rep, s, "C11")
    _fix_viol(rep)
    rep.assumptions = TRUSTED + ["exactness needs every atom to be a union of the alphabet's classes: definitions using \\d \\w \\s "
                                 "or a negation without an `other` class are decided over the representatives only"]
    return rep.finish(
        rule="for every generated set of terminals TLC (MCOverlap) explores the derivative product of every equal-precedence pair "
             "completely (a doubly-accepting product state is reachable iff a common string exists; no length bound); expected "
             "verdict ambiguous / accepted / unsupported compared with LALRPOP's diagnostic (in process); one case per definition")


# --------------------------------------------------------------------------
# replay
# --------------------------------------------------------------------------
def replay(obj):
    """re-run one definition of a replay file through the whole pipeline; prints what is reproduced"""
    cargo_build_or_die(["lpdrv", "lexdrv", "lexrun"])
    c = obj["definition"]
    s = analyse([c], "quick", compiled_limit=1)
    want = obj.get("property")
    n = 0
    for d in s["disagreements"]:
        if want and d["prop"] != want:
            continue
        if obj.get("w") is not None and d["w"] is not None and d["w"] != obj["w"]:
            continue
        print("REPRODUCED:", d["prop"], d["key"], d["what"])
        n += 1
    if not n:
        print("NOT REPRODUCED against the current tree (DESIGN 7.8: exit 2)")
        return 2
    return 1


# --------------------------------------------------------------------------
# self tests (binding demonstrations)
# --------------------------------------------------------------------------
def _selftest_pop():
    pop = [c for c in E.fixed_cases(3) if c["id"] in ("F001", "F003", "F007")]
    pop += [c for c in E.fixed_overlap(3) if c["id"] in ("G001", "G004")]
    return pop


def selftest_expected_value():
    """corrupt one expected token of the specification's output -> the replay must fail"""
    cargo_build_or_die(["lpdrv", "lexdrv", "lexrun"])
    orig = E.run_mclex

    def corrupted(cases, asis=False, workers=6, timeout=5400):
        res, pats, a, b, v = orig(cases, asis, workers, timeout)
        if not asis:
            k = sorted(k for k, x in res.items() if x["toks"])[0]
            res[k]["toks"][0]["hi"] += 1
        return res, pats, a, b, v

    E.run_mclex = corrupted
    try:
        s = analyse(_selftest_pop(), "quick", routes=("a",))
    finally:
        E.run_mclex = orig
    n = sum(1 for d in s["disagreements"] if d["prop"] == "C09")
    return ("lexer: corrupted expected token is rejected (C09)", n == 1, "%d disagreement(s)" % n)


def selftest_real_entries():
    """swap two entries of the real (regex, skip) list -> pattern indices no longer mean the same terminals"""
    cargo_build_or_die(["lpdrv", "lexdrv", "lexrun"])
    orig = E.emitted_entries

    def swapped(export):
        e = orig(export)
        e[0], e[1] = e[1], e[0]
        return e

    E.emitted_entries = swapped
    try:
        try:
            analyse(_selftest_pop(), "quick", routes=("a",))
            ok, detail = False, "a permuted entry list was accepted"
        except ToolError as ex:
            ok, detail = "disagree" in str(ex), str(ex)[:120]
    finally:
        E.emitted_entries = orig
    return ("lexer: a hook export that differs from the generated __intern_token table is rejected", ok, detail)


def selftest_verdict():
    """flip LALRPOP's verdict of one definition -> C11 must report it"""
    cargo_build_or_die(["lpdrv", "lexdrv", "lexrun"])
    orig = E.classify_lalrpop
    E.classify_lalrpop = lambda r: {"ok": "ambiguous", "ambiguous": "ok"}.get(orig(r), orig(r))
    try:
        s = analyse(_selftest_pop(), "quick", routes=())
    finally:
        E.classify_lalrpop = orig
    n = sum(1 for d in s["disagreements"] if d["prop"] == "C11")
    return ("lexer: flipped ambiguity verdicts are rejected (C11)", n == 5, "%d disagreement(s) of 5" % n)


def selftest_table():
    """corrupt one cell of the Matches table -> C10 must report it"""
    cargo_build_or_die(["lpdrv", "lexdrv", "lexrun"])
    orig = E.run_tab

    def corrupted(cases, workers=6, timeout=5400):
        tab, a, b = orig(cases, workers, timeout)
        k = sorted(tab)[0]
        w = sorted(tab[k])[0]
        tab[k].discard(w)
        return tab, a, b

    E.run_tab = corrupted
    try:
        s = analyse(_selftest_pop(), "quick", routes=("a",))
    finally:
        E.run_tab = orig
    n = sum(1 for d in s["disagreements"] if d["prop"] == "C10")
    return ("lexer: corrupted Matches cell is rejected (C10)", n == 1, "%d disagreement(s)" % n)


def selftest_hang():
    """a run of the real lexer that does not finish (recorded as `timeout`) -> C08 must report a hang"""
    cargo_build_or_die(["lpdrv", "lexdrv", "lexrun"])
    orig = E.run_drivers_parallel

    def stuck(binary, jobs, wd, tag, procs=8, budget_env=None):
        out = orig(binary, jobs, wd, tag, procs, budget_env)
        if tag == "la":
            k = sorted(out)[0]
            out[k]["res"][-1] = {"t": [], "e": "timeout", "at": 0}
        return out

    E.run_drivers_parallel = stuck
    try:
        s = analyse(_selftest_pop(), "quick", routes=("a",))
    finally:
        E.run_drivers_parallel = orig
    n = sum(1 for d in s["disagreements"] if d["prop"] == "C08" and "kind=hang" in d["key"])
    return ("lexer: a string on which the real lexer does not return is reported (C08)", n == 1, "%d disagreement(s)" % n)


REGISTRY = {"C08": check_C08, "C09": check_C09, "C10": check_C10, "C11": check_C11}
REPLAY = {"lexer": replay}
SELFTESTS = [selftest_expected_value, selftest_real_entries, selftest_verdict, selftest_table, selftest_hang]
ENGINES = [{"name": "lexer",
            "path": "tools/eng_lexer.py, tools/c_lexer.py, spec/Regex.tla, spec/Lexer.tla, spec/MCLex.tla, spec/MCLexTab.tla, "
                    "spec/MCOverlap.tla, harness/crates/lexdrv, harness/crates/lexrun, harness/crates/lpdrv",
            "serves_properties": ["C08", "C09", "C10", "C11"],
            "kind_free_text": "TLA+ specification of regexes (Brzozowski derivatives on ACI-normal forms, denotational Matches), of the "
                              "documented precedence assignment of match blocks and of the longest-match tokenizer machine; TLC "
                              "enumerates all strings up to a bound per generated lexer definition and decides overlap exactly by the "
                              "derivative product; behaviours are replayed through the real MatcherBuilder/Matcher fed with the regex "
                              "list LALRPOP emits and through compiled generated parsers"}]


def _manifest(pid, text, note, ref):
    return {"property_id": pid, "quick_cmd": "./check %s --tier quick" % pid, "thorough_cmd": "./check %s --tier thorough" % pid,
            "evidence_file": "evidence/%s.json" % pid, "replay_cmd_template": "./check %s --replay {path}" % pid, "engine": "lexer",
            "level_claimed": {"category": "model_checking", "design_ref": ref, "text": text},
            "level_note": note,
            "technique": "TLA+ spec (Regex.tla, Lexer.tla) + TLC exhaustive exploration per definition; conformance by replaying "
                         "every TLC-generated behaviour into the real code"}


MANIFEST = [
    _manifest("C08",
              "Lexer half: LexProgress (every yielded token advances the position) is model-checked by TLC on the tokenizer machine "
              "of Lexer.tla for every string up to N of every generated definition, both for the repaired behaviour (holds) and for "
              "the code as it stands (counterexamples); all those strings are run through the real Matcher under a step budget and a "
              "watchdog, and through compiled parsers.",
              "Only the lexer half is claimed by this engine; the parser half (LRMachine Progress, recovery) is merged in by the "
              "coordinator. Bounded in string length and definition size.", "DESIGN.md 4.6, 5/C08"),
    _manifest("C09",
              "TLC runs the documented tokenizer machine (longest match, rung precedence, literal over regex, `_`, implicit "
              "white-space skip, byte offsets, InvalidToken) on every string up to N for every generated lexer definition and every "
              "behaviour is replayed through the real MatcherBuilder/Matcher (fed the regex list LALRPOP emits) and through compiled "
              "generated parsers.",
              "Trusted: TLC, the AST renderer and its alphabet tables. Bounded: <=5 terminals, AST depth <=3, <=6 character classes, "
              "strings <=4 (quick) / <=5 (thorough).", "DESIGN.md 4.6, 5/C09"),
    _manifest("C10",
              "TLC tabulates Matches(r, w) (two semantics cross-checked in every state) for every generated literal / regex and every "
              "string up to N over representatives including regex metacharacters, quote, backslash, #, newline and 2/3/4-byte UTF-8; "
              "every cell is executed by the real Matcher on the regex string LALRPOP emitted, and compiled parsers cover the "
              "Rust-literal leg.",
              "Holds for the regex fragment the specification models (literals, classes incl. ranges / negation / \\d \\w \\s over "
              "tabulated representatives, concatenation, alternation, groups, * + ? {m,n}); flags and Unicode property classes are "
              "outside. The empty string is not probed.", "DESIGN.md 4.6, 5/C10"),
    _manifest("C11",
              "For every generated set of terminals TLC explores the derivative product of every equal-precedence pair completely: a "
              "common string exists iff a doubly-accepting product state is reachable (exact, unbounded string length). The verdict "
              "(ambiguous / accepted / unsupported construct) is compared with LALRPOP's diagnostic.",
              "Exact per terminal set over alphabets that partition all of Unicode (explicit ranges + `other`); sets using \\d \\w \\s "
              "are decided over representatives only. The runtime semantics is tied to the real matcher by C10.",
              "DESIGN.md 4.6, 5/C11"),
]
