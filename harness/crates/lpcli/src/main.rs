// The real CLI: the source of the `lalrpop` binary is included verbatim from /repo, so
// that it is rebuilt from the working tree together with the rest of the harness.
include!("/repo/lalrpop/src/main.rs");
