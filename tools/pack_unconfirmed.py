#!/usr/bin/env python3
"""Copy a round-3 change that could not be fully confirmed in time into seeded/_round3_unconfirmed/<id>/.
  tools/pack_unconfirmed.py <Cxx> <mk> <reported-by csv or ''> <status text>"""
import json, os, shutil, sys
ROOT = os.path.dirname(os.path.dirname(os.path.abspath(__file__)))
P, K, caught, status = sys.argv[1], sys.argv[2], sys.argv[3], sys.argv[4]
src = "/tmp/mut-%s-out/%s" % (P, K)
dst = os.path.join(ROOT, "seeded", "_round3_unconfirmed", "%s-%s" % (P, K))
shutil.rmtree(dst, ignore_errors=True)
os.makedirs(dst)
for name in os.listdir(src):
    p = os.path.join(src, name)
    if name in ("tmp", "work", "target") or name.endswith(".log"):
        continue
    if os.path.isdir(p):
        shutil.copytree(p, os.path.join(dst, name), ignore=shutil.ignore_patterns("target", "tmp", "work", "*.rs.bk"))
    elif os.path.getsize(p) < 400000:
        shutil.copy(p, dst)
meta = {}
try:
    meta = json.load(open(os.path.join(src, "meta.json")))
except Exception:
    pass
meta.update({"id": "%s-%s" % (P, K), "status": status,
             "reported_by_checks": [c for c in caught.split(",") if c],
             "author": "independent sub-agent given only the property record and a scratch worktree"})
json.dump(meta, open(os.path.join(dst, "meta.json"), "w"), indent=1)
print("packed", dst)
