"""Checks on the compiled route (engine `core`): C01, C02, C04, C05, C06, C07,
C08 (parser half), C17, C19.  One shared batch per (repository state, tier,
seed): grammars -> Sem.tla/TLC expected records -> LALRPOP -> rustc -> run ->
compare; every property reads its own disagreements from it.
"""
import json
import os
import random

import c_sim
import core
import eng_core
import gen
import vlib
from vlib import Report, ToolError, cached, cargo_build_or_die, log, mkscratch, rmtree

DEPS = ["spec/Grammar.tla", "spec/CanonLR.tla", "spec/Sem.tla", "spec/SemVal.tla", "spec/Cfg.tla", "spec/Prec.tla", "spec/Macro.tla", "spec/Gen.tla", "spec/Types.tla", "spec/MCEval.cfg", "spec/LRMachine.tla", "spec/MCRun.cfg", "spec/TraceLR.tla", "spec/TraceLR.cfg", "tools/core.py", "tools/eng_core.py",
        "tools/c_core.py", "tools/gen.py", "tools/lp.py", "tools/vlib.py", "harness/crates/runner", "harness/crates/lpdrv",
        "harness/Cargo.toml", "harness/.cargo"]
PROPS = ["C01", "C02", "C04", "C05", "C06", "C07", "C08", "C16", "C17", "C19"]


def population(tier, seed):
    rng = random.Random(seed * 1000003 + 17)
    n_gen = 260 if tier == "quick" else 1500
    pop = []
    for i in range(n_gen):
        r = rng.random()
        if r < 0.06:
            g = gen.lr1_not_lalr(rng, i)
        elif r < 0.14:
            g = gen.recovery_shapes(rng, i)
        elif r < 0.2:
            g = gen.ascent_slots(rng, i)
        elif r < 0.24:
            g = gen.merged_brackets(rng, i)
        elif r < 0.55:
            g = gen.random_grammar(rng, i, max_nt=3, max_t=3, max_prods=7, max_rhs=3,
                                   starts=(2 if rng.random() < 0.2 else 1))
        elif r < 0.85:
            g = gen.random_grammar(rng, i, max_nt=4, max_t=4, max_prods=9, max_rhs=4,
                                   starts=(2 if rng.random() < 0.2 else 1))
        else:
            g = gen.random_grammar(rng, i, max_nt=2, max_t=2, max_prods=5, max_rhs=3, p_empty=0.3)
        if i in (7, 8):
            g = gen.many_productions(i, total=128 if i == 7 else 127)   # around the i8 boundary of the table cell type
        g["id"] = "c%04d" % i
        if g["id"] in ("c0007", "c0008"):
            cg = core.annotate(g, rng, p_loc=0.0, p_fallible=0.0)
            pop.append(cg)
            continue
        if not g.get("recovery") and not g.get("bound") and rng.random() < 0.25:
            g = core.add_recovery(g, rng)
        if rng.random() < 0.3:
            g = core.add_markers(g, rng)
        # recovery shapes: more locations and fallible actions (their failure and spans during recovery matter)
        if g.get("recshape"):
            pop.append(core.annotate(g, rng, p_loc=0.5, p_fallible=0.4))
        elif g.get("locshape"):
            pop.append(core.annotate(g, rng, p_loc=0.8, p_fallible=0.05))
        else:
            pop.append(core.annotate(g, rng))
    return pop


def bound_for(cg, tier):
    if cg.get("bound"):
        return cg["bound"][0 if tier == "quick" else 1]
    t = len(cg["ts"])
    if tier == "quick":
        return {1: 6, 2: 5, 3: 4, 4: 3}.get(t, 3)
    return {1: 8, 2: 6, 3: 5, 4: 4}.get(t, 4)


def variants_for(idx, tier):
    v = [("lane", "table"), ("lane", "ascent")]
    if idx % 3 == 0:
        v += [("lr1", "table"), ("lr1", "ascent")]
    if idx % 3 == 1:
        v += [("lalr", "table")]
        if tier == "thorough":
            v += [("lalr", "ascent")]
    return v


def run_batch(cgs, tier, seed, keep_dir=None, variants_fn=None, owner=None, debug=None):
    """-> summary dict (JSON-able).  owner(cg, prop) may re-attribute a
    disagreement (feature batches: inline, cfg, ... own what they vary)"""
    rng = random.Random(seed * 31 + 5)
    cases = []
    for cg in cgs:
        for s in cg["starts"]:
            if cg.get("sugar"):
                import sugar
                cases.append(sugar.eval_case(cg, s, bound_for(cg, tier), True))
            else:
                cases.append(core.eval_case(cg, s, bound_for(cg, tier), True))
                if len(cases) % 3 == 0:
                    cases[-1]["gen"] = True    # sanity net: Gen.tla vs the canonical oracle (a spec defect is exit 2)
    recs, states, generated = eng_core.run_eval(cases)
    lr1 = eng_core.run_eval.lr1
    reduced = eng_core.run_eval.reduced
    spec_types = dict(eng_core.run_eval.types)
    usable = [cg for cg in cgs if all(lr1.get("%s@%s" % (cg["id"], s)) for s in cg["starts"])]
    # long inputs (sentences by random derivation and single-token mutations of them): one behaviour each
    longs = {}
    lcases = []
    n_long = 5 if tier == "quick" else 14
    for cg in usable:
        if cg.get("sugar") or cg.get("prec") or cg.get("cfg"):
            continue
        for s in cg["starts"]:
            ins = core.long_inputs(cg, s, rng, k=n_long)
            longs[(cg["id"], s)] = ins
            for j, w in enumerate(ins):
                c = core.eval_case(cg, s, len(w) + 1, rng.random() < 0.15)
                c["id"] += "#L%d" % j
                c["fixed"] = w
                lcases.append(c)
    if lcases:
        lrecs, st2, ge2 = eng_core.run_eval(lcases, chunk=150)
        states += st2
        generated += ge2
        for k, v in lrecs.items():
            recs.setdefault(k.split("#")[0], []).extend(v)
    idx_of = {cg["id"]: i for i, cg in enumerate(usable)}

    def variants(cg):
        if variants_fn:
            return variants_fn(cg, idx_of[cg["id"]])
        if cg.get("recovery"):
            i = idx_of[cg["id"]]
            return [("lane", "table")] + ([("lr1", "table")] if i % 3 == 0 else [("lalr", "table")] if i % 3 == 1 else [])
        return variants_for(idx_of[cg["id"]], tier)

    wd = keep_dir or mkscratch("core")
    try:
        res = eng_core.generate(usable, variants, wd)
        dis = []
        stats = {p: 0 for p in PROPS}
        modules = []
        rejected = []
        for cg in usable:
            for algo, backend in variants(cg):
                m = eng_core.modname(cg["id"], algo, backend)
                r = res[m]
                if r["status"] == "ok":
                    modules.append((m, r["rs"], [(st, core.nt_name(cg, st), core.parse_args(cg))
                                                 for st in cg["starts"]]))
                elif r["status"] in ("panic", "timeout", "abort"):
                    dis.append({"prop": "C18", "kind": r["status"], "m": m})
                else:
                    # LALRPOP rejects a grammar the spec finds LR(1): C03's business for lane/lr1;
                    # expected for LALR. Not judged here.
                    rejected.append((m, r["message"][:100]))
        byid = {cg["id"]: cg for cg in usable}
        # the nonterminal types LALRPOP inferred against Types.tla (C19)
        ntypes = 0
        for m, _, starts in modules:
            gid, algo, backend = m.split("_")
            cg = byid[gid]
            if cg.get("names") or backend != "table":
                continue
            spec_t = spec_types.get("%s@%s" % (gid, cg["starts"][0]))
            if not spec_t:
                continue
            ntypes += len(spec_t)
            for nt, want, got in eng_core.compare_types(spec_t, res[m]["export"]):
                dis.append({"prop": "C19", "kind": "inferred_type_differs", "backend": backend, "algo": algo, "gid": gid,
                            "start": cg["starts"][0], "input": [], "cg": cg, "facts": [],
                            "detail": "nonterminal %s: documented rules give %s, LALRPOP inferred `%s`" % (nt, json.dumps(want), got)})
        # the runtime model over the exported tables of every accepted module
        run_cases = []
        long_run_cases = []
        for m, _, starts in modules:
            gid, algo, backend = m.split("_")
            cg = byid[gid]
            ex = res[m]["export"]
            if cg.get("inline") or cg.get("no_machine"):
                continue   # the exported grammar is the inlined one; LRMachine is bound to core grammars only
            for a in ex["automata"]:
                rc = core.run_case(cg, a["user"], bound_for(cg, tier), True, ex, a, backend, "%s@%s" % (m, a["user"]))
                if rc is None:
                    dis.append({"prop": "C01", "kind": "export_does_not_match_core_grammar", "backend": backend, "algo": algo,
                                "gid": gid, "start": a["user"], "cg": cg, "input": [], "detail": ""})
                else:
                    run_cases.append(rc)
                    for j, w in enumerate(longs.get((gid, a["user"]), [])):
                        lc = dict(rc)
                        lc["id"] = "%s@%s#L%d" % (m, a["user"], j)
                        lc["fixed"] = w
                        lc["n"] = len(w) + 1
                        lc["inject"] = (j % 7 == 3)
                        long_run_cases.append(lc)
        rrecs, rstates, rgenerated, rviol = eng_core.run_machine(run_cases)
        if long_run_cases:
            r2, s2, g2, v2 = eng_core.run_machine(long_run_cases, chunk=200)
            rstates += s2
            rgenerated += g2
            rviol += v2
            for k, v in r2.items():
                rrecs.setdefault(k.split("#")[0], []).extend(v)
        for v in rviol:
            m, start = v["id"].split("#")[0].split("@")
            gid, algo, backend = m.split("_")
            prop = "C08" if v["inv"] in ("StepBound", "AcceptsTerminates") else "C16" if byid[gid].get("recovery") else "C01"
            dis.append({"prop": prop, "kind": "model_invariant_" + v["inv"], "backend": backend, "algo": algo, "gid": gid,
                        "start": start, "input": [], "detail": "input %s result %s" % (v["inp"], v["res"]), "cg": byid[gid]})
        binp, bad = eng_core.build_runner_isolating(modules, os.path.join(wd, "gen"), "runner-core")
        badset = {m for m, _ in bad}
        stats["C19"] = len(modules)
        for m, err in bad:
            gid, algo, backend = m.split("_")
            dis.append({"prop": "C19", "kind": "does_not_compile", "backend": backend, "algo": algo, "gid": gid,
                        "detail": err[-1200:], "cg": byid[gid]})
        # requests: per module and start symbol, every input of the canonical evaluation and of the
        # runtime model (+ suffixed variants of canonical error records)
        reqs = []
        meta = {}
        traced = {}
        rid = 0
        for m, _, starts in modules:
            if m in badset:
                continue
            gid, algo, backend = m.split("_")
            cg = byid[gid]
            recovery = bool(cg.get("recovery"))
            for s, _, _ in starts:
                cid = "%s@%s" % (gid, s)
                plan = {}   # (tuple(raw input), err_at) -> [sem rec | None, run rec | None, suffixed]
                for rec in recs.get(cid, []):
                    kind = rec["res"]["kind"]
                    if recovery and kind in ("tok", "eof"):
                        continue   # with `!` the runtime recovers instead; LRMachine says how
                    base = [core.tok_kind(cg, t) for t in rec["input"]]
                    err_at = rec["res"]["at"] if kind == "inj" else None
                    if kind == "inj":
                        base = base + [0]
                    plan.setdefault((tuple(base), err_at), [None, None, False])[0] = rec
                    # extra tokens may follow only where the parser has not seen the end of input
                    can_suffix = (not recovery) and (kind in ("tok", "inj") or (kind == "user" and rec["la"] != "$"))
                    if can_suffix and rng.random() < 0.4:
                        suf = [rng.randrange(len(cg["ts"])) for _ in range(rng.randint(1, 2))]
                        plan.setdefault((tuple(base + suf), err_at), [None, None, True])[0] = rec
                for rec in rrecs.get("%s@%s" % (m, s), []):
                    kind = rec["res"]["kind"]
                    base = [core.tok_kind(cg, t) for t in rec["input"]]
                    err_at = rec["res"]["at"] if kind == "inj" else None
                    if kind == "inj":
                        base = base + [0]
                    e = plan.setdefault((tuple(base), err_at), [None, None, False])
                    e[1] = rec
                for (inp, err_at), (srec, rrec, suffixed) in plan.items():
                    rid += 1
                    rq = {"rid": rid, "m": m, "start": s, "input": list(inp), "err_at": err_at}
                    if rrec is not None and "#L" in rrec["id"] and backend == "table":
                        rq["trace"] = True      # the real driver's step events, validated by TraceLR.tla
                        traced[rid] = rrec["id"]
                    reqs.append(rq)
                    meta[rid] = (cid, m, srec, rrec, suffixed, list(inp))
        ocs = eng_core.run_requests(binp, reqs, wd)
        if debug is not None:
            debug["meta"] = meta
            debug["ocs"] = ocs
        if len(ocs) != len(reqs):
            raise ToolError("runner answered %d of %d requests" % (len(ocs), len(reqs)))
        if owner:
            for d in dis:
                if d.get("cg"):
                    d["prop"] = owner(d["cg"], d["prop"])
        # trace validation (impl -> spec): the recorded driver events of the long inputs against LRMachine
        ntraces = 0
        tstates = 0
        if traced:
            lbyid = {c["id"]: c for c in long_run_cases}
            tcases = []
            for rid_, lid in traced.items():
                oc = ocs[rid_]
                if "trace" not in oc or lid not in lbyid:
                    continue
                tc = dict(lbyid[lid])
                tc["trace"] = oc["trace"]
                tcases.append(tc)
            if debug is not None:
                debug["tcases"] = tcases
            okids, stuck, tstates, tviol = eng_core.run_trace(tcases)
            ntraces = len(tcases)
            for tc in tcases:
                if tc["id"] in okids:
                    continue
                m_, start_ = tc["id"].split("#")[0].split("@")
                gid_, algo_, backend_ = m_.split("_")
                cg_ = byid[gid_]
                st_ = stuck.get(tc["id"], {})
                prop_ = "C16" if cg_.get("recovery") else "C04" if st_.get("pc") in ("inner", "eof") else "C01"
                dis.append({"prop": prop_, "kind": "driver_trace_rejected_by_model", "backend": backend_, "algo": algo_,
                            "gid": gid_, "start": start_, "input": tc["fixed"], "err_at": None,
                            "detail": "event %s of %s not explained by LRMachine.tla: %s" % (
                                st_.get("at"), st_.get("of"), json.dumps(st_)[:400]),
                            "facts": [], "cg": cg_, "suffixed": False,
                            "raw_input": [core.tok_kind(cg_, t) for t in tc["fixed"]]})
            for v in tviol:
                m_, start_ = v["id"].split("#")[0].split("@")
                gid_, algo_, backend_ = m_.split("_")
                dis.append({"prop": "C16" if byid[gid_].get("recovery") else "C01", "kind": "trace_invariant_" + v["inv"],
                            "backend": backend_, "algo": algo_, "gid": gid_, "start": start_, "input": [], "detail": "",
                            "facts": [], "cg": byid[gid_]})
        pair = {}
        seen = set()
        for rid, (cid, m, srec, rrec, suffixed, inp) in meta.items():
            oc = ocs[rid]
            gid, start = cid.split("@")
            _, algo, backend = m.split("_")
            cg = byid[gid]
            recovery = bool(cg.get("recovery"))
            is_reduced = reduced.get(cid, False)
            rec0 = srec or rrec
            kind = rec0["res"]["kind"]
            stats["C01"] += 1
            stats["C08"] += 1
            if recovery:
                stats["C16"] += 1
            elif kind == "ok":
                stats["C02"] += 1
                stats["C06"] += 1 if _has_loc(cg) else 0
            elif kind in ("tok", "eof", "extra") and is_reduced:
                stats["C04"] += 1
                stats["C05"] += 1
            if kind in ("user", "inj"):
                stats["C17"] += 1
            found = []
            if srec is not None:
                found += [(p, k, d, srec) for p, k, d in eng_core.compare(srec, oc, algo, backend, suffixed)]
            if rrec is not None:
                found += [(p, k, d, rrec) for p, k, d in eng_core.compare_exact(rrec, oc, recovery)]
            if srec is not None and rrec is not None and recovery and srec["res"]["kind"] == "ok" and \
                    (rrec["res"]["kind"] != "ok" or _has_err(rrec["res"].get("value"))):
                found.append(("C16", "recovery_used_on_derivable_input", json.dumps(rrec["res"])[:300], rrec))
            for prop, k, detail, rec in found:
                if prop in ("C04", "C05") and not is_reduced:
                    continue
                key = (prop, k, m, start, tuple(inp))
                if key in seen:
                    continue
                seen.add(key)
                dis.append({"prop": owner(cg, prop) if owner else prop, "kind": k, "backend": backend, "algo": algo,
                            "gid": gid, "start": start,
                            "input": rec["input"], "err_at": rec["res"].get("at"), "detail": detail[:600],
                            "facts": _facts(prop, k, rec, oc) + _inline_facts(cg, rec, oc), "cg": cg,
                            "suffixed": suffixed, "raw_input": inp})
            if not recovery:
                pair.setdefault((cid, algo, tuple(inp), rec0["res"].get("at")), {})[backend] = (oc, rec0)
        for (cid, algo, inp, at), d in pair.items():
            if "table" in d and "ascent" in d:
                stats["C07"] += 1
                if not eng_core.same_result(d["table"][0], d["ascent"][0]):
                    gid, start = cid.split("@")
                    rec = d["table"][1]
                    dis.append({"prop": owner(byid[gid], "C07") if owner else "C07", "kind": "backends_differ",
                                "backend": "both", "algo": algo, "gid": gid,
                                "start": start, "input": rec["input"], "err_at": at,
                                "detail": "table: %s | ascent: %s" % (_short(d["table"][0]), _short(d["ascent"][0])),
                                "facts": _facts("C07", "backends_differ", rec, d["ascent"][0], d["table"][0]),
                                "cg": byid[gid], "suffixed": False, "raw_input": list(inp)})
        samples = []
        for rid in list(meta)[:: max(1, len(meta) // 5)][:5]:
            cid, m, srec, rrec, suffixed, inp = meta[rid]
            rec = srec or rrec
            samples.append({"module": m, "start": cid.split("@")[1], "input": rec["input"],
                            "canonical_spec_result": srec["res"] if srec else None,
                            "runtime_model_result": rrec["res"] if rrec else None,
                            "real_outcome": {k: v for k, v in ocs[rid].items() if k != "rid"}})
        kinds = {}
        for v in recs.values():
            for r in v:
                kinds[r["res"]["kind"]] = kinds.get(r["res"]["kind"], 0) + 1
        rkinds = {}
        nrec = 0
        for v in rrecs.values():
            for r in v:
                rkinds[r["res"]["kind"]] = rkinds.get(r["res"]["kind"], 0) + 1
                if _has_err(r["res"].get("value")):
                    nrec += 1
        return {"grammars_generated": len(cgs), "grammars_lr1": len(usable), "modules": len(modules),
                "rejected": rejected[:500], "accepted_modules": [m for m, _, _ in modules],
                "recovery_grammars": sum(1 for cg in usable if cg.get("recovery")),
                "rejected_by_lalrpop": len(rejected), "records": sum(len(v) for v in recs.values()),
                "record_kinds": kinds, "machine_records": sum(len(v) for v in rrecs.values()), "machine_record_kinds": rkinds,
                "machine_recovered_parses": nrec, "driver_traces_validated": ntraces, "trace_states": tstates,
                "nonterminal_types_compared": ntypes,
                "requests": len(reqs), "states": states + rstates, "generated": generated + rgenerated,
                "stats": stats, "disagreements": dis, "samples": samples}
    finally:
        if not keep_dir:
            rmtree(wd)


def _has_err(v):
    if isinstance(v, list):
        if v and v[0] == "e":
            return True
        return any(_has_err(x) for x in v)
    return False


def _has_loc(cg):
    return any(s["k"] in ("L", "R") for p in cg["prods"] for s in p["syms"])


def _short(oc):
    o = {k: v for k, v in oc.items() if k in ("ok", "value", "error", "panic", "timeout")}
    if "error" in o:
        o["error"] = {k: v for k, v in o["error"].items() if k != "expected"}
    return json.dumps(o)[:300]


def _flatten(v, out):
    if isinstance(v, list):
        for x in v:
            _flatten(x, out)
    else:
        out.append(v)


def _facts(prop, kind, rec, oc, oc2=None):
    """structural facts about a disagreement (for known-finding keys)"""
    f = []
    if prop in ("C06", "C07") and rec["res"]["kind"] == "ok" and oc.get("ok"):
        exp, got = [], []
        _flatten(rec["res"]["value"], exp)
        _flatten(oc["value"], got)
        if len(exp) == len(got):
            diff = [(e, g) for e, g in zip(exp, got) if e != g]
            if diff and all(g == 0 and isinstance(e, int) and e >= 10 for e, g in diff):
                f.append("got_default_location=yes")
    return f


def _inline_facts(cg, rec, oc):
    """two (or more) inlined nonterminals whose alternatives run user code occur in one alternative, and
    the real action log is a permutation of the expected one"""
    inl = set(cg.get("inline", []))
    if not inl:
        return []
    coded = {p["lhs"] for p in cg["prods"] if p["lhs"] in inl and p["form"] in ("user", "usera", "useru", "fallible")}
    if not any(sum(1 for x in p["rhs"] if x in coded) >= 2 for p in cg["prods"]):
        return []
    f = ["inline_pair_in_one_alt=yes"]
    try:
        if sorted(e[0] for e in rec["events"]) == sorted(e[0] for e in oc["events"]):
            f.append("events_permuted=yes")
    except Exception:
        pass
    return f


def shared(tier, seed):
    cargo_build_or_die(["lpdrv", "runner"])
    key = "core-%s-%s-%s-%d" % (vlib.repo_fingerprint(), vlib.verif_fingerprint(DEPS), tier, seed)

    def build(d):
        cgs = population(tier, seed)
        log("core: %d grammars generated" % len(cgs))
        s = run_batch(cgs, tier, seed)
        with open(os.path.join(d, "summary.json"), "w") as f:
            json.dump(s, f)

    d = cached(key, build)
    with open(os.path.join(d, "summary.json")) as f:
        return json.load(f)


def dkey(d):
    k = "kind=%s backend=%s algo=%s" % (d["kind"], d.get("backend", "-"), d.get("algo", "-"))
    for f in d.get("facts", []):
        k += " " + f
    return k


def describe(d):
    return "%s: grammar %s start %s (%s/%s) input %s%s: %s" % (
        d["kind"], d.get("gid"), d.get("start"), d.get("algo"), d.get("backend"), " ".join(d.get("input", [])) or "(empty)",
        (" error injected at %s" % d["err_at"]) if d.get("err_at") else "", d.get("detail", "")[:300])


def replay_obj(d):
    return {"engine": "core", "cg": d.get("cg"), "algo": d.get("algo"), "backend": d.get("backend"),
            "start": d.get("start"), "input": d.get("input"), "err_at": d.get("err_at"), "prop": d["prop"],
            "raw_input": d.get("raw_input")}


LEVEL = {"C01": "model_checking", "C02": "model_checking", "C04": "model_checking", "C05": "model_checking",
         "C06": "model_checking", "C07": "translation_validation", "C08": "model_checking", "C16": "model_checking",
         "C17": "model_checking",
         "C19": "exploration"}

RULES = {
    "C01": "seeded random core grammars the specification finds LR(1); for each pub start symbol TLC (Sem.tla, canonical LR(1) "
           "oracle) enumerates every token sequence up to the bound, with accept/reject; each is run through the compiled "
           "parsers (lane/lr1/lalr x table/ascent); plus the product simulation of every exported automaton (Sim.tla)",
    "C02": "accepted inputs of the same enumeration; expected value and action order from Sem.tla (handed values, default "
           "actions, named/anonymous/selected bindings, fallible actions that succeed); distinct = distinct (grammar, input)",
    "C04": "rejected inputs of the same enumeration for reduced grammars: error variant, token index and span, EOF location, "
           "tokens pulled (also with extra tokens appended after the offending token)",
    "C05": "the `expected` list of every error of the C04 runs against ValidNext of the canonical state (subset; equality "
           "under canonical LR(1)); duplicates and the error terminal flagged",
    "C06": "accepted inputs of grammars containing @L/@R and empty productions; tokens carry gapped spans (10k+3, 10k+7); "
           "all location values are part of the compared result",
    "C07": "every input of the enumeration run through the table-driven and the recursive-ascent parser of the same grammar "
           "and algorithm; results compared (expected lists excluded)",
    "C08": "every parse of the enumeration runs under catch_unwind, a pull budget on the token stream and a watchdog; "
           "panics, time-outs and crashes are violations",
    "C16": "grammars with `!` alternatives at various places; LRMachine.tla (the runtime driver with error recovery over the "
           "exported tables) is explored by TLC for every input up to the bound with the C16 statements as invariants "
           "(tree is a derivation, tokens a subsequence, every other token in exactly one error span, spans ordered, dropped "
           "tokens in order) and every behaviour is replayed through the compiled table-driven parser and compared exactly "
           "(tree, ErrorRecovery values incl. expected lists, spans, action log); inputs the canonical parser accepts must "
           "be parsed without recovery",
    "C17": "fallible actions with generator-chosen failure conditions and one injected stream error at every position; "
           "expected error, action log and pull count from Sem.tla",
    "C19": "every module LALRPOP generated for the batch is compiled by rustc; a module that fails to compile is attributed "
           "to its grammar; in addition the type LALRPOP inferred for every nonterminal (hook export) is compared with the "
           "type Types.tla derives from the documented rules (declared type; single handed symbol / tuple / (); Vec, Option "
           "and group types of the macro batch)",
}


def check_prop(prop, tier, seed):
    rep = Report(prop, tier, LEVEL[prop], seed)
    s = shared(tier, seed)
    n = s["stats"].get(prop, 0)
    rep.evaluations = n
    rep._distinct = set(range(n))
    if LEVEL[prop] == "model_checking":
        rep.add(states=s["states"], transitions=s["generated"], traces_validated_against_impl=n)
    elif LEVEL[prop] == "translation_validation":
        rep.add(programs=s["modules"], disagreements_checked=n)
    rep.add(grammars_lr1=s["grammars_lr1"], modules_compiled=s["modules"], spec_records=s["records"],
            record_kinds=s["record_kinds"])
    if prop == "C19":
        import c_feat
        ms = c_feat.macro_summary(tier, seed)
        rep.add(nonterminal_types_compared=s.get("nonterminal_types_compared", 0) + ms.get("nonterminal_types_compared", 0),
                macro_batch_modules_compiled=ms["modules"])
        rep.evaluations += ms["modules"]
        rep._distinct |= {("macro", i) for i in range(ms["modules"])}
        for d in ms["disagreements"]:
            if d["kind"] in ("inferred_type_differs", "does_not_compile"):
                rep.violation(dkey(d), describe(d), replay_obj(d))
    for x in s["samples"]:
        rep.sample(x)
    for d in s["disagreements"]:
        if d["prop"] == prop:
            rep.violation(dkey(d), describe(d), replay_obj(d))
    if prop == "C01":
        c_sim.check_C01_sim(rep, tier, seed)
    if prop == "C06":
        # locations written inside macro bodies (`Spanned<T> = <@L> <T> <@R> ..`): the macro batch
        import c_feat
        ms = c_feat.macro_summary(tier, seed)
        rep.add(macro_batch_parses=ms["stats"]["C01"])
        for d in ms["disagreements"]:
            if d["prop"] == "C06":
                rep.violation(dkey(d), describe(d), replay_obj(d))
    rep.assumptions = ["TLC evaluates Sem.tla / CanonLR.tla faithfully", "rustc and the harness runtime (rt.rs) are correct",
                       "inputs are bounded in length (see rule); grammars are small"]
    return rep.finish(rule=RULES[prop])


def c08_parser_part(rep, tier, seed):
    """parser half of C08 added to a report: every parse of the core batch ran under catch_unwind, a pull budget
    and a watchdog; LRMachine.tla's StepBound / AcceptsTerminates invariants were model-checked over the exported tables"""
    s = shared(tier, seed)
    n = s["stats"]["C08"]
    rep.evaluations += n
    rep._distinct |= {("parser", i) for i in range(n)}
    rep.add(states=s["states"], transitions=s["generated"], traces_validated_against_impl=n,
            parser_parses_under_watchdog=n, parser_machine_records=s["machine_records"],
            parser_recovered_parses=s["machine_recovered_parses"])
    for d in s["disagreements"]:
        if d["prop"] == "C08":
            rep.violation(dkey(d), describe(d), replay_obj(d))


def replay(obj):
    cargo_build_or_die(["lpdrv", "runner"])
    cg = obj["cg"]
    tier = "quick"
    n = max(len(obj.get("raw_input") or obj["input"]), bound_for(cg, tier))
    cases = [core.eval_case(cg, obj["start"], n, True)]
    recs, _, _ = eng_core.run_eval(cases)
    want = [r for r in recs.get(cases[0]["id"], []) if r["input"] == obj["input"] and r["res"].get("at") == obj.get("err_at")]
    if not want:
        print("no spec record for this input")
        return 2
    wd = mkscratch("replay")
    try:
        variants = [(obj["algo"], "table"), (obj["algo"], "ascent")] if obj["backend"] == "both" else [(obj["algo"], obj["backend"])]
        res = eng_core.generate([cg], lambda _: variants, wd)
        mods = [(m, r["rs"], [(st, core.nt_name(cg, st), core.parse_args(cg)) for st in cg["starts"]])
                for m, r in res.items() if r["status"] == "ok"]
        binp, bad = eng_core.build_runner_isolating(mods, os.path.join(wd, "gen"), "runner-replay")
        reqs = []
        for i, (m, _, _) in enumerate(mods):
            reqs.append({"rid": i + 1, "m": m, "start": obj["start"],
                         "input": obj.get("raw_input") or [core.tok_kind(cg, t) for t in obj["input"]],
                         "err_at": obj.get("err_at")})
        ocs = eng_core.run_requests(binp, reqs, wd)
        found = 0
        for i, (m, _, _) in enumerate(mods):
            _, algo, backend = m.split("_")
            print("spec:", json.dumps(want[0]["res"]), "events", want[0]["events"])
            print("real (%s/%s):" % (algo, backend), json.dumps(ocs[i + 1]))
            for d in eng_core.compare(want[0], ocs[i + 1], algo, backend, False):
                print("REPRODUCED:", d)
                found += 1
        if len(mods) == 2 and not eng_core.same_result(ocs[1], ocs[2]):
            print("REPRODUCED: backends differ")
            found += 1
        for m, e in bad:
            print("REPRODUCED: does not compile", m, e[-500:])
            found += 1
        return 1 if found else 0
    finally:
        rmtree(wd)


def _mk(prop):
    return lambda tier, seed: check_prop(prop, tier, seed)


def selftest_binding():
    """corrupt one recorded driver event / drop one / corrupt one expected value: each must be rejected"""
    import copy
    cargo_build_or_die(["lpdrv", "runner"])
    rng = random.Random(4242)
    pop = []
    i = 0
    while len(pop) < 6:
        g = gen.random_grammar(rng, i, max_nt=3, max_t=2, max_prods=6, max_rhs=3, shape="layered")
        g["id"] = "st%03d" % i
        i += 1
        pop.append(core.annotate(g, rng))
    dbg = {}
    s = run_batch(pop, "quick", 7, debug=dbg)
    tcases = [t for t in dbg.get("tcases", []) if len(t["trace"]) >= 4]
    if len(tcases) < 3:
        return ("core: trace binding", False, "not enough traces recorded (%d)" % len(tcases))
    a, b, c = copy.deepcopy(tcases[0]), copy.deepcopy(tcases[1]), copy.deepcopy(tcases[2])
    a["id"] += "+field"
    for ev in a["trace"]:
        if ev["e"] in ("shift", "reduce", "eofreduce"):
            ev["depth"] += 1          # one corrupted field
            break
    b["id"] += "+dropped"
    del b["trace"][len(b["trace"]) // 2]    # one event removed
    ok, stuck, _, _ = eng_core.run_trace([a, b, c])
    good = (a["id"] not in ok) and (b["id"] not in ok) and (c["id"] in ok) and a["id"] in stuck and b["id"] in stuck
    # one corrupted expectation of a replay record
    rejected = 0
    for rid, (cid, m, srec, rrec, suffixed, inp) in dbg["meta"].items():
        rec = srec or rrec
        if rec["res"]["kind"] == "ok":
            bad = copy.deepcopy(rec)
            bad["res"]["value"] = ["n", 99999]
            _, algo, backend = m.split("_")
            found = eng_core.compare(bad, dbg["ocs"][rid], algo, backend, False) if srec else \
                eng_core.compare_exact(bad, dbg["ocs"][rid], False)
            rejected += 1 if found else 0
            break
    return ("core: corrupted driver event / dropped event / corrupted expected value are rejected, intact trace accepted",
            good and rejected == 1, "traces=%d stuck=%s" % (len(tcases), sorted(stuck)))


SELFTESTS = [selftest_binding]
REGISTRY = {p: _mk(p) for p in PROPS if p != "C08"}
REGISTRY["C08_parser"] = _mk("C08")
REPLAY = {"core": replay}


ENGINES = [{"name": "core", "path": "tools/eng_core.py, tools/c_core.py, tools/core.py, spec/Sem.tla, spec/CanonLR.tla, "
                                    "harness/crates/runner, harness/crates/lpdrv",
            "serves_properties": ["C01", "C02", "C04", "C05", "C06", "C07", "C08", "C17", "C19"],
            "kind_free_text": "Sem.tla (meaning of actions, bindings, spans, errors over the canonical LR(1) oracle) is explored by "
                              "TLC for every input up to a bound; every behaviour is replayed through the parsers LALRPOP generates "
                              "(compiled by rustc) under each construction algorithm and code generator, and compared"}]

_TEXT = {
    "C01": "Per grammar, TLC exhausts the product of the canonical LR(1) construction with the automaton LALRPOP built (language "
           "equality for inputs of every length at automaton level); end to end, every token sequence up to the bound is run "
           "through the compiled parsers and Ok <=> the spec's canonical parser accepts.",
    "C02": "TLC enumerates every accepted input up to the bound with the value and action order Sem.tla prescribes; the compiled "
           "parsers must return exactly that value (canonical JSON) and run the actions in that order.",
    "C04": "For reduced LR(1) grammars TLC gives, for every rejected input up to the bound, the first token at which the canonical "
           "parser has no action; the compiled parsers must report that token with its span (or EOF with the last end location), "
           "never read past it, never return ExtraToken.",
    "C05": "The expected list of every such error must be a subset of ValidNext of the canonical state reached (equal under "
           "canonical LR(1)), duplicate-free and without the error terminal.",
    "C06": "All location values (@L/@R with their fall-backs, spans of empty nonterminals at start, middle and end of input) are "
           "part of the values TLC predicts and are compared for both back ends.",
    "C07": "Two translations of one automaton: every enumerated input is run through both generated parsers and results compared; "
           "since both are also compared with the specification a disagreement is attributed.",
    "C08": "Every enumerated parse runs under catch_unwind with a pull budget and a watchdog.",
    "C16": "The C16 statements are TLC invariants of LRMachine.tla (one action per arm of the real driver, incl. recovery) over "
           "the exported tables; all inputs up to the bound; each behaviour replayed into the real compiled parser and compared "
           "exactly, so the model is bound to the code.",
    "C17": "TLC enumerates an injected stream error at every position and failing fallible actions; result, action log and pull "
           "count must match exactly.",
    "C19": "Oracle for compilation is rustc: every generated module of the core and macro batches must compile against "
           "lalrpop-util; the types LALRPOP inferred for the nonterminals are compared with Types.tla (documented inference "
           "rules evaluated by TLC).",
}


def _entry(p):
    return {
        "property_id": p, "quick_cmd": "./check %s --tier quick" % p, "thorough_cmd": "./check %s --tier thorough" % p,
        "evidence_file": "evidence/%s.json" % p, "replay_cmd_template": "./check %s --replay {path}" % p, "engine": "core",
        "level_claimed": {"category": LEVEL[p], "text": _TEXT[p], "design_ref": "DESIGN.md 4.5, 5/%s" % p},
        "level_note": "Bounded: grammars of <= ~9 productions, inputs up to 3-8 tokens (by alphabet size). Trusted: TLC, rustc, the "
                      "harness runtime rt.rs, the renderer core.py. Expected behaviour comes only from Sem.tla/CanonLR.tla.",
        "technique": "TLA+ specification of the source-language semantics over a canonical LR(1) oracle, behaviours enumerated by "
                     "TLC and replayed through the generated parsers",
    }


MANIFEST = [_entry(p) for p in PROPS if p != "C08"]
