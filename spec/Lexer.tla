------------------------------- MODULE Lexer -------------------------------
(***************************************************************************)
(* The built-in lexer of a LALRPOP-generated parser as a state machine     *)
(* (machine M3 of DESIGN.md), written from the documentation:              *)
(*                                                                         *)
(*   "At runtime, it will walk over the string and, at each point, find    *)
(*    the longest match from the literals and regular expressions in your  *)
(*    grammar and produces one of those"; "if there are two matches of     *)
(*    equal length, it prefers the fixed string"; match rungs "with the    *)
(*    higher precedence items coming first"; `_` adds the other terminals  *)
(*    "into that final level"; `=> { }` patterns are skipped; "the default *)
(*    whitespace skipping is disabled if an ignore pattern is specified".  *)
(*                                                                         *)
(* Regexes, derivatives and the precedence assignment Pats(L) are in       *)
(* Regex.tla.  The machine runs definition Defs[c] over the input w (a     *)
(* sequence of character classes); offsets of tokens are BYTE offsets in   *)
(* the UTF-8 text made of the class representatives (bl = byte lengths).   *)
(*                                                                         *)
(* ZeroLenIsError selects what happens when the longest match at a         *)
(* position is the EMPTY string:                                            *)
(*   TRUE   the repaired behaviour: InvalidToken at that position,         *)
(*          whatever the pattern (status "zero")                            *)
(*   FALSE  the behaviour of lalrpop-util/src/lexer.rs as it stands: only  *)
(*          a SKIP pattern is turned into InvalidToken; a terminal is      *)
(*          yielded as an empty token and the position does not move.      *)
(*          The machine is deterministic, so the same empty token would be *)
(*          yielded again for ever; this is recorded as status "loop".     *)
(* LexProgress (part of C08) holds for TRUE and is violated for FALSE as   *)
(* soon as a definition has a non-skip terminal matching the empty string. *)
(***************************************************************************)
EXTENDS Regex, Json, IOUtils

CONSTANT ZeroLenIsError

(* the lexer definitions of a run (see Regex.tla), read from the JSON file  *)
(* named by the environment variable LEX_CASES.  (A plain definition, not a *)
(* CONSTANT substituted in the .cfg: TLC evaluates it once; a substituted   *)
(* constant would re-read the file at every use.)                            *)
Defs == JsonDeserialize(IOEnv.LEX_CASES)

VARIABLES c,       \* index of the definition
          w,       \* the input, a sequence of character classes
          pos,     \* number of characters consumed
          out,     \* tokens yielded so far: [name, lo, hi]
          status   \* "run" | "done" | "invalid" | "zero" | "loop" | "tie"
vars == <<c, w, pos, out, status>>

NC == Len(Defs)
PatsOf == [k \in 1..NC |-> Pats(Defs[k])]

RECURSIVE ByteLen(_, _, _)
ByteLen(bl, ww, n) == IF n = 0 THEN 0 ELSE ByteLen(bl, ww, n - 1) + bl[ww[n]]
BytePos(n) == ByteLen(Defs[c].bl, w, n)

(* Longest match at position p: run all patterns in parallel by            *)
(* derivatives; remember the last length at which some pattern accepts.    *)
(* Result [len, who]: len = -1 if no pattern matches any prefix (not even  *)
(* the empty one); who = the patterns matching the prefix of length len.   *)
RECURSIVE Scan(_, _, _, _, _)
Scan(ds, ww, p, i, best) ==
  LET who == {q \in DOMAIN ds : Nullable(ds[q])}
      nb  == IF who # {} THEN [len |-> i, who |-> who] ELSE best
  IN IF p + i >= Len(ww) \/ \A q \in DOMAIN ds : ds[q].k = "null" THEN nb
     ELSE Scan(TLCEval([q \in DOMAIN ds |-> Deriv(ds[q], ww[p + i + 1])]), ww, p, i + 1, nb)

Longest(P, ww, p) == Scan(TLCEval([q \in DOMAIN P |-> P[q].re]), ww, p, 0, [len |-> -1, who |-> {}])

Init == /\ c \in 1..NC
        /\ w \in Strings(Defs[c].K, Defs[c].N)
        /\ pos = 0
        /\ out = <<>>
        /\ status = "run"

Step ==
  /\ status = "run"
  /\ UNCHANGED <<c, w>>
  /\ IF pos = Len(w)
     THEN status' = "done" /\ UNCHANGED <<pos, out>>
     ELSE LET P == PatsOf[c]
              m == Longest(P, w, pos)
          IN IF m.len < 0
             THEN status' = "invalid" /\ UNCHANGED <<pos, out>>       \* InvalidToken(pos)
             ELSE IF ~UniqueBest(P, m.who)
             THEN status' = "tie" /\ UNCHANGED <<pos, out>>           \* excluded by C11, see NoTie
             ELSE LET q == Winner(P, m.who) IN
                  IF m.len = 0
                  THEN IF ZeroLenIsError \/ P[q].skip
                       THEN status' = "zero" /\ UNCHANGED <<pos, out>>  \* InvalidToken(pos)
                       ELSE /\ out' = Append(out, [name |-> P[q].name, lo |-> BytePos(pos), hi |-> BytePos(pos)])
                            /\ pos' = pos
                            /\ status' = "loop"
                  ELSE /\ pos' = pos + m.len
                       /\ status' = "run"
                       /\ out' = IF P[q].skip THEN out
                                 ELSE Append(out, [name |-> P[q].name, lo |-> BytePos(pos),
                                                   hi |-> BytePos(pos + m.len)])

Next == Step
Spec == Init /\ [][Next]_vars
FairSpec == Spec /\ WF_vars(Next)

(* ------------------------------ properties ------------------------------ *)
(* C08 (lexer half): every yielded token advances the position *)
LexProgress == [][Len(out') > Len(out) => pos' > pos]_vars
(* every run ends with a verdict; a run stuck in "loop" (the empty token that
   would be yielded for ever) never does *)
Terminates  == <>(status \in {"done", "invalid", "zero"})

TypeOK == /\ pos \in 0..Len(w)
          /\ status \in {"run", "done", "invalid", "zero", "loop", "tie"}
          /\ status = "done" => pos = Len(w)

(* tokens lie inside the text, in order, and do not overlap *)
TokensOrdered == \A i \in DOMAIN out :
                    /\ 0 <= out[i].lo /\ out[i].lo <= out[i].hi /\ out[i].hi <= BytePos(Len(w))
                    /\ i > 1 => out[i - 1].hi <= out[i].lo
NoEmptyToken  == ZeroLenIsError => \A i \in DOMAIN out : out[i].lo < out[i].hi

(* For a definition none of whose equal-precedence pairs overlap (decided   *)
(* exactly by MCOverlap, C11) the highest precedence among the patterns     *)
(* matching the longest length is always held by ONE pattern; a run ending  *)
(* in "tie" means MCOverlap and this machine disagree (specification bug).  *)
NoTie == status # "tie"
=============================================================================
