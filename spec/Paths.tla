------------------------------- MODULE Paths -------------------------------
(***************************************************************************)
(* Where LALRPOP writes its output (property C23), from the API            *)
(* documentation and the statement of the property:                        *)
(*                                                                         *)
(*   process_file(p)            beside p when no output directory is set,  *)
(*                              directly in out_dir otherwise              *)
(*   process_dir / process /    every `.lalrpop` file below in_dir         *)
(*   process_root / ...         (recursively, following symbolic links,    *)
(*                              skipping dangling ones) goes to            *)
(*        out_dir / (its directory relative to in_dir, minus one leading   *)
(*                   `src` component) / stem.rs                            *)
(*   a name with white space is rejected, other extensions are ignored,    *)
(*   the rerun directives name exactly the processed files.                *)
(*                                                                         *)
(* A tree is a set of entries below the directory `t`; the output          *)
(* directory (when one is used) is `o`; link targets live in `store`.      *)
(* Paths are sequences of components relative to the root of the case.     *)
(* Everything here is constant level: TLC enumerates Cases (as the initial *)
(* states of a behaviourless machine) and prints the expectation of each.  *)
(***************************************************************************)
EXTENDS Naturals, Sequences, FiniteSets, TLC, Json

CONSTANTS Depth,      \* nesting of directories in single-entry trees
          PairDepth   \* nesting of directories in two-entry trees

Comps == {"src", "a", "b"}

RECURSIVE DirsOf(_, _)
DirsOf(C, d) == IF d = 0 THEN {<<>>}
                ELSE LET P == DirsOf(C, d - 1) IN
                     P \cup {Append(p, c) : p \in {q \in P : Len(q) = d - 1}, c \in C}

(* file names: stem "." ext; ws says that the name contains white space *)
X  == [stem |-> "x",   ext |-> "lalrpop", ws |-> FALSE]
YZ == [stem |-> "y.z", ext |-> "lalrpop", ws |-> FALSE]
PQ == [stem |-> "p q", ext |-> "lalrpop", ws |-> TRUE]
NT == [stem |-> "n",   ext |-> "txt",     ws |-> FALSE]
Names == {X, YZ, PQ, NT}
FName(n) == n.stem \o "." \o n.ext

(* kinds of entries:
     file      a regular file dir/name
     flink     dir/name is a symbolic link to a regular file in `store`
     dangling  dir/name is a symbolic link to nothing
     dlink     dir/lnk is a symbolic link to a directory of `store` that holds `name` *)
Kinds == {"file", "flink", "dangling", "dlink"}
Entry(d, n, k) == [dir |-> d, name |-> n, kind |-> k]

(* the directory in which a walk (or the user) sees the file of an entry *)
SeenDir(e) == IF e.kind = "dlink" THEN Append(e.dir, "lnk") ELSE e.dir
SeenAt(e)  == Append(SeenDir(e), FName(e.name))
IsFile(e)  == e.kind # "dangling"

IsPrefix(p, q) == Len(p) <= Len(q) /\ SubSeq(q, 1, Len(p)) = p
Rel(p, base) == SubSeq(p, Len(base) + 1, Len(p))
StripSrc(p) == IF Len(p) > 0 /\ p[1] = "src" THEN Tail(p) ELSE p
RsName(n) == n.stem \o ".rs"

(* the grammars a recursive walk from `root` discovers *)
Found(T, root) == {e \in T : IsPrefix(root, e.dir) /\ IsFile(e) /\ e.name.ext = "lalrpop"}

(* ------------------------------ configurations ------------------------------ *)
(* directory calls: api, the input directory `in` (below t) and how it is
   written (style), where the output directory comes from (outsel) *)
Roots == {<<>>, <<"src">>, <<"a">>}
DirCfg(api, in, style, outsel) == [type |-> "dir", api |-> api, in |-> in, style |-> style, outsel |-> outsel]
DirCfgs ==
    {DirCfg("process_dir", r, s, o) : r \in Roots, s \in {"rel", "dot", "abs", "slash"}, o \in {"env", "set"}}
    \cup {DirCfg("set_in_dir+process", r, s, o) : r \in Roots, s \in {"rel", "abs"}, o \in {"env", "set"}}
    \cup {DirCfg("cargo_conventions+process", <<"src">>, "rel", "env")}
    \cup {DirCfg("process", <<>>, "rel", o) : o \in {"env", "set"}}
    \cup {DirCfg("in_source+process", <<>>, "rel", "intree")}
    \cup {DirCfg("process_current_dir", <<>>, "abs", o) : o \in {"env", "set"}}
    \cup {DirCfg("process_root", <<>>, "abs", "env"), DirCfg("process_src", <<"src">>, "dot", "env")}
    \cup {DirCfg("set_in_dir(a)+process_dir(src)", <<"src">>, "rel", "set")}      \* documented misuse

(* file calls on the file of one entry *)
FileCfg(api, style, outsel) == [type |-> "file", api |-> api, in |-> <<>>, style |-> style, outsel |-> outsel]
FileCfgs ==
    {FileCfg("process_file", s, o) : s \in {"rel", "dot", "abs", "bare"}, o \in {"none", "set"}}
    \cup {FileCfg("cli", s, o) : s \in {"rel", "abs"}, o \in {"none", "set"}}
    \cup {FileCfg("set_in_dir+process_file", "rel", "set")}                        \* documented misuse

Misuse(c) == c.api \in {"set_in_dir(a)+process_dir(src)", "set_in_dir+process_file"}

(* ------------------------------ expectation ------------------------------ *)
OutBase(c) == IF c.outsel = "intree" THEN <<"t">> ELSE <<"o">>

(* directory calls *)
DirOutput(e, c) == OutBase(c) \o StripSrc(Rel(SeenDir(e), c.in)) \o <<RsName(e.name)>>
(* file calls *)
FileOutput(e, c) == IF c.outsel = "none" THEN <<"t">> \o SeenDir(e) \o <<RsName(e.name)>>
                                         ELSE <<"o", RsName(e.name)>>

Pair(e, o) == [input |-> <<"t">> \o SeenAt(e), output |-> o]

(* result: "ok" | "err";  may: the (input, output) pairs that may exist afterwards;
   must: those that have to (a batch with a rejected name may stop anywhere);
   every `.rs` file present afterwards is the output of a pair in `may`, no rejected
   input has an output, and the directives name the inputs of the produced pairs *)
Expect(T, c, target) ==
    IF Misuse(c) THEN [result |-> "err", may |-> {}, must |-> {}, rejected |-> {}]
    ELSE IF c.type = "dir" THEN
        LET F == Found(T, c.in)
            bad == {e \in F : e.name.ws}
            may == {Pair(e, DirOutput(e, c)) : e \in F \ bad}
        IN [result |-> IF bad = {} THEN "ok" ELSE "err", may |-> may,
            must |-> IF bad = {} THEN may ELSE {},
            rejected |-> {<<"t">> \o SeenAt(e) : e \in bad}]
    ELSE
        IF target.name.ws
          THEN [result |-> "err", may |-> {}, must |-> {}, rejected |-> {<<"t">> \o SeenAt(target)}]
          ELSE LET p == {Pair(target, FileOutput(target, c))} IN
               [result |-> "ok", may |-> p, must |-> p, rejected |-> {}]

(* ------------------------------ the case space ------------------------------ *)
Singles == {{Entry(d, n, k)} : d \in DirsOf(Comps, Depth), n \in Names, k \in Kinds}

PairEntries == {Entry(d, n, k) : d \in DirsOf({"src", "a"}, PairDepth), n \in {X, PQ}, k \in {"file"}}
                 \cup {Entry(d, X, "dlink") : d \in {<<>>, <<"src">>}}
Pairs == {{e1, e2} : e1 \in PairEntries, e2 \in PairEntries} \ {{e} : e \in PairEntries}

(* one tree with a bit of everything (no white space), and the same with a rejected name *)
Big == {Entry(<<>>, X, "file"), Entry(<<"src">>, YZ, "file"), Entry(<<"src", "src">>, X, "flink"),
        Entry(<<"a", "src">>, X, "file"), Entry(<<"a">>, NT, "file"), Entry(<<"b">>, X, "dangling"),
        Entry(<<"b">>, YZ, "dlink"), Entry(<<"src", "a">>, X, "dlink"), Entry(<<"a", "b", "src">>, YZ, "file")}
Bigs == {Big, Big \cup {Entry(<<"a">>, PQ, "file")}}

Trees == Singles \cup Pairs \cup Bigs

(* file calls are made on every entry that is a grammar file *)
Targets(T) == {e \in T : IsFile(e) /\ e.name.ext = "lalrpop"}
NoEntry == Entry(<<>>, NT, "dangling")

Cases == {[tree |-> T, cfg |-> c, target |-> NoEntry] : T \in Trees, c \in DirCfgs}
           \cup UNION {{[tree |-> T, cfg |-> c, target |-> e] : e \in Targets(T), c \in FileCfgs} : T \in Trees}

VARIABLE case
Init == case \in Cases
Next == FALSE /\ case' = case
Spec == Init /\ [][Next]_case

(* always TRUE: prints the expectation of the case *)
PrintCase == PrintT("@@CASE " \o ToJson([tree |-> case.tree, cfg |-> case.cfg, target |-> case.target,
                                           expect |-> Expect(case.tree, case.cfg, case.target)]))

(* sanity of the definitions themselves (checked by TLC on every case) *)
WellFormed ==
    LET x == Expect(case.tree, case.cfg, case.target) IN
    /\ x.must \subseteq x.may
    /\ \A p \in x.may : p.input \notin x.rejected
    /\ (x.result = "ok") => (x.must = x.may /\ x.rejected = {})
=============================================================================
