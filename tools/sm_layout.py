"""Engine `layout` (C26, layout half): spec/Layout.tla + MCLayout.

Base grammars are written as token lists; TLC renders every layout variant
(separators between any two tokens) and states the text every action / `use`
item has to carry; the real LALRPOP is run on each variant and compared with
the run on the base rendering: same hook export (normalised grammar, automata,
lexer), same generated file below the two header lines except for the code
texts, which must be exactly what the specification says."""
import json
import os
import random
import re

import lp
from vlib import ToolError, log, mkscratch, rmtree, run_tlc

# tokens are separated by blanks; {{c ..}} action code, {{u ..}} use path,
# {{p ..}} token pattern / match mapping, {{a ..}} module attribute
BASES = {
    "calc": r'''
{{a #![allow(dead_code)] }} use {{u std::str::FromStr }} ; grammar ;
pub Expr : i32 = { # [ precedence ( level = "1" ) ] Term ,
  # [ precedence ( level = "2" ) ] # [ assoc ( side = "left" ) ] < l : Expr > "*" < r : Expr > => {{c l * r }} ,
  # [ precedence ( level = "3" ) ] # [ assoc ( side = "left" ) ] < l : Expr > "+" < r : Expr > => {{c l + r }} , } ;
Term : i32 = { Num , "(" < Expr > ")" , "[" < v : Comma< Expr > > "]" => {{c v.iter().sum() }} , } ;
Num : i32 = r"[0-9]+" => {{c i32::from_str(<>).unwrap() }} ;
Comma< T > : Vec < T > = { < mut v : ( < T > "," ) * > < e : T ? > => {{c match e { None => v , Some ( e ) => { v.push ( e ) ; v } } }} } ;
''',
    "extern": r'''
use {{u crate::{ Tok , Err2 } }} ; grammar < 'a > ( scale : & 'a i32 ) ;
extern { type Location = usize ; type Error = Err2 ;
  enum Tok { "a" => {{p Tok::A }} , "n" => {{p Tok::N ( < i32 > ) }} , "," => {{p Tok::Comma }} , ";" => {{p Tok::Semi }} , } }
pub List : ( Vec < i32 > , & 'a i32 ) = < v : Item * > => {{c ( v , scale ) }} ;
Item : i32 = { "a" => {{c 1 }} , < n : "n" > ";" ? => {{c n * * scale }} ,
  < lo : @L > "," < hi : @R > => {{c ( hi - lo ) as i32 }} } ;
''',
    "match": r'''
use {{u lalrpop_util::ParseError }} ; grammar ;
match { "if" => {{p IF }} , r"[a-z]+" => {{p ID }} , r"\s+" => {{p { } }} , r"//[^\n]*\n" => {{p { } }} } else { r"[0-9]+" , _ }
pub Prog : Vec < String > = < Stmt * > ;
Stmt : String = { IF < ID > ";" => {{c format ! ( "if {}" , <> ) }} ,
  < n : r"[0-9]+" > ";" =>? {{c n.parse :: < u8 > ( ).map ( | x | x.to_string ( ) ).map_err ( | _ | ParseError::User { error : "big" } ) }} ,
  ! ";" => {{c "err".to_string ( ) }} , } ;
''',
    "macros": r'''
grammar ;
pub Top : Vec < u8 > = { < a : Pair< "x" , "y" > > => {{c vec ! [ a.0 , a.1 ] }} , Opt< "z" > => {{c vec ! [ <> ] }} } ;
Pair< A , B > : ( u8 , u8 ) = A B => {{c ( 1 , 2 ) }} ;
# [ inline ] Opt< T > : u8 = { T => {{c 3 }} , "o" => {{c 4 }} } ;
Cond< E > : u8 = { "p" if E == "yes" => {{c 5 }} , "q" if E != "yes" => {{c 6 }} , "r" if E ~~ "^y" => {{c 7 }} } ;
pub Use : u8 = Cond< "yes" > ;
''',
    "attrs": r'''
{{a #![allow(unused)] }} {{a #![doc = "p ] q"] }} use {{u std::fmt::Debug }} ; use {{u std::collections::{ HashMap , HashSet } }} ;
grammar < F > ( f : & F ) where F : Fn ( & str ) -> i32 ;
pub S : i32 = < a : Word > < b : Word > => {{c f ( a ) + f ( b ) }} ;
Word : & 'input str = r"[a-z]+" ;
''',
}

_TOK = re.compile(r"\{\{([cupa]) (.*?) \}\}|(\S+)", re.S)
_DELIM = set("()[]{},;")


def parse_base(name, src):
    toks = []
    n = 0
    for m in _TOK.finditer(src):
        if m.group(1):
            k = {"c": "code", "u": "ucode", "p": "pcode", "a": "attr"}[m.group(1)]
            t = m.group(2)
            if k == "code":
                n += 1
                t = "%s /*@%d*/" % (t, n)  # a marker that identifies the action in the generated file
        else:
            t = m.group(3)
            if t in _DELIM:
                k = "delim"
            elif t.startswith('"') or t.startswith('r"') or t.startswith("r#"):
                k = "str"
            elif re.match(r"[A-Za-z_'@0-9]", t):
                k = "word"
            else:
                k = "punct"
        toks.append({"t": t, "k": k})
    return {"id": name, "toks": toks}


def bases():
    return [parse_base(n, s) for n, s in sorted(BASES.items())]


def tlc_variants(bs, vecs, pairs, timeout=3000):
    wd = mkscratch("layout-tlc")
    try:
        bf = os.path.join(wd, "bases.json")
        vf = os.path.join(wd, "vecs.json")
        json.dump(bs, open(bf, "w"))
        json.dump(vecs, open(vf, "w"))
        cfg = "SPECIFICATION Spec\nCHECK_DEADLOCK FALSE\nCONSTANT Pairs = %s\nINVARIANT AllLegal\nINVARIANT Report\n" % (
            "TRUE" if pairs else "FALSE")
        r = run_tlc("MCLayout", cfg, env={"LAYOUT_BASES": bf, "LAYOUT_VECS": vf}, workers=8, timeout=timeout, workdir=wd)
    finally:
        rmtree(wd)
    if r.violations:
        raise ToolError("Layout.tla: invariant %s violated (spec bug)" % r.violations[0]["name"])
    vs = [o for t, o in r.prints if t == "LAYOUT"]
    if not vs:
        raise ToolError("MCLayout printed nothing")
    return r, vs


_HDR = re.compile(r"\n(?:#\[allow\([^\]]*\)\]\n)+fn __action(\d+)<\n(?:[^\n]*\n)*?\) -> ([^\n]*)\n"
                  r"(?:where\n(?:    [^\n]*\n)+)?\{\n")
_TAIL = "\n#[allow(clippy::type_complexity, dead_code)]\npub trait __ToTriple"
_MARK = re.compile(r"/\*@(\d+)\*/")


def split_output(rs, use_section):
    """-> (skeleton, [action bodies in order]); the skeleton is the generated file
    below its two header lines with action bodies and the use section blanked"""
    parts = rs.split("\n", 2)
    body = "\n" + (parts[2] if len(parts) > 2 else "")
    if use_section:
        body = body.replace(use_section, "@@USES@@\n")
    ms = list(_HDR.finditer(body))
    out = []
    bodies = []
    pos = 0
    for i, m in enumerate(ms):
        if i + 1 < len(ms):
            end = ms[i + 1].start()
        else:
            end = body.find(_TAIL, m.end())
            if end < 0:
                end = body.find("\n#[allow(", m.end())
            if end < 0:
                raise ToolError("cannot delimit the last action fn")
        region = body[m.end():end]
        if not region.endswith("}\n"):
            raise ToolError("unexpected action fn shape %r" % region[-60:])
        bodies.append(region[:-2])
        out.append(body[pos:m.end()])
        out.append("@@A@@")
        pos = end - 2
    out.append(body[pos:])
    return "".join(out), bodies


def run_variants(vs, wd):
    jobs = []
    for i, v in enumerate(vs):
        d = os.path.join(wd, "v%d" % (i // 400))
        os.makedirs(d, exist_ok=True)
        p = os.path.join(d, "v%d.lalrpop" % i)
        with open(p, "w", newline="") as f:
            f.write(v["text"])
        jobs.append({"id": "v%d" % i, "file": p, "emit_whitespace": False, "timeout_s": 60})
    res = lp.run_jobs(jobs, wd)
    out = []
    for i, v in enumerate(vs):
        r = res["v%d" % i]
        rs_path = os.path.join(wd, "v%d" % (i // 400), "v%d.rs" % i)
        rs = None
        if r["status"] == "ok":
            if not os.path.exists(rs_path):
                raise ToolError("ok without output " + rs_path)
            rs = open(rs_path, newline="").read()
            os.remove(rs_path)
        out.append((r, rs))
    return out


def use_section(v):
    return "".join("use %s;\n" % c["text"] for c in v["codes"] if c["k"] == "ucode")


def compare(base_v, base_run, v, run, btoks):
    """-> None or (kind, detail) describing how the variant differs from the base"""
    r, rs = run
    br, brs = base_run
    if r["status"] != "ok":
        return (r["status"] if r["status"] != "err" else "rejected", diag(r))
    ex, bex = dict(r["export"]), dict(br["export"])
    if ex != bex:
        ks = [k for k in sorted(set(ex) | set(bex)) if ex.get(k) != bex.get(k)]
        return ("export_differs", "hook export differs in %s" % ",".join(ks))
    skel, bodies = split_output(rs, use_section(v))
    bskel, bbodies = split_output(brs, use_section(base_v))
    if use_section(v) and "@@USES@@" not in skel:
        return ("use_text", "the use items were not emitted as `%s`" % use_section(v).replace("\n", "\\n"))
    if skel != bskel:
        k = next((i for i, (a, b) in enumerate(zip(skel, bskel)) if a != b), min(len(skel), len(bskel)))
        return ("output_differs", "generated file differs outside action code near %r vs %r" % (skel[max(0, k - 40):k + 40], bskel[max(0, k - 40):k + 40]))
    if len(bodies) != len(bbodies):
        return ("output_differs", "number of action fns differs")
    # expected body: base body with what the separators put in front of / behind it
    codes = [c for c in v["codes"] if c["k"] == "code"]
    bcodes = [c for c in base_v["codes"] if c["k"] == "code"]
    lead_trail = {}
    for c, bc in zip(codes, bcodes):
        m = _MARK.search(bc["text"])
        lead_trail[m.group(1)] = (c["lead"], c["trail"])
    for a, (got, bgot) in enumerate(zip(bodies, bbodies)):
        m = _MARK.search(bgot)
        if m:
            lead, trail = lead_trail[m.group(1)]
            want = lead + bgot[:-1] + trail + "\n" if bgot.endswith("\n") else lead + bgot + trail
        else:
            want = bgot
        if got != want:
            return ("action_text", "action %d: expected body %r, LALRPOP emitted %r" % (a, want, got))
    return None


def diag(r):
    txt = (r.get("stdout", "") + "\n" + r.get("stderr", "") + "\n" + r.get("message", "")).strip()
    m = re.search(r"error: ([^\n]*)", txt)
    return (m.group(1) if m else r.get("message", "") or txt[:160]).strip()


def random_vecs(bs, n, seed, nseps=11):
    rng = random.Random(seed * 1000003 + 17)
    out = []
    for k in range(n):
        gi = k % len(bs)
        ln = len(bs[gi]["toks"]) + 1
        dens = rng.choice([0.1, 0.3, 0.7, 1.0])
        out.append({"g": gi + 1, "gaps": [rng.randint(1, nseps) if rng.random() < dens else 2 for _ in range(ln)]})
    return out


def violation_key(bs_by_id, v, kind):
    """structural facts: which separator, next to which token classes"""
    toks = bs_by_id[v["g"]]["toks"]
    changed = [j for j, k in enumerate(v["gaps"]) if k != 2]
    facts = "kind=layout how=%s variant=%s" % (kind, v["tag"])
    if len(changed) == 1:
        j = changed[0]
        before = toks[j - 1]["k"] if j >= 1 else "start"
        after = toks[j]["k"] if j < len(toks) else "end"
        facts += " sep=%d before=%s after=%s" % (v["gaps"][j], before, after)
    return facts


# --------------------------------------------------------------------------
# the layout half of the C26 check
# --------------------------------------------------------------------------
def repaired(gaps, toks):
    """the same separator vector with a blank after every module attribute"""
    g = list(gaps)
    for j, t in enumerate(toks):
        if t["k"] == "attr":
            g[j + 1] = 2
    return g


def layout_half(rep, tier, seed, record=None):
    bs = bases()
    byid = {b["id"]: b for b in bs}
    nvec = 40 if tier == "quick" else 400
    vecs = random_vecs(bs, nvec, seed)
    # repaired twins (used only to attribute a failure, see blame below)
    twins = []
    for v in vecs:
        twins.append({"g": v["g"], "gaps": repaired(v["gaps"], bs[v["g"] - 1]["toks"])})
    for gi, b in enumerate(bs):
        for k in range(1, 12):
            twins.append({"g": gi + 1, "gaps": repaired([k] * (len(b["toks"]) + 1), b["toks"])})
    r, vs = tlc_variants(bs, vecs + twins, pairs=(tier != "quick"))
    seps = None
    for t, o in r.prints:
        if t == "SEPS":
            seps = o
    base = {v["g"]: v for v in vs if v["tag"] == "base"}
    wd = mkscratch("layout")
    try:
        runs = run_variants(vs, wd)
    finally:
        rmtree(wd)
    brun = {v["g"]: run for v, run in zip(vs, runs) if v["tag"] == "base"}
    for g, (br, brs) in brun.items():
        if br["status"] != "ok":
            raise ToolError("base grammar %s is not accepted by LALRPOP: %s" % (g, diag(br)))
    results = {}
    for v, run in zip(vs, runs):
        results[(v["g"], tuple(v["gaps"]))] = compare(base[v["g"]], brun[v["g"]], v, run, None)
    nviol = 0
    for v, run in zip(vs, runs):
        d = results[(v["g"], tuple(v["gaps"]))]
        rep.case({"layout": v["g"], "gaps": v["gaps"]}, nontrivial=v["tag"] != "base")
        if d is None:
            continue
        toks = byid[v["g"]]["toks"]
        key = violation_key(byid, v, d[0])
        tight_after_attr = [j for j, t in enumerate(toks) if t["k"] == "attr" and
                            (seps[v["gaps"][j + 1] - 1]["t"] == "" or not seps[v["gaps"][j + 1] - 1]["t"][0].isspace())]
        if tight_after_attr:
            tw = results.get((v["g"], tuple(repaired(v["gaps"], toks))), "missing")
            if tw is None:
                key += " blame=attr_followed_by_nonblank"
        nviol += 1
        rep.violation(key, "layout variant of base grammar `%s` (%s): %s: %s" % (v["g"], v["tag"], d[0], d[1][:300]),
                      {"engine": "layout", "variant": v, "base": base[v["g"]]})
    k = 0
    for v in vs:
        if v["tag"] in ("single", "vec") and k < 2 and any(c.get("lead") or c.get("trail") for c in v["codes"]):
            rep.sample({"layout_variant_of": v["g"], "tag": v["tag"], "text": v["text"][:400],
                        "expected_code_texts": [c["text"] for c in v["codes"] if c["k"] in ("code", "ucode")][:3]})
            k += 1
    return {"states": r.distinct, "transitions": r.generated, "variants": len(vs), "violating": nviol,
            "tlc_wall_s": round(r.wall, 1)}


def replay(obj):
    from vlib import cargo_build_or_die
    cargo_build_or_die(["lpdrv"])
    wd = mkscratch("layout")
    try:
        runs = run_variants([obj["base"], obj["variant"]], wd)
    finally:
        rmtree(wd)
    d = compare(obj["base"], runs[0], obj["variant"], runs[1], None)
    if d:
        print("REPRODUCED:", d[0], d[1][:400])
        return 1
    print("not reproduced")
    return 0


def selftest():
    """binding: a corrupted expected code text must make the comparison fail"""
    from vlib import cargo_build_or_die
    cargo_build_or_die(["lpdrv"])
    bs = [b for b in bases() if b["id"] == "extern"]
    vec = {"g": 1, "gaps": [2] * (len(bs[0]["toks"]) + 1)}
    ci = next(i for i, t in enumerate(bs[0]["toks"]) if t["k"] == "code")
    vec["gaps"][ci] = 7  # a block comment in front of the first action code
    r, vs = tlc_variants(bs, [vec], pairs=False)
    base = next(v for v in vs if v["tag"] == "base")
    var = next(v for v in vs if v["tag"] == "vec")
    bad = json.loads(json.dumps(var))
    for c in bad["codes"]:
        if c.get("lead"):
            c["lead"] = ""  # as if the comment did not belong to the code
    wd = mkscratch("layout")
    try:
        runs = run_variants([base, var], wd)
    finally:
        rmtree(wd)
    good = compare(base, runs[0], var, runs[1], None)
    corrupted = compare(base, runs[0], bad, runs[1], None)
    return ("layout: a corrupted expected action text is rejected, the intact one accepted",
            good is None and corrupted is not None and corrupted[0] == "action_text", "%s / %s" % (good, corrupted and corrupted[0]))
