fn main(){}
