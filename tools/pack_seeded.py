#!/usr/bin/env python3
"""Copy a confirmed seeded change into /verif/seeded/<id>/.
  tools/pack_seeded.py <Cxx> <mk> <caught_by comma list> [note]
reads /tmp/mut-<Cxx>-out/<mk>/{patch.diff,meta.json,README.md,demo...} and the CONFIRM lines of
harness/target/scratch/confirm.log; writes patch.diff, the demonstration and meta.json."""
import json, os, re, shutil, sys
ROOT = os.path.dirname(os.path.dirname(os.path.abspath(__file__)))
P, K, caught = sys.argv[1], sys.argv[2], sys.argv[3]
note = sys.argv[4] if len(sys.argv) > 4 else ""
src = "/tmp/mut-%s-out/%s" % (P, K)
dst = os.path.join(ROOT, "seeded", "%s-%s" % (P, K))
shutil.rmtree(dst, ignore_errors=True)
os.makedirs(dst)
shutil.copy(os.path.join(src, "patch.diff"), dst)
for name in os.listdir(src):
    p = os.path.join(src, name)
    if name in ("patch.diff", "meta.json", "tmp", "work") or name.startswith("confirm") or name.endswith(".log") or name == "target":
        continue
    if os.path.isdir(p):
        shutil.copytree(p, os.path.join(dst, name), ignore=shutil.ignore_patterns("target", "*.rs.bk", "Cargo.lock.orig", "work", "tmp"))
    elif os.path.getsize(p) < 200000:
        shutil.copy(p, dst)
# drop generated parsers and build output from the demonstration
for dp, dn, fn in os.walk(dst):
    for d in list(dn):
        if d == "target":
            shutil.rmtree(os.path.join(dp, d)); dn.remove(d)
meta = {}
try:
    meta = json.load(open(os.path.join(src, "meta.json")))
except Exception:
    pass
conf = {}
for name in ("confirm.log", "confirm2.log", "confirm4.log", "confirm5.log", "confirm6.log"):     # later logs (manual re-runs) override
    log = os.path.join(ROOT, "harness/target/scratch", name)
    if os.path.exists(log):
        for ln in open(log):
            m = re.match(r"CONFIRM4? %s/%s (.*)" % (P, K), ln)
            if m:
                for kv in m.group(1).split():
                    if "=" in kv:
                        k, v = kv.split("=", 1); conf[k] = v
if "agent_full_suite_ok" not in conf:
    for name in ("test-run.log", "test.log", "test_output.txt", "test_suite.log", "test-suite.log"):
        f = os.path.join(src, name)
        if os.path.exists(f):
            t = open(f, errors="replace").read()
            conf["agent_full_suite_ok"] = str(len(re.findall(r"^test result: ok", t, re.M)))
            conf["agent_full_suite_failed"] = str(len(re.findall(r"^test result: FAILED", t, re.M)))
            break
out = {"property": P, "id": "%s-%s" % (P, K), "summary": meta.get("summary", ""), "needs": meta.get("needs", ""),
       "files": meta.get("files", []), "author": "independent sub-agent given only the property record and a scratch worktree",
       "confirmed_by_coordinator": {
           "how": "in the scratch worktree /tmp/mut-%s (tools/confirm_seeded.sh): demonstration on the clean tree, git apply "
                  "patch.diff, `cargo test -p lalrpop -p lalrpop-util --offline`, demonstration with the change, git checkout. "
                  "The full workspace suite (about an hour of CPU per change: lalrpop-test is regenerated and recompiled) was "
                  "run once per change by the authoring agent; its log is counted below." % P,
           "unit_tests_pass_with_change": conf.get("unit_tests_exit") == "0" and conf.get("failed_binaries") == "0",
           "unit_test_binaries_ok": conf.get("ok_binaries"),
           "full_suite_by_author_ok_binaries": conf.get("agent_full_suite_ok"),
           "full_suite_by_author_failed_binaries": conf.get("agent_full_suite_failed"),
           "demo_exit_clean": conf.get("demo_clean_exit"), "demo_exit_with_change": conf.get("demo_mutant_exit")},
       "caught_by_checks": [c for c in caught.split(",") if c],
       "evaluated_with": "tools/mutant_eval.py seeded/%s-%s/patch.diff %s (quick tier, seed 1)" % (P, K, " ".join(caught.split(","))),
       "note": note}
json.dump(out, open(os.path.join(dst, "meta.json"), "w"), indent=1)
print("packed", dst, json.dumps(out["confirmed_by_coordinator"]))
