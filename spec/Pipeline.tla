------------------------------ MODULE Pipeline ------------------------------
(***************************************************************************)
(* What processing one `.lalrpop` file looks like from outside (C18):      *)
(* stages happen in order, nothing happens after a failing stage, a parser *)
(* is written exactly when every stage succeeded, and the caller gets Ok   *)
(* exactly then -- otherwise Err.  There is no other way to end: a panic,  *)
(* an abort or a hang is not a behaviour of this machine.                  *)
(*                                                                         *)
(*   start --parse--> parsed --normalize--> normalizing --grammar-->       *)
(*   generating --automaton ok*--> generating --result ok (written)--> done*)
(* A failure is visible as the absence of the next stage's event followed  *)
(* by `result err` (not written); an `automaton conflict` is a failure of  *)
(* the generation stage.                                                   *)
(***************************************************************************)
EXTENDS Integers, Sequences, TLC

VARIABLES pc, failed
pvars == <<pc, failed>>

PInit == pc = "start" /\ failed = FALSE

Parse     == pc = "start" /\ pc' = "parsed" /\ UNCHANGED failed
Normalize == pc = "parsed" /\ pc' = "normalizing" /\ UNCHANGED failed
Grammar   == pc = "normalizing" /\ pc' = "generating" /\ UNCHANGED failed      \* normalisation succeeded
Automaton(verdict) == /\ pc = "generating" /\ ~failed
                      /\ pc' = "generating"
                      /\ failed' = (verdict # "ok")
(* the only two ways to finish *)
ResultOk(written)  == pc = "generating" /\ ~failed /\ written /\ pc' = "done" /\ UNCHANGED failed
ResultErr(written) == /\ pc \in {"start", "parsed", "normalizing", "generating"}
                      /\ ~written
                      /\ pc' = "done" /\ UNCHANGED failed
=============================================================================
