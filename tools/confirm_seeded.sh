#!/bin/bash
# usage: confirm_seeded.sh Cxx mk  -> prints CONFIRM lines
# In the scratch worktree /tmp/mut-Cxx: demonstration on the clean tree, apply the change, unit tests of
# lalrpop + lalrpop-util (the full workspace suite costs about an hour of CPU per change because lalrpop-test is
# regenerated and recompiled; the authoring agent ran it once per change and its log is counted here),
# demonstration with the change, undo.
P=$1; K=$2
W=/tmp/mut-$P; O=/tmp/mut-$P-out/$K
export TMPDIR=/tmp/mut-$P-out/tmp; mkdir -p $TMPDIR
cd $W || exit 2
git checkout -q -- .
script=""
for c in $O/run.sh $O/run-demo.sh $O/demo.sh $O/demo/run.sh; do [ -f $c ] && script=$c && break; done
echo "CONFIRM $P/$K script=$script"
if [ -n "$script" ]; then
  (timeout 2400 bash $script > $O/confirm-clean.log 2>&1); echo "CONFIRM $P/$K demo_clean_exit=$?"
fi
git apply $O/patch.diff || { echo "CONFIRM $P/$K patch_failed=1"; exit 1; }
(timeout 3000 cargo test -p lalrpop -p lalrpop-util --offline > $O/confirm-tests.log 2>&1); rc=$?
nok=$(grep -c "^test result: ok" $O/confirm-tests.log); nfail=$(grep -c "^test result: FAILED" $O/confirm-tests.log)
echo "CONFIRM $P/$K unit_tests_exit=$rc ok_binaries=$nok failed_binaries=$nfail"
agentlog=$(ls $O/test*.log /tmp/mut-$P-out/$K-test.log 2>/dev/null | head -1)
if [ -n "$agentlog" ]; then echo "CONFIRM $P/$K agent_full_suite_ok=$(grep -c '^test result: ok' $agentlog) agent_full_suite_failed=$(grep -c '^test result: FAILED' $agentlog)"; fi
if [ -n "$script" ]; then
  (timeout 2400 bash $script > $O/confirm-mutant.log 2>&1); echo "CONFIRM $P/$K demo_mutant_exit=$?"
fi
git checkout -q -- .
