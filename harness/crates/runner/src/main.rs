//! runner: compiled generated parsers, driven over request files.
//! usage: runner <requests.ndjson> <outcomes.ndjson> [start_index]
//! request: {"rid": n, "m": module, "start": nonterminal, "input": [[kind, ...]...], "err_at": j|null, "trace": bool}
//!   input item: terminal kind index (0..7), 8 = a token the grammar does not know
//! outcome: {"rid": n, ...finish(..)} | {"rid": n, "panic": msg} ; a parse exceeding the time budget ends the
//! process with status 3 after writing {"rid": n, "timeout": true}.
#[macro_use]
pub mod rt;
#[allow(clippy::all, unused, non_snake_case)]
pub mod gen {
    include!(concat!(env!("VERIF_GEN_DIR"), "/mods.rs"));
}

use serde_json::{json, Value};
use std::io::{BufRead, Write};
use std::sync::atomic::{AtomicU64, Ordering};
use std::sync::{Arc, Mutex};
use std::time::{Duration, Instant};

static DEADLINE: AtomicU64 = AtomicU64::new(0);
static CUR: AtomicU64 = AtomicU64::new(0);

fn main() {
    let args: Vec<String> = std::env::args().collect();
    if args.len() >= 2 && args[1] == "--list" {
        for m in gen::MODULES {
            println!("{}", m);
        }
        return;
    }
    let reqs = std::io::BufReader::new(std::fs::File::open(&args[1]).expect("requests"));
    let out = Arc::new(Mutex::new(
        std::fs::OpenOptions::new().create(true).append(true).open(&args[2]).expect("outcomes"),
    ));
    let skip: usize = args.get(3).map(|s| s.parse().unwrap()).unwrap_or(0);
    let budget_ms: u64 = std::env::var("VERIF_PARSE_BUDGET_MS").ok().and_then(|s| s.parse().ok()).unwrap_or(5000);
    let t0 = Instant::now();
    {
        let out = out.clone();
        std::thread::spawn(move || loop {
            std::thread::sleep(Duration::from_millis(50));
            let d = DEADLINE.load(Ordering::SeqCst);
            if d != 0 && t0.elapsed().as_millis() as u64 > d {
                let rid = CUR.load(Ordering::SeqCst);
                let mut f = out.lock().unwrap();
                let _ = writeln!(f, "{}", json!({"rid": rid, "timeout": true}));
                let _ = f.flush();
                std::process::exit(3);
            }
        });
    }
    std::panic::set_hook(Box::new(|_| {}));
    for (i, line) in reqs.lines().enumerate() {
        if i < skip {
            continue;
        }
        let line = line.expect("line");
        if line.trim().is_empty() {
            continue;
        }
        let rq: Value = serde_json::from_str(&line).expect("request json");
        let rid = rq["rid"].as_u64().unwrap();
        let m = rq["m"].as_str().unwrap().to_string();
        let start = rq["start"].as_str().unwrap().to_string();
        let err_at = rq["err_at"].as_u64();
        let mut items: Vec<rt::Item> = Vec::new();
        for (k0, kind) in rq["input"].as_array().unwrap().iter().enumerate() {
            let k = k0 + 1;
            if err_at == Some(k as u64) {
                items.push(Err(rt::UErr(900 + k as u32)));
                continue;
            }
            items.push(Ok((10 * k + 3, rt::Tok::new(kind.as_u64().unwrap() as usize, k), 10 * k + 7)));
        }
        if let Some(j) = err_at {
            if j as usize == items.len() + 1 {
                items.push(Err(rt::UErr(900 + j as u32)));
            }
        }
        CUR.store(rid, Ordering::SeqCst);
        DEADLINE.store(t0.elapsed().as_millis() as u64 + budget_ms, Ordering::SeqCst);
        let trace = rq["trace"].as_bool().unwrap_or(false);
        let r = std::panic::catch_unwind(move || {
            rt::reset();
            if trace {
                lalrpop_util::state_machine::verif::start();
            }
            gen::dispatch(&m, &start, rt::Stream::new(items))
        });
        let events = lalrpop_util::state_machine::verif::take();
        DEADLINE.store(0, Ordering::SeqCst);
        let mut o = match r {
            Ok(Some(v)) => v,
            Ok(None) => json!({"nomodule": true}),
            Err(p) => json!({"panic": p.downcast_ref::<String>().cloned()
                .or_else(|| p.downcast_ref::<&str>().map(|s| s.to_string())).unwrap_or_default()}),
        };
        o["rid"] = json!(rid);
        if trace {
            o["trace"] = Value::Array(events.iter().map(|e| serde_json::from_str(e).unwrap_or(json!({"bad": e}))).collect());
        }
        let mut f = out.lock().unwrap();
        writeln!(f, "{}", o).unwrap();
        f.flush().unwrap();
    }
}
