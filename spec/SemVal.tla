------------------------------ MODULE SemVal ------------------------------
(***************************************************************************)
(* Value semantics of one alternative, shared by the canonical evaluator   *)
(* (Sem.tla) and the runtime driver model (LRMachine.tla).  Constant level.*)
(*                                                                         *)
(* Pp   the description of the alternative as written (see Sem.tla):       *)
(*        [tag, form, exact, unit, syms, fail]                             *)
(* kids the values/spans of its right-hand side symbols, in order, each    *)
(*        [v, lo, hi]                                                      *)
(* e    the position of an empty span at the time of the reduction         *)
(***************************************************************************)
EXTENDS Integers, Sequences, FiniteSets

(* token k (1-based position in the input) spans these locations *)
TokLo(k) == 10 * k + 3
TokHi(k) == 10 * k + 7

SpanLo(kids, e) == IF kids = <<>> THEN e ELSE kids[1].lo
SpanHi(kids, e) == IF kids = <<>> THEN e ELSE kids[Len(kids)].hi

SymValue(kids, s, e) ==
  IF s.k = "sym" THEN kids[s.i].v
  ELSE IF s.k = "L"
       THEN (IF s.i < Len(kids) THEN kids[s.i + 1].lo
             ELSE IF kids # <<>> THEN kids[Len(kids)].hi ELSE e)
       ELSE (IF s.i > 0 THEN kids[s.i].hi
             ELSE IF kids # <<>> THEN kids[1].lo ELSE e)

(* indices (into syms) of the symbols whose values are handed to the action *)
Handed(Pp) == LET S == Pp.syms
                  sel == {i \in DOMAIN S : S[i].sel}
              IN IF sel # {} \/ Pp.exact THEN sel ELSE DOMAIN S

RECURSIVE SeqOfSet(_)
SeqOfSet(S) == IF S = {} THEN <<>>
               ELSE LET x == CHOOSE y \in S : \A z \in S : y <= z
                    IN <<x>> \o SeqOfSet(S \ {x})

HandedValues(Pp, kids, e) == LET idx == SeqOfSet(Handed(Pp))
                             IN [j \in DOMAIN idx |-> SymValue(kids, Pp.syms[idx[j]], e)]

(* form "recover": the alternative contains the error terminal `!` at syms
   index Pp.esym; its action receives the ErrorRecovery value together with
   the span of the error symbol, then the other handed values *)
ProdValue(Pp, kids, e) ==
  LET hv == HandedValues(Pp, kids, e) IN
  IF Pp.form = "vec0" THEN <<"v">>                                  \* X*  matching nothing
  ELSE IF Pp.form = "vec1" THEN <<"v", kids[1].v>>                  \* X+  first item
  ELSE IF Pp.form = "vecpush" THEN kids[1].v \o <<kids[2].v>>       \* X+  next item, input order
  ELSE IF Pp.form = "some" THEN <<"s", kids[1].v>>                  \* X?  present
  ELSE IF Pp.form = "noneo" THEN <<"o">>                            \* X?  absent
  ELSE IF Pp.form = "none"
  THEN (IF Pp.unit THEN <<"u">>
        ELSE IF Len(hv) = 1 THEN hv[1]
        ELSE IF Len(hv) = 0 THEN <<"u">> ELSE <<"t">> \o hv)
  ELSE IF Pp.form = "recover"
  THEN LET ek == kids[Pp.syms[Pp.esym].i]
       IN <<"n", Pp.tag, <<"e", [error |-> ek.v.error, dropped |-> ek.v.dropped,
                                 lo |-> ek.lo, hi |-> ek.hi]>> >> \o hv
  ELSE IF Pp.unit THEN <<"u">>          \* user code of a ()-typed nonterminal: run for its effect only
  ELSE <<"n", Pp.tag>> \o hv

Fails(Pp, kids, e) ==
  /\ Pp.form = "fallible" /\ Pp.fail.on
  /\ SymValue(kids, Pp.syms[Pp.fail.s], e) % Pp.fail.m = Pp.fail.r

RunsCode(Pp) == Pp.form \in {"user", "fallible", "recover"}
=============================================================================
