------------------------------ MODULE CanonLR ------------------------------
(***************************************************************************)
(* The canonical LR(1) construction (Knuth 1965; Aho/Sethi/Ullman 4.7),    *)
(* written from the textbook definition and independent of LALRPOP's code. *)
(*                                                                         *)
(* An item is <<p, d, a>>: production index p, dot position d (number of   *)
(* symbols before the dot), one lookahead token a (a terminal or "$").     *)
(* The augmented production is an ordinary production of G, named by       *)
(* `sp` (LALRPOP generates `__S = S` for every pub S), so the initial item *)
(* is <<sp, 0, "$">> and "accept" is the reduction of sp on "$".           *)
(*                                                                         *)
(* `pre` is Pre(G) from Grammar.tla, passed in so that it is computed once *)
(* per grammar.                                                            *)
(***************************************************************************)
EXTENDS Grammar

AfterDot(G, it) == LET r == Rhs(G, it[1]) IN
                   IF it[2] < Len(r) THEN r[it[2] + 1] ELSE "."   \* "." = nothing

Beta(G, it) == LET r == Rhs(G, it[1]) IN SubSeq(r, it[2] + 2, Len(r))

(* lookaheads inherited by the items B -> . gamma added for [A -> alpha . B beta, a] *)
ClosureLooks(G, pre, it) ==
  FirstOfSeq(G, pre.first, pre.null, Beta(G, it))
    \cup (IF SeqNullable(pre.null, Beta(G, it)) THEN {it[3]} ELSE {})

RECURSIVE Closure(_, _, _)
Closure(G, pre, I) ==
  LET new == UNION { IF AfterDot(G, it) \in NtSet(G)
                     THEN {<<p, 0, b>> : p \in ProdsOf(G, AfterDot(G, it)),
                                         b \in ClosureLooks(G, pre, it)}
                     ELSE {} : it \in I }
  IN IF new \subseteq I THEN I ELSE Closure(G, pre, I \cup new)

Goto(G, pre, I, X) ==
  LET K == {<<it[1], it[2] + 1, it[3]>> : it \in {j \in I : AfterDot(G, j) = X}}
  IN IF K = {} THEN {} ELSE Closure(G, pre, K)

InitSet(G, pre, sp) == Closure(G, pre, {<<sp, 0, EOF>>})

Symbols(G) == TSet(G) \cup NtSet(G)
Tokens(G)  == TSet(G) \cup {EOF}

(* ---- LR(0) core, complete items ---- *)
Core(I) == {<<it[1], it[2]>> : it \in I}
Complete(G, I) == {it \in I : it[2] = Len(Rhs(G, it[1]))}

(* ---- parsing actions of a canonical state ---- *)
CanShift(G, I, a)   == \E it \in I : AfterDot(G, it) = a
ReducesOn(G, I, a)  == {it[1] : it \in {j \in Complete(G, I) : j[3] = a}}
(* number of distinct actions on token a; > 1 is a conflict *)
NActions(G, I, a)   == Cardinality(ReducesOn(G, I, a))
                        + (IF a # EOF /\ CanShift(G, I, a) THEN 1 ELSE 0)
ConflictTokens(G, I) == {a \in Tokens(G) : NActions(G, I, a) > 1}
HasConflict(G, I)    == ConflictTokens(G, I) # {}
(* terminals (and "$") on which the state does not announce an error *)
ValidNext(G, I)      == {a \in Tokens(G) : NActions(G, I, a) > 0}

(* ---- the whole canonical collection, as a constant-level frontier walk ---- *)
RECURSIVE Explore(_, _, _, _)
Explore(G, pre, done, frontier) ==
  IF frontier = {} THEN done
  ELSE LET nxt == {Goto(G, pre, I, X) : I \in frontier, X \in Symbols(G)} \ {{}}
           d2  == done \cup frontier
       IN Explore(G, pre, d2, nxt \ d2)
Collection(G, pre, sp) == Explore(G, pre, {}, {InitSet(G, pre, sp)})

IsLR1(G, pre, sp) == \A I \in Collection(G, pre, sp) : ~HasConflict(G, I)

(* ---- LALR(1): merge the canonical states that share an LR(0) core ---- *)
LALRStates(G, pre, sp) ==
  LET C == Collection(G, pre, sp)
  IN {UNION {J \in C : Core(J) = Core(I)} : I \in C}
IsLALR1(G, pre, sp) == \A I \in LALRStates(G, pre, sp) : ~HasConflict(G, I)
=============================================================================
