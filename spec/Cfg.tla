-------------------------------- MODULE Cfg --------------------------------
(***************************************************************************)
(* Conditional compilation (book: "Conditional compilation"; C15).         *)
(*                                                                         *)
(* A predicate is [k |-> "feature", n |-> name] | [k |-> "not", a |-> p]   *)
(* | [k |-> "all", args |-> Seq(p)] | [k |-> "any", args |-> Seq(p)] and   *)
(* evaluates like Rust's cfg: all() of nothing is true, any() of nothing   *)
(* false.  Several #[cfg] attributes on one item are conjoined.            *)
(*                                                                         *)
(* A raw case carries, besides the fields of a Sem.tla case,               *)
(*   feats : Seq(feature name)   the active features                       *)
(*   cfgp  : per production, the attributes of the alternative followed by *)
(*           those of its nonterminal                                      *)
(*   cfgt  : per terminal (same order as G.ts), its conversion's attributes*)
(* The meaning of the grammar under `feats` is the grammar with every      *)
(* alternative / nonterminal / conversion whose predicates do not all hold *)
(* deleted -- nothing else.                                                *)
(***************************************************************************)
EXTENDS Grammar

RECURSIVE CfgHolds(_, _)
CfgHolds(pr, F) ==
  CASE pr.k = "feature" -> pr.n \in F
    [] pr.k = "not"     -> ~CfgHolds(pr.a, F)
    [] pr.k = "all"     -> \A i \in DOMAIN pr.args : CfgHolds(pr.args[i], F)
    [] pr.k = "any"     -> \E i \in DOMAIN pr.args : CfgHolds(pr.args[i], F)

AllHold(preds, F) == \A i \in DOMAIN preds : CfgHolds(preds[i], F)

RECURSIVE SortedSeq(_)
SortedSeq(S) == IF S = {} THEN <<>>
                ELSE LET x == CHOOSE y \in S : \A z \in S : y <= z IN <<x>> \o SortedSeq(S \ {x})

KeptProds(raw) == LET F == Range(raw.feats) IN
                  SortedSeq({p \in DOMAIN raw.G.prods : AllHold(raw.cfgp[p], F)})
KeptTs(raw)    == LET F == Range(raw.feats) IN
                  SelectSeq(raw.G.ts, LAMBDA t : \A i \in DOMAIN raw.G.ts :
                                                   raw.G.ts[i] = t => AllHold(raw.cfgt[i], F))

(* the grammar that remains *)
Filtered(raw) ==
  LET kp == KeptProds(raw)
      prods == [j \in DOMAIN kp |-> raw.G.prods[kp[j]]]
      nts == SelectSeq(raw.G.nts, LAMBDA A : \E j \in DOMAIN prods : prods[j].lhs = A)
  IN [ts |-> KeptTs(raw), nts |-> nts, prods |-> prods]

(* position of the old production index in the filtered grammar, 0 if deleted *)
NewIndex(raw, p) == LET kp == KeptProds(raw)
                        S == {j \in DOMAIN kp : kp[j] = p}
                    IN IF S = {} THEN 0 ELSE CHOOSE j \in S : TRUE

(* the filtered grammar is self-contained: the start production survives and
   no surviving alternative mentions a deleted terminal or a nonterminal
   without surviving alternatives (otherwise LALRPOP is expected to report
   an error, which is not what C15 is about) *)
SelfContained(raw) ==
  LET G2 == Filtered(raw) IN
  /\ NewIndex(raw, raw.sp) # 0
  /\ \A j \in DOMAIN G2.prods : \A i \in DOMAIN G2.prods[j].rhs :
        G2.prods[j].rhs[i] \in Range(G2.ts) \cup Range(G2.nts)

ApplyCfg(raw) ==
  LET kp == KeptProds(raw) IN
  [id |-> raw.id, G |-> Filtered(raw), sp |-> NewIndex(raw, raw.sp), n |-> raw.n, inject |-> raw.inject,
   P |-> [j \in DOMAIN kp |-> raw.P[kp[j]]], inl |-> raw.inl,
   kinds |-> LET G2 == Filtered(raw) IN
             [i \in DOMAIN G2.nts |-> raw.kinds[CHOOSE j \in DOMAIN raw.G.nts : raw.G.nts[j] = G2.nts[i]]]]
=============================================================================
