------------------------------ MODULE TraceConc -----------------------------
(***************************************************************************)
(* Validates events recorded from real threads that share parser values    *)
(* (harness/crates/concdrv, free-running mode) against Concurrent.  The    *)
(* trace (ndjson, IOEnv.CONC_TRACE, ordered by the global atomic sequence  *)
(* number taken inside the gate functions) has the events                  *)
(*   B  thread t begins a parse of `inp` (raw symbols); lex = FALSE when   *)
(*      the built-in lexer is used, whose steps are not observable         *)
(*   L  the token iterator hands out token k (or the end of input)         *)
(*   D  an action folds token k                                            *)
(*   R  parse returned `val`                                               *)
(* Every event must be the corresponding step of Concurrent for that       *)
(* thread, with the recorded input; with lex = FALSE the Lex steps happen  *)
(* silently in front of the next D / R event.  An event that is no step    *)
(* marks the thread "rejected" (invariant Accepted).                       *)
(***************************************************************************)
EXTENDS Concurrent, Json, IOUtils

Trace == ndJsonDeserialize(IOEnv.CONC_TRACE)

VARIABLES i, inp, lexv, bad
tvars == <<pulled, driven, toks, acc, result, cache, filling, i, inp, lexv, bad>>

TInit == Init /\ i = 0 /\ inp = [t \in Threads |-> <<>>] /\ lexv = [t \in Threads |-> TRUE]
         /\ bad = [t \in Threads |-> 0]

Ev == Trace[i + 1]

Begin(t) ==
    /\ pulled' = [pulled EXCEPT ![t] = 0] /\ driven' = [driven EXCEPT ![t] = 0]
    /\ toks' = [toks EXCEPT ![t] = <<>>] /\ acc' = [acc EXCEPT ![t] = 0]
    /\ result' = [result EXCEPT ![t] = -1]
    /\ cache' = [cache EXCEPT ![t] = [r \in Raw |-> "none"]]       \* a new call: a new private cache
    /\ inp' = [inp EXCEPT ![t] = Ev.inp] /\ lexv' = [lexv EXCEPT ![t] = Ev.lex]
    /\ UNCHANGED <<filling, bad>>

(* silent lexer steps (built-in lexer): as many Lex steps as are enabled *)
RECURSIVE SilentLex(_, _, _, _, _)
SilentLex(t, p, tk, c, upto) ==      \* returns <<pulled, toks, cache[t]>> after lexing up to `upto` tokens
    IF p >= upto THEN <<p, tk, c>>
    ELSE IF p = Len(inp[t]) THEN SilentLex(t, p + 1, tk, c, upto)
    ELSE LET r == inp[t][p + 1] IN
         SilentLex(t, p + 1, Append(tk, Dfa[r]), [c EXCEPT ![r] = Dfa[r]], upto)

Matches(t) ==
    \/ /\ Ev.ev = "L" /\ lexv[t] /\ Ev.k = pulled[t] + 1
       /\ LexOn(t, inp[t]) /\ UNCHANGED <<inp, lexv, bad>>
    \/ /\ Ev.ev = "D" /\ lexv[t] /\ Ev.k = driven[t] + 1
       /\ DriveOn(t, inp[t]) /\ UNCHANGED <<inp, lexv, bad>>
    \/ /\ Ev.ev = "R" /\ lexv[t]
       /\ FinishOn(t, inp[t]) /\ Ev.val = acc[t] /\ Ev.val = Sequential(inp[t])
       /\ UNCHANGED <<inp, lexv, bad>>
    \* built-in lexer: the lexer steps up to the needed lookahead are implied
    \/ /\ Ev.ev = "D" /\ ~lexv[t] /\ Ev.k = driven[t] + 1 /\ driven[t] < Len(inp[t]) /\ result[t] = -1
       /\ LET s == SilentLex(t, pulled[t], toks[t], cache[t], driven[t] + 2) IN
          /\ pulled' = [pulled EXCEPT ![t] = s[1]] /\ toks' = [toks EXCEPT ![t] = s[2]]
          /\ cache' = [cache EXCEPT ![t] = s[3]]
          /\ acc' = [acc EXCEPT ![t] = Fold(@, s[2][driven[t] + 1])]
          /\ driven' = [driven EXCEPT ![t] = @ + 1]
       /\ UNCHANGED <<result, filling, inp, lexv, bad>>
    \/ /\ Ev.ev = "R" /\ ~lexv[t] /\ driven[t] = Len(inp[t]) /\ result[t] = -1
       /\ Ev.val = acc[t] /\ Ev.val = Sequential(inp[t])
       /\ result' = [result EXCEPT ![t] = acc[t]]
       /\ pulled' = [pulled EXCEPT ![t] = Len(inp[t]) + 1]
       /\ UNCHANGED <<driven, toks, acc, cache, filling, inp, lexv, bad>>

TNext ==
    /\ i < Len(Trace)
    /\ i' = i + 1
    /\ LET t == Ev.t IN
       IF Ev.ev = "B" THEN Begin(t)
       ELSE IF bad[t] # 0 THEN UNCHANGED <<pulled, driven, toks, acc, result, cache, filling, inp, lexv, bad>>
       ELSE IF ENABLED Matches(t) THEN Matches(t)
       ELSE /\ bad' = [bad EXCEPT ![t] = i + 1]
            /\ UNCHANGED <<pulled, driven, toks, acc, result, cache, filling, inp, lexv>>
TSpec == TInit /\ [][TNext]_tvars

Accepted == \A t \in Threads : bad[t] = 0
Done == i = Len(Trace) => PrintT("@@TRACEDONE " \o ToJson([lines |-> i]))
=============================================================================
