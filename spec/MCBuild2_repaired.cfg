\* C22: 2 file(s), temporary file + rename (proposed/fix-C22.diff), crashes and failing writes: CrashSafe holds
SPECIFICATION Spec
CONSTANT NFiles = 2
CONSTANT Protocol = "temp_rename"
CONSTANT Faults = TRUE
VIEW View
CHECK_DEADLOCK FALSE
INVARIANT TypeOK
INVARIANT ReportUnsafe
INVARIANT CrashSafe
INVARIANT OutputFunctional
INVARIANT HeaderImpliesBody
