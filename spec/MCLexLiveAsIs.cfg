SPECIFICATION FairSpec
CONSTANT Defs <- MCDefs
CONSTANT ZeroLenIsError = FALSE
CHECK_DEADLOCK FALSE
PROPERTY Terminates
