\* C21: 1 file(s), the protocol of the code as it is, no faults; run: tlc -config MCBuild1.cfg MCBuild.tla
SPECIFICATION Spec
CONSTANT NFiles = 1
CONSTANT Protocol = "header_first"
CONSTANT Faults = FALSE
VIEW View
CHECK_DEADLOCK FALSE
INVARIANT TypeOK
INVARIANT ReportUnsafe
INVARIANT Fresh
INVARIANT OutputFunctional
