SPECIFICATION HSpec
CONSTANT Threads <- T3
CONSTANT Input <- Inputs3x2
CONSTANT SharedCache = FALSE
CONSTANT History = FALSE
INVARIANT ResultCorrect
INVARIANT Independent
PROPERTY Termination
CHECK_DEADLOCK FALSE
