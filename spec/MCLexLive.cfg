SPECIFICATION FairSpec
CONSTANT ZeroLenIsError = TRUE
CHECK_DEADLOCK FALSE
PROPERTY Terminates
