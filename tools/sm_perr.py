"""Engine `perr` (C28): spec/ParseErr.tla enumerated by TLC (MCParseErr) and
replayed against the real lalrpop_util::ParseError by harness/crates/perrdrv.

Expected results come from the TLA+ module only; this file moves the records
TLC printed into perrdrv and counts."""
import json
import os
import subprocess

from vlib import BIN, Report, ToolError, cargo_build_or_die, log, mkscratch, rmtree, run_tlc

CFG = """SPECIFICATION Spec
CHECK_DEADLOCK FALSE
CONSTANT Locs = {0, 1, 2}
CONSTANT Toks = {"a", "b"}
CONSTANT Errs = {"x", "y"}
CONSTANT Names <- %(names)s
CONSTANT MaxExp = %(maxexp)d
INVARIANT Laws
INVARIANT Report
"""

TIERS = {
    # names of `expected` come "from the grammar": quoted literals, identifiers, regexes
    "quick": {"names": "Names3", "maxexp": 4},
    "thorough": {"names": "Names3", "maxexp": 5},
}


def tlc_records(tier):
    r = run_tlc("MCParseErr", CFG % TIERS[tier], workers=4, timeout=900)
    if r.violations:
        raise ToolError("ParseErr.tla violates its own laws (spec bug): %s\n%s" %
                        (r.violations[0]["name"], r.violations[0]["trace"][-1500:]))
    recs = [o for t, o in r.prints if t == "PERR"]
    if not recs:
        raise ToolError("MCParseErr printed no records")
    return r, recs


def run_perrdrv(recs, wd):
    rf = os.path.join(wd, "records.ndjson")
    of = os.path.join(wd, "results.ndjson")
    with open(rf, "w") as f:
        for r in recs:
            f.write(json.dumps(r) + "\n")
    p = subprocess.run([os.path.join(BIN, "perrdrv"), rf, of], capture_output=True, text=True, timeout=600)
    if p.returncode != 0:
        raise ToolError("perrdrv failed: %s" % p.stderr[-2000:])
    out = [json.loads(l) for l in open(of)]
    if len(out) != len(recs):
        raise ToolError("perrdrv answered %d of %d records" % (len(out), len(recs)))
    for o in out:
        if "tool_error" in o:
            raise ToolError("perrdrv cannot build record %d: %s" % (o["i"], o["tool_error"]))
    return out


def key_of(rec, res):
    return "kind=parse_error_helper op=%s variant=%s why=%s" % (
        rec["op"], rec["in"].get("v", "E"), (res.get("why") or "?").replace(" ", "_"))


def check(tier, seed):
    rep = Report("C28", tier, "model_checking", seed)
    cargo_build_or_die(["perrdrv"])
    r, recs = tlc_records(tier)
    wd = mkscratch("perr")
    try:
        out = run_perrdrv(recs, wd)
    finally:
        rmtree(wd)
    byop = {}
    for rec, res in zip(recs, out):
        rep.case({"op": rec["op"], "in": rec["in"]})
        byop[rec["op"]] = byop.get(rec["op"], 0) + 1
        if not res["ok"]:
            rep.violation(key_of(rec, res),
                          "%s on %s: expected %s (closure arguments %s), lalrpop_util gave %s (closure arguments %s)" % (
                              rec["op"], json.dumps(rec["in"]), json.dumps(rec["out"]), json.dumps(rec["calls"]),
                              json.dumps(res.get("got")), json.dumps(res.get("got_calls"))),
                          {"engine": "perr", "record": rec})
    for k in (0, len(recs) // 5, 2 * len(recs) // 5, 3 * len(recs) // 5, len(recs) - 1):
        rep.sample({"record": recs[k], "real": out[k].get("got")})
    rep.add(states=r.distinct, transitions=r.generated, traces_validated_against_impl=len(recs), exhaustive=True,
            records_by_operation=byop, values=byop.get("display", 0), tlc_wall_s=round(r.wall, 1))
    rep.assumptions = ["TLC evaluates ParseErr.tla faithfully (the module's own laws are checked on every value first)",
                       "perrdrv's to_json/from_json name the fields of a span (L, T, L) start/token/end as documented"]
    return rep.finish(
        rule="every ParseError value over L=0..2, T={a,b}, E={x,y}, expected lists of length 0..%d over %s, times every "
             "operation (map_location with l->10l+3, map_token / map_error with distinct wrappers, Display, Display after "
             "map_location, From<E>); one case per (value, operation); all distinct by construction" %
             (TIERS[tier]["maxexp"], TIERS[tier]["names"]))


def replay(obj):
    cargo_build_or_die(["perrdrv"])
    wd = mkscratch("perr")
    try:
        out = run_perrdrv([obj["record"]], wd)
    finally:
        rmtree(wd)
    if not out[0]["ok"]:
        print("REPRODUCED:", key_of(obj["record"], out[0]), json.dumps(out[0]))
        return 1
    print("not reproduced")
    return 0


def selftest():
    """binding: one expected field corrupted in a TLC record must be rejected by perrdrv"""
    cargo_build_or_die(["perrdrv"])
    good = {"op": "map_location", "in": {"v": "ExtraToken", "start": 1, "token": "a", "end": 2},
            "out": {"v": "ExtraToken", "start": 13, "token": "a", "end": 23}, "calls": [1, 2]}
    bad1 = json.loads(json.dumps(good))
    bad1["out"]["end"] = 2  # as if only the start were mapped
    bad2 = json.loads(json.dumps(good))
    bad2["out"]["start"], bad2["out"]["end"] = 23, 13  # swapped ends
    bad3 = {"op": "display", "in": {"v": "UnrecognizedEof", "location": 1, "expected": ["A", "B", "C"]},
            "out": "Unrecognized EOF found at 1\nExpected one of A, B, C", "calls": []}
    bad4 = json.loads(json.dumps(good))
    bad4["calls"] = [1]
    wd = mkscratch("perr")
    try:
        out = run_perrdrv([good, bad1, bad2, bad3, bad4], wd)
    finally:
        rmtree(wd)
    got = [o["ok"] for o in out]
    return ("perr: corrupted expected records are rejected, the intact one accepted",
            got == [True, False, False, False, False], str(got))
