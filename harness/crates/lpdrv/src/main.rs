//! lpdrv: runs the real LALRPOP (linked from /repo with the verification hooks on)
//! over a list of jobs, in process, and writes per job the generated `.rs`
//! (through the public `Configuration` API) plus the hook export.
//!
//! usage: lpdrv <jobs.json> <results.ndjson>
//! job: {id, file, out_dir, lane_table: "default"|"disabled", features: [..]|null,
//!       emit_comments, emit_whitespace (default true), emit_report, force (default true),
//!       timeout_s (default 60), via: "set_features" (default) | "cargo_env" (features through CARGO_FEATURE_*, process_dir)}
//! result line: {id, status: "ok"|"err"|"panic"|"timeout", message, export: {...}, wall_ms}
//! The diagnostics LALRPOP prints go to this process's stdout/stderr, bracketed
//! by `@@BEGIN <id>` / `@@END <id>` lines (on both streams).

use serde_json::{json, Value};
use std::io::Write;
use std::sync::atomic::{AtomicU64, Ordering};
use std::sync::{Arc, Mutex};
use std::time::{Duration, Instant};

static DEADLINE_MS: AtomicU64 = AtomicU64::new(0);

fn now_ms(t0: Instant) -> u64 {
    t0.elapsed().as_millis() as u64
}

fn main() {
    let args: Vec<String> = std::env::args().collect();
    if args.len() != 3 {
        eprintln!("usage: lpdrv <jobs.json> <results.ndjson>");
        std::process::exit(2);
    }
    let jobs: Vec<Value> =
        serde_json::from_str(&std::fs::read_to_string(&args[1]).expect("read jobs")).expect("jobs json");
    let out = Arc::new(Mutex::new(
        std::fs::OpenOptions::new()
            .create(true)
            .append(true)
            .open(&args[2])
            .expect("open results"),
    ));
    let t0 = Instant::now();
    let current: Arc<Mutex<Option<String>>> = Arc::new(Mutex::new(None));
    {
        // watchdog: a job that exceeds its budget ends this process (status 3);
        // the orchestrator restarts after the offending job.
        let out = out.clone();
        let current = current.clone();
        std::thread::spawn(move || loop {
            std::thread::sleep(Duration::from_millis(100));
            let d = DEADLINE_MS.load(Ordering::SeqCst);
            if d != 0 && now_ms(t0) > d {
                let id = current.lock().unwrap().clone().unwrap_or_default();
                let line = json!({"id": id, "status": "timeout", "message": "time budget exceeded", "export": null});
                let mut f = out.lock().unwrap();
                let _ = writeln!(f, "{}", line);
                let _ = f.flush();
                std::process::exit(3);
            }
        });
    }
    std::panic::set_hook(Box::new(|info| {
        eprintln!("@@PANIC {}", info);
    }));
    for job in jobs {
        let id = job["id"].as_str().unwrap_or("?").to_string();
        let file = job["file"].as_str().expect("file").to_string();
        let out_dir = job["out_dir"].as_str().map(|s| s.to_string());
        let lane = job["lane_table"].as_str().unwrap_or("default").to_string();
        let timeout_s = job["timeout_s"].as_u64().unwrap_or(60);
        println!("@@BEGIN {}", id);
        eprintln!("@@BEGIN {}", id);
        *current.lock().unwrap() = Some(id.clone());
        if lane == "disabled" {
            std::env::set_var("LALRPOP_LANE_TABLE", "disabled");
        } else {
            std::env::remove_var("LALRPOP_LANE_TABLE");
        }
        let started = Instant::now();
        DEADLINE_MS.store(now_ms(t0) + timeout_s * 1000, Ordering::SeqCst);
        let job2 = job.clone();
        let r = std::panic::catch_unwind(move || {
            let mut cfg = lalrpop::Configuration::new();
            cfg.force_build(job2["force"].as_bool().unwrap_or(true));
            cfg.emit_rerun_directives(false);
            cfg.log_quiet();
            if let Some(d) = &out_dir {
                cfg.set_out_dir(d);
            }
            cfg.emit_comments(job2["emit_comments"].as_bool().unwrap_or(false));
            cfg.emit_whitespace(job2["emit_whitespace"].as_bool().unwrap_or(true));
            cfg.emit_report(job2["emit_report"].as_bool().unwrap_or(false));
            let via_env = job2["via"].as_str() == Some("cargo_env");
            // "explicit_over_env": features given with set_features while CARGO_FEATURE_* name OTHER features
            // (the explicit set, also an empty one, must win); processed with process_dir like a build script
            let over_env = job2["via"].as_str() == Some("explicit_over_env");
            if over_env {
                for f in job2["env_features"].as_array().cloned().unwrap_or_default() {
                    std::env::set_var(format!("CARGO_FEATURE_{}", f.as_str().unwrap().to_uppercase()), "1");
                }
            }
            if let Some(fs) = job2["features"].as_array() {
                if via_env {
                    // the way a build script gets them from Cargo
                    for f in fs {
                        std::env::set_var(format!("CARGO_FEATURE_{}", f.as_str().unwrap().to_uppercase()), "1");
                    }
                } else {
                    cfg.set_features(fs.iter().map(|f| f.as_str().unwrap().to_string()));
                }
            }
            let r = if via_env || over_env {
                // process_dir over the directory that holds (only) this file
                let dir = std::path::Path::new(&file).parent().unwrap().to_path_buf();
                cfg.process_dir(dir).map_err(|e| e.to_string())
            } else {
                cfg.process_file(&file).map_err(|e| e.to_string())
            };
            if via_env {
                if let Some(fs) = job2["features"].as_array() {
                    for f in fs {
                        std::env::remove_var(format!("CARGO_FEATURE_{}", f.as_str().unwrap().to_uppercase()));
                    }
                }
            }
            if over_env {
                for f in job2["env_features"].as_array().cloned().unwrap_or_default() {
                    std::env::remove_var(format!("CARGO_FEATURE_{}", f.as_str().unwrap().to_uppercase()));
                }
            }
            r
        });
        DEADLINE_MS.store(0, Ordering::SeqCst);
        let export_s = lalrpop::verif::take_export();
        let export: Value = serde_json::from_str(&export_s).unwrap_or_else(|e| json!({"bad_export": e.to_string(), "raw": export_s}));
        let (status, message) = match r {
            Ok(Ok(())) => ("ok", String::new()),
            Ok(Err(m)) => ("err", m),
            Err(p) => (
                "panic",
                p.downcast_ref::<String>()
                    .cloned()
                    .or_else(|| p.downcast_ref::<&str>().map(|s| s.to_string()))
                    .unwrap_or_else(|| "panic".to_string()),
            ),
        };
        let _ = std::io::stdout().flush();
        println!("@@END {}", id);
        eprintln!("@@END {}", id);
        let line = json!({"id": id, "status": status, "message": message, "export": export,
                          "wall_ms": started.elapsed().as_millis() as u64});
        let mut f = out.lock().unwrap();
        writeln!(f, "{}", line).expect("write result");
        f.flush().expect("flush");
    }
}
