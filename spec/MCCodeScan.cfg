SPECIFICATION Spec
CHECK_DEADLOCK FALSE
CONSTANT Items <- Catalogue
CONSTANT Cat <- CoreSet
CONSTANT MaxLen = 3
INVARIANT BodyIsWhole
INVARIANT EndsAtTerminator
INVARIANT OpenNeverEnds
INVARIANT Report
