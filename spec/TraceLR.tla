------------------------------ MODULE TraceLR ------------------------------
(***************************************************************************)
(* Trace validation of the real runtime driver against LRMachine.tla.      *)
(*                                                                         *)
(* The cfg-guarded hook in lalrpop-util/src/state_machine.rs records one   *)
(* event per driver step (tok / eof / tokerr, shift, reduce, eofreduce,    *)
(* fail, rec_start, rec_pre, rec_drop, rec_push, rec_giveup) with cheap    *)
(* scalar state (state index, stack depth, reduce index).  A case is an    *)
(* LRMachine case with a fixed input plus                                  *)
(*   trace : the events recorded while the real parser ran on that input   *)
(*   pmap  : LALRPOP's reduce index (+1) -> production index of the case   *)
(* Every event must be explained by the corresponding LRMachine action     *)
(* with the logged fields bound to the model's variables; the one step the *)
(* code does not log (leaving the pre-reduction loop) is a silent step.    *)
(* The whole trace must be consumed when the model reaches "done".         *)
(***************************************************************************)
EXTENDS LRMachine

VARIABLE l          \* next event
tvars == <<vars, l>>

Tr == Cases[c].trace
Ev == Tr[l]
HasEv == l <= Len(Tr)
Is(k) == HasEv /\ Ev.e = k
PMap(r) == Cases[c].pmap[r + 1]

(* which kind of event the pull that was just modelled corresponds to *)
PullKind == IF res'.kind = "inj" THEN "tokerr" ELSE IF la'.t = EOF THEN "eof" ELSE "tok"
PullMatches(ev) == /\ ev.e = PullKind
                   /\ ev.e = "tok" => GC.ts[ev.idx + 1] = la'.t

TraceInit == Init /\ l = 1

TNextToken == NextToken /\ HasEv /\ PullMatches(Ev) /\ l' = l + 1
TShift == /\ Shift /\ Is("shift")
          /\ Ev.to = sts'[Len(sts')] /\ Ev.depth = Len(sts')
          /\ l' = l + 1
TReduce == /\ Is("reduce") /\ pc = "inner"
           /\ Ev.top = TopS /\ Ev.depth = Len(sts)
           /\ Action(TopS, la.t).k = "reduce" /\ PMap(Ev.r) = Action(TopS, la.t).x
           /\ Reduce /\ l' = l + 1
TEofReduce == /\ Is("eofreduce") /\ pc = "eof"
              /\ Ev.top = TopS /\ Ev.depth = Len(sts)
              /\ Action(TopS, EOF).k = "reduce" /\ PMap(Ev.r) = Action(TopS, EOF).x
              /\ EofReduce /\ l' = l + 1
TFail == Fail /\ Is("fail") /\ l' = l + 1
TRecStart == RecStart /\ Is("rec_start") /\ l' = l + 1
TRecPre == /\ Is("rec_pre") /\ pc = "rec_pre"
           /\ Ev.top = TopS /\ Ev.depth = Len(sts)
           /\ Action(TopS, ERR).k = "reduce" /\ PMap(Ev.r) = Action(TopS, ERR).x
           /\ RecPreReduce /\ l' = l + 1
TRecPreDone == RecPreDone /\ UNCHANGED l                       \* not logged by the code
TRecFound == /\ RecFound /\ Is("rec_push")
             /\ Ev.at = Len(sts') - 2 /\ Ev.to = sts'[Len(sts')] /\ Ev.depth = Len(sts')
             /\ l' = l + 1
TRecDrop == /\ RecDrop /\ Is("rec_drop")                        \* drop + the next_token() inside it
            /\ l + 1 <= Len(Tr) /\ PullMatches(Tr[l + 1])
            /\ l' = l + 2
TRecGiveUp == RecGiveUp /\ Is("rec_giveup") /\ l' = l + 1

TraceNext == TNextToken \/ TShift \/ TReduce \/ TEofReduce \/ TFail \/ TRecStart \/ TRecPre
             \/ TRecPreDone \/ TRecFound \/ TRecDrop \/ TRecGiveUp
TraceSpec == TraceInit /\ [][TraceNext]_tvars

(* acceptance: the model is done exactly when the trace is used up *)
TraceAccepted == (pc = "done" /\ l = Len(Tr) + 1) =>
                   PrintT("@@TRACEOK " \o ToJson([id |-> Cases[c].id, events |-> Len(Tr), res |-> res]))
Stuck == (~(pc = "done" /\ l = Len(Tr) + 1) /\ ~ENABLED TraceNext) =>
           PrintT("@@STUCK " \o ToJson([id |-> Cases[c].id, at |-> l, of |-> Len(Tr), pc |-> pc,
                                        top |-> TopS, depth |-> Len(sts), la |-> la.t,
                                        event |-> IF HasEv THEN Ev ELSE [e |-> "(end of trace)"]]))
=============================================================================
