"""Engine `build`: the build protocol (spec/Build.tla) bound to the real
`lalrpop::Configuration` through harness/crates/fsdrv.

Python here moves data only: it asks TLC for the state graph of MCBuild, walks
that graph to produce replays (every expected state is one TLC computed), runs
fsdrv, hands recorded traces to TLC (TraceBuild) and compares JSON values.
"""
import json
import os
import random
import subprocess
from collections import defaultdict, deque
from concurrent.futures import ThreadPoolExecutor

import vlib
from vlib import BIN, ToolError, log, mkscratch, rmtree, run_tlc, trace_last_state

PROTOCOLS = ["header_first", "temp_rename"]
POINTS = ["after_check", "after_mkdirs", "after_remove", "after_generate", "after_create", "after_ver",
          "after_hash", "after_body", "after_rename"]
ABSENT = {"ex": False, "ver": "none", "hash": "none", "body": "none"}


# --------------------------------------------------------------------------
# grammar texts of the abstract texts A, B, Bad (distinct per file)
# --------------------------------------------------------------------------
def texts_for(files, variant=0):
    bads = ['grammar;\npub T: () = Missing;\n',                       # undefined nonterminal (normalisation)
            'grammar;\npub T: () = { "x" => (), "x" => () };\n',      # LR conflict (after the report is written)
            'grammar;\npub T: () = "x" => ( ;\n',                      # does not parse
            'grammar;\nT: () = "x" => ();\n']                          # no public symbol
    out = {}
    for k, f in enumerate(files):
        # the texts of the first file share a long identical head (> 64 KiB of comments) and differ only
        # after it, so that "same text?" cannot be decided from a prefix of the file
        head = ("// %s\n" % ("padding " * 12)) * 720 if k == 0 else ""
        out[f] = {
            "A": head + '// grammar %s, text A\ngrammar;\npub T: () = "a" => ();\n' % f,
            "B": head + '// grammar %s, text B\ngrammar;\npub T: u32 = { "b" <x:U> => x, "d" => 0 };\nU: u32 = "c"+ => 1;\n' % f,
            "Bad": head + ('// grammar %s, rejected\n' % f) + bads[variant % len(bads)],
        }
    return out


# --------------------------------------------------------------------------
# TLC: MCBuild
# --------------------------------------------------------------------------
def mc_cfg(nfiles, protocol, faults, invariants, edges=False):
    s = "SPECIFICATION Spec\nCONSTANT NFiles = %d\nCONSTANT Protocol = \"%s\"\nCONSTANT Faults = %s\n" \
        "VIEW View\nCHECK_DEADLOCK FALSE\n" % (nfiles, protocol, "TRUE" if faults else "FALSE")
    for i in invariants:
        s += "INVARIANT %s\n" % i
    if edges:
        s += "ACTION_CONSTRAINT PrintEdges\n"
    return s


ALL_ACTIONS = ["Edit", "Touch", "DeleteOut", "AlterVer", "AlterHash", "StartBuild", "Check", "Read", "Mkdirs",
               "Remove", "Generate", "Create", "WriteVer", "WriteHash", "WriteBody", "Finish", "Return"]
FAULT_ACTIONS = ["Crash", "FailGenerate", "FailVer", "FailHash", "PartialBody"]


def model_check(nfiles, protocol, faults, prop, edges=False, timeout=1500):
    """complete exploration of MCBuild; -> dict(states, transitions, unsafe: [state], edges: [edge] | None).
    Vacuity: every action of the model must have been taken (read from the edge labels when edges are printed)."""
    invs = ["TypeOK", "ReportUnsafe", prop, "OutputFunctional"]
    if protocol == "temp_rename":
        invs.append("HeaderImpliesBody")
    r = run_tlc("MCBuild", mc_cfg(nfiles, protocol, faults, invs, edges), workers=1 if edges else 8, cont=True,
                timeout=timeout)
    bad = [v for v in r.violations if v["name"] not in (prop,)]
    if bad:
        raise ToolError("MCBuild: invariant %s violated (spec inconsistency):\n%s" % (bad[0]["name"], bad[0]["trace"][-1500:]))
    unsafe = [o for t, o in r.prints if t == "UNSAFE"]
    if len(unsafe) != len(r.violations):
        raise ToolError("MCBuild: %d violations of %s but %d reported states" % (len(r.violations), prop, len(unsafe)))
    es = [o for t, o in r.prints if t == "EDGE"] if edges else None
    if edges:
        taken = {e["lbl"]["n"] for e in es}
        want = set(ALL_ACTIONS) | (set(FAULT_ACTIONS) if faults else set()) | ({"Rename"} if protocol == "temp_rename" else set())
        if want - taken:
            raise ToolError("MCBuild is vacuous: actions never taken: %s" % sorted(want - taken))
    return {"states": r.distinct, "transitions": r.generated, "unsafe": unsafe, "edges": es, "wall": r.wall}


# --------------------------------------------------------------------------
# the macro graph: user-level steps between idle states, walked from TLC's edges
# --------------------------------------------------------------------------
def skey(st):
    return json.dumps(st, sort_keys=True)


HOOK_OF_PC = {"read": "after_check", "remove": "after_mkdirs", "generate": "after_remove", "create": "after_generate",
              "ver": "after_create", "hash": "after_ver", "body": "after_hash"}


def hook_of(pc, protocol):
    if pc in HOOK_OF_PC:
        return HOOK_OF_PC[pc]
    if pc == "rename":
        return "after_body"
    if pc == "finish":
        return "after_body" if protocol == "header_first" else "after_rename"
    return None  # check, mkdirs: no hook stands there


class Macro:
    """idle states and the user-level steps between them.
    steps[s] = {opkey: {"op": step for fsdrv, "to": [(idle key, expectation)]}}"""

    def __init__(self, edges, protocol, report_ok=True):
        self.protocol = protocol
        self.state = {}
        succ = defaultdict(list)
        for e in edges:
            a, b = skey(e["from"]), skey(e["to"])
            self.state.setdefault(a, e["from"])
            self.state.setdefault(b, e["to"])
            succ[a].append((e["lbl"], b))
        self.succ = succ
        self.idle = [k for k, s in self.state.items() if s["pc"] == "idle"]
        self.init = [k for k in self.idle if all(not o["ex"] for o in self.state[k]["out"].values())
                     and all(not o["ex"] for o in self.state[k]["tmp"].values())]
        self.steps = {}
        for s in self.idle:
            self.steps[s] = self._steps_from(s, report_ok)

    def _add(self, d, op, to, expect):
        k = json.dumps(op, sort_keys=True)
        d.setdefault(k, {"op": op, "to": []})
        if (to, skey(expect)) not in [(t, skey(x)) for t, x in d[k]["to"]]:
            d[k]["to"].append((to, expect))

    def _steps_from(self, s, report_ok):
        d = {}
        for lbl, to in self.succ[s]:
            n, f = lbl["n"], lbl["f"]
            tgt = self.state[to]
            exp = {"out": tgt["out"], "tmp": tgt["tmp"]}
            if n == "Edit":
                self._add(d, {"op": "edit", "f": f, "t": lbl["a"][0]}, to, exp)
            elif n in ("Touch", "DeleteOut", "AlterVer", "AlterHash"):
                op = {"Touch": "touch", "DeleteOut": "delete_out", "AlterVer": "alter_ver", "AlterHash": "alter_hash"}[n]
                self._add(d, {"op": op, "f": f}, to, exp)
            elif n == "StartBuild":
                base = {"force": f == "force", "files": lbl["a"]}
                self._walk_build(d, base, to, report_ok)
        return d

    def _walk_build(self, d, base, x, report_ok):
        src = self.state[x]["src"]
        seen = set()
        created = set()  # files this call has already begun to write
        while True:
            if x in seen:
                raise ToolError("build does not terminate in the model")
            seen.add(x)
            st = self.state[x]
            nxt = None
            for lbl, to in self.succ[x]:
                n = lbl["n"]
                tgt = self.state[to]
                exp = {"out": tgt["out"], "tmp": tgt["tmp"]}
                if n == "Crash":
                    h = hook_of(st["pc"], self.protocol)
                    if h:
                        # the hook fires the first time its point is reached in this call
                        first = all(hook_of(self.state[y]["pc"], self.protocol) != h for y in seen if y != x)
                        if first:
                            self._add(d, dict(base, op="crash", point=h), to, exp)
                elif n in ("FailVer", "FailHash", "PartialBody", "FailGenerate"):
                    f = lbl["f"]
                    t = src[f]
                    if created - {f}:
                        continue  # RLIMIT_FSIZE is per file: an earlier, complete file would have hit it first
                    if n == "FailGenerate":
                        if not report_ok:
                            continue
                        la, rep = {"f": f, "t": t, "region": "report", "k": 40}, True
                    elif n == "FailVer":
                        la, rep = {"f": f, "t": t, "region": "ver", "k": {"none": 0, "old": 7, "cur": -1}[lbl["a"][0]]}, False
                    elif n == "FailHash":
                        la, rep = {"f": f, "t": t, "region": "hash", "k": {"none": 0, "junk": 9}.get(lbl["a"][0], -1)}, False
                    else:
                        la, rep = {"f": f, "t": t, "region": "body", "k": 1000}, False
                    op = dict(base, op="wfail", limit_at=la)
                    if rep:
                        op["report"] = True
                    self._add(d, op, to, exp)
                elif n == "Return":
                    exp = {"out": st["out"], "tmp": st["tmp"], "touched": st["touched"],
                           "result": "ok" if st["failed"] == "none" else "err"}
                    self._add(d, dict(base, op="build"), to, exp)
                    return
                else:
                    if nxt is not None:
                        raise ToolError("two continuations of a build step in the model at pc=%s" % st["pc"])
                    nxt = to
                    if n == "Create":
                        created.add(lbl["f"])
            if nxt is None:
                raise ToolError("build stuck in the model at pc=%s" % st["pc"])
            x = nxt

    def bfs(self):
        """shortest user-level path (list of (opkey, target)) from an initial state to every idle state"""
        parent = {k: None for k in self.init}
        q = deque(self.init)
        while q:
            s = q.popleft()
            for ok, ent in sorted(self.steps[s].items()):
                if len(ent["to"]) != 1:
                    continue  # a step with several outcomes is not used to reach a state
                to = ent["to"][0][0]
                if to not in parent:
                    parent[to] = (s, ok)
                    q.append(to)
        return parent

    def path_to(self, parent, s):
        p = []
        while parent[s] is not None:
            s0, ok = parent[s]
            p.append((s0, ok))
            s = s0
        p.reverse()
        return s, p  # (initial state, [(from, opkey)])


def history_from_path(m, init, path, last=None):
    steps = [{"op": "reset", "src": m.state[init]["src"]}]
    for s, ok in path:
        steps.append(m.steps[s][ok]["op"])
    if last:
        steps.append(m.steps[last[0]][last[1]]["op"])
    return steps


# --------------------------------------------------------------------------
# fsdrv
# --------------------------------------------------------------------------
def run_histories(files, histories, texts=None, report=False, procs=8):
    """histories: [{id, steps}] -> {id: [events]} (events of one history in order, `end` event included)"""
    if not histories:
        return {}
    texts = texts or texts_for(files)
    wd = mkscratch("fsh")
    try:
        procs = max(1, min(procs, len(histories)))
        chunks = [histories[i::procs] for i in range(procs)]

        def one(t):
            i, ch = t
            jf, of = os.path.join(wd, "job%d.json" % i), os.path.join(wd, "out%d.ndjson" % i)
            with open(jf, "w") as f:
                json.dump({"root": os.path.join(wd, "w%d" % i), "files": files, "texts": texts, "report": report,
                           "histories": ch}, f)
            p = subprocess.run([os.path.join(BIN, "fsdrv"), "history", jf, of], capture_output=True, timeout=3600)
            if p.returncode != 0:
                raise ToolError("fsdrv history failed (%s): %s" % (p.returncode, p.stderr.decode("utf-8", "replace")[-1500:]))
            out = defaultdict(list)
            sizes = None
            with open(of) as f:
                for ln in f:
                    e = json.loads(ln)
                    if e["ev"] == "tool_error":
                        raise ToolError("fsdrv: " + e["detail"])
                    if e["ev"] == "refs":
                        sizes = e["sizes"]
                        continue
                    out[e["h"]].append(e)
            return out, sizes

        res = {}
        sizes = None
        with ThreadPoolExecutor(max_workers=procs) as ex:
            for o, s in ex.map(one, enumerate(chunks)):
                res.update(o)
                sizes = s or sizes
        res["__sizes__"] = sizes
        return res
    finally:
        rmtree(wd)


# --------------------------------------------------------------------------
# spec -> impl: walk the macro graph along the recorded events
# --------------------------------------------------------------------------
def op_of_event(e):
    """the step an event answers (the inverse of fsdrv's echo)"""
    ev = e["ev"]
    if ev in ("edit",):
        return {"op": "edit", "f": e["f"], "t": e["t"]}
    if ev in ("touch", "delete_out", "alter_ver", "alter_hash"):
        return {"op": ev, "f": e["f"]}
    return None


def compare_history(m, steps, events):
    """-> (n compared, mismatch | None); the model state is followed along the observed states"""
    cur = None
    evs = [e for e in events if e["ev"] != "end"]
    if len(evs) != len(steps):
        return 0, {"at": 0, "why": "fsdrv dropped %d step(s) the model enables" % (len(steps) - len(evs))}
    n = 0
    for i, (st, e) in enumerate(zip(steps, evs)):
        if st["op"] == "reset":
            cur = next(k for k in m.init if m.state[k]["src"] == st["src"])
            continue
        ent = m.steps[cur][json.dumps(st, sort_keys=True)]
        obs = e["obs"]
        if e.get("foreign"):
            return n, {"at": i, "step": st, "why": "foreign file(s) in the output directory", "files": e["foreign"]}
        match = None
        why = None
        for to, exp in ent["to"]:
            if st["op"] == "build":
                if e["ev"] != "build":
                    why = {"field": "kind", "expected": "build", "observed": e["ev"], "detail": e.get("detail")}
                elif e["result"] != exp["result"]:
                    why = {"field": "result", "expected": exp["result"], "observed": e["result"], "detail": e.get("detail")}
                elif obs["out"] != exp["out"]:
                    why = {"field": "out", "expected": exp["out"], "observed": obs["out"]}
                elif obs["touched"] != exp["touched"]:
                    why = {"field": "touched", "expected": exp["touched"], "observed": obs["touched"]}
                elif obs["tmp"] != exp["tmp"]:
                    why = {"field": "tmp", "expected": exp["tmp"], "observed": obs["tmp"]}
                else:
                    match = to
            else:
                if st["op"] in ("crash", "wfail") and e["ev"] != st["op"]:
                    why = {"field": "kind", "expected": st["op"], "observed": e["ev"], "result": e.get("result"),
                           "detail": e.get("detail")}
                elif obs["out"] != exp["out"]:
                    why = {"field": "out", "expected": exp["out"], "observed": obs["out"]}
                elif obs["tmp"] != exp["tmp"]:
                    why = {"field": "tmp", "expected": exp["tmp"], "observed": obs["tmp"]}
                else:
                    match = to
            if match:
                break
        if not match:
            why.update({"at": i, "step": st})
            return n, why
        n += 1
        cur = match
    return n, None


# --------------------------------------------------------------------------
# impl -> spec: TraceBuild
# --------------------------------------------------------------------------
def trace_cfg(nfiles, protocol, generic, invariants):
    s = "SPECIFICATION TraceSpec\nCONSTANT NFiles = %d\nCONSTANT Protocol = \"%s\"\nCONSTANT Faults = TRUE\n" \
        "CONSTANT Generic = %s\nCHECK_DEADLOCK FALSE\nCONSTRAINT Consumed\nPOSTCONDITION TraceAccepted\n" \
        "INVARIANT ReportState\n" % (nfiles, protocol, "TRUE" if generic else "FALSE")
    for i in invariants:
        s += "INVARIANT %s\n" % {"Fresh": "ReportFresh", "CrashSafe": "ReportCrashSafe"}.get(i, i)
    return s


TRACE_FIELDS = ("ev", "src", "f", "t", "force", "files", "result", "point", "obs")


def trace_lines(events):
    out = []
    for e in events:
        if e["ev"] == "end":
            continue
        out.append({k: e[k] for k in TRACE_FIELDS if k in e})
    return out


def validate_trace(lines, nfiles, protocol, generic, invariants, timeout=900):
    """-> dict(accepted, reject, violations: [(invariant, line index 1-based)], states, transitions)"""
    wd = mkscratch("trace")
    try:
        tf = os.path.join(wd, "trace.ndjson")
        with open(tf, "w") as f:
            for ln in lines:
                f.write(json.dumps(ln) + "\n")
        r = run_tlc("TraceBuild", trace_cfg(nfiles, protocol, generic, invariants), env={"TRACE": tf}, workers=1,
                    cont=True, timeout=timeout, java_opts=["-Dtlc2.tool.queue.IStateQueue=StateDeque"], workdir=wd)
    finally:
        rmtree(wd)
    acc = [o for t, o in r.prints if t == "ACCEPT"]
    rej = [o for t, o in r.prints if t == "REJECT"]
    if not acc and not rej:
        raise ToolError("TraceBuild gave no verdict:\n" + r.out[-1500:])
    viol = [(o["inv"], int(o["l"])) for t, o in r.prints if t == "BAD"]
    for v in r.violations:
        st = trace_last_state(v["trace"])
        try:
            viol.append((v["name"], int(st["l"])))
        except Exception:
            raise ToolError("cannot locate violation of %s in the trace:\n%s" % (v["name"], v["trace"][-800:]))
    return {"accepted": bool(acc) and acc[0]["lines"] == len(lines), "reject": rej[0] if rej else None,
            "violations": sorted(set(viol)), "states": r.distinct, "transitions": r.generated}


def detect_and_validate(histories_events, nfiles, invariants):
    """Validate recorded histories against Build under the protocol they follow.
    -> dict(protocol, violations [(inv, history id, index in history, event)], lines, histories, states, transitions)
    When the traces are a behaviour of neither modelled protocol they are judged by the
    properties alone (protocol 'any')."""
    lines, where = [], []
    for hid, evs in histories_events:
        for i, ln in enumerate(trace_lines(evs)):
            lines.append(ln)
            where.append((hid, i))
    tried = {}
    for proto in PROTOCOLS:
        r = validate_trace(lines, nfiles, proto, False, invariants)
        tried[proto] = r
        if r["accepted"]:
            chosen = proto
            break
    else:
        chosen = "any"
        r = validate_trace(lines, nfiles, "header_first", True, invariants)
    viol = []
    if chosen == "any" and not r["accepted"]:
        # no protocol, not even the generic one, explains what the real code did at this step: the
        # observation itself contradicts the build contract (e.g. a build that returned Ok over an edited
        # grammar without touching a stale output) -- a violation, reported at the rejected line
        rej = r["reject"] or {}
        k = max(0, min(int(rej.get("line", 1)), len(lines)) - 1)
        viol.append(("NotExplainedByModel", where[k][0], where[k][1], lines[k]))
    for inv, l in r["violations"]:
        # l is the line being consumed when the violated state was reached
        k = min(l, len(lines)) - 1
        viol.append((inv, where[k][0], where[k][1], lines[k]))
    return {"protocol": chosen, "violations": viol, "lines": len(lines), "histories": len(histories_events),
            "states": r["states"], "transitions": r["transitions"],
            "rejections": {p: t["reject"] for p, t in tried.items() if t["reject"]}}


# --------------------------------------------------------------------------
# random histories
# --------------------------------------------------------------------------
def random_history(rng, files, length, faults, hid):
    src = {f: rng.choice(["A", "A", "B", "Bad"]) for f in files}
    steps = [{"op": "reset", "src": dict(src)}]
    single = len(files) == 1
    while len(steps) < length:
        x = rng.random()
        f = rng.choice(files)
        if x < 0.22:
            t = rng.choice([t for t in ("A", "B", "Bad", "A", "B") if t != src[f]])
            src[f] = t
            steps.append({"op": "edit", "f": f, "t": t})
        elif x < 0.30:
            steps.append({"op": "touch", "f": f})
        elif x < 0.38:
            steps.append({"op": "delete_out", "f": f})
        elif x < 0.46:
            steps.append({"op": "alter_ver", "f": f})
        elif x < 0.54:
            steps.append({"op": "alter_hash", "f": f})
        else:
            fl = list(files) if (single or rng.random() < 0.6) else [f]
            b = {"force": rng.random() < 0.2, "files": fl}
            if single:
                b["api"] = rng.choice(["file", "dir"])
            y = rng.random()
            if faults and y < 0.25:
                b.update(op="crash", point=rng.choice(POINTS[:-1]))
            elif faults and y < 0.5:
                g = rng.choice(fl)
                region = rng.choice(["ver", "hash", "body", "body"])
                k = rng.choice([0, 1, -1, rng.randrange(0, 30), rng.randrange(0, 12000)])
                b.update(op="wfail", limit_at={"f": g, "t": src[g], "region": region, "k": k})
            else:
                b["op"] = "build"
            steps.append(b)
    return {"id": hid, "steps": steps}
