----------------------------- MODULE TraceBuild -----------------------------
(***************************************************************************)
(* Trace validation for Build: the events fsdrv records while it drives    *)
(* the real `lalrpop::Configuration` in a scratch directory (one JSON line *)
(* per step, with the file system projected onto Build's `out`/`tmp` after *)
(* the step) must be a behaviour of Build.  Every invariant of the cfg is  *)
(* evaluated in every state of that behaviour, so a recorded history in    *)
(* which a build returns with a stale output violates Fresh / CrashSafe.   *)
(*                                                                         *)
(* One event is one user-level step; a build is several Build actions, so  *)
(* the build events are consumed by silent steps (StartBuild, the pc steps) *)
(* closed by the one step that the event observes:                         *)
(*   build  ... Return         the call returned (result ok / err)         *)
(*   crash  ... Crash          the process was aborted at a named point    *)
(*   wfail  ... Fail* /Partial* a write failed (RLIMIT_FSIZE)              *)
(* TLC infers which step of which file failed from the observed state.     *)
(* Several histories are concatenated; a `reset` event starts a new one.   *)
(*                                                                         *)
(* Protocol "any": nothing is assumed about how a build works -- a build,  *)
(* crash or wfail event moves the model to the observed state -- so only   *)
(* the properties themselves (Returned at every return) are decided.  It   *)
(* is the fall-back when the code follows neither modelled protocol.       *)
(*                                                                         *)
(* Acceptance: POSTCONDITION on the highest line consumed (register 1,     *)
(* maintained by the CONSTRAINT; needs -workers 1).                        *)
(***************************************************************************)
EXTENDS Build, Json, IOUtils

CONSTANT Generic   \* TRUE: protocol "any"

Rec == ndJsonDeserialize(IOEnv.TRACE)
N == Len(Rec)

VARIABLE l
tvars == <<vars, l>>

More == l <= N
Ev == Rec[l]
Is(e) == More /\ Ev.ev = e
IsBuildish == More /\ Ev.ev \in {"build", "crash", "wfail"}
ToSet(s) == {s[i] : i \in DOMAIN s}

(* the crash hook `after_x` fires when x is done: pc names the next step *)
PcOfPoint(p) == CASE p = "after_check" -> "read"
                  [] p = "after_mkdirs" -> "remove"
                  [] p = "after_remove" -> "generate"
                  [] p = "after_generate" -> "create"
                  [] p = "after_create" -> "ver"
                  [] p = "after_ver" -> "hash"
                  [] p = "after_hash" -> "body"
                  [] p = "after_body" -> IF InPlace THEN "finish" ELSE "rename"
                  [] p = "after_rename" -> IF InPlace THEN "nowhere" ELSE "finish"
                  [] OTHER -> "nowhere"

(* the recorded projection of the file system after the step *)
PostFS == \A f \in Files : out'[f] = Ev.obs.out[f] /\ tmp'[f] = Ev.obs.tmp[f]
NowFS  == \A f \in Files : out[f] = Ev.obs.out[f] /\ tmp[f] = Ev.obs.tmp[f]
NowTouched == \A f \in Files : touched[f] = Ev.obs.touched[f]

TraceInit == /\ Init /\ src = [f \in Files |-> "A"] /\ l = 1

TReset == /\ Is("reset") /\ pc = "idle"
          /\ src' = [f \in Files |-> Ev.src[f]]
          /\ out' = AllAbsent /\ tmp' = AllAbsent
          /\ UNCHANGED build
          /\ Lbl("Reset", "", <<>>)
          /\ l' = l + 1

TEnv == /\ More
        /\ \/ Is("edit") /\ Edit(Ev.f, Ev.t)
           \/ Is("touch") /\ Touch(Ev.f)
           \/ Is("delete_out") /\ DeleteOut(Ev.f)
           \/ Is("alter_ver") /\ AlterVer(Ev.f)
           \/ Is("alter_hash") /\ AlterHash(Ev.f)
        /\ PostFS
        /\ l' = l + 1

TStart == /\ ~Generic /\ IsBuildish /\ StartBuild(Ev.force, ToSet(Ev.files)) /\ l' = l

(* the hook aborts the process the first time the named point is reached *)
CrashHere == Is("crash") /\ pc = PcOfPoint(Ev.point)

TStep == /\ ~Generic /\ IsBuildish /\ pc \in Steps /\ ~CrashHere
         /\ Step
         /\ l' = l

TReturn == /\ ~Generic /\ Is("build") /\ pc = "done"
           /\ (Ev.result = "ok") <=> (failed = NoFile)
           /\ NowFS /\ NowTouched
           /\ Return
           /\ l' = l + 1

TCrash == /\ ~Generic /\ CrashHere /\ Crash /\ PostFS /\ l' = l + 1

TFault == /\ ~Generic /\ Is("wfail")
          /\ (FailGenerate \/ FailVer \/ FailHash \/ PartialBody)
          /\ PostFS
          /\ l' = l + 1

(* ----- protocol "any": the observed states, judged by the properties only ----- *)
GStart == /\ Generic /\ IsBuildish /\ pc = "idle"
          /\ IF Ev.ev = "build"
               THEN /\ pc' = "done"
                    /\ out' = [f \in Files |-> Ev.obs.out[f]]
                    /\ tmp' = [f \in Files |-> Ev.obs.tmp[f]]
                    /\ touched' = [f \in Files |-> Ev.obs.touched[f]]
                    /\ force' = Ev.force
                    /\ fresh0' = {f \in ToSet(Ev.files) : IsCurrent(f)}
                    /\ LET q == Restrict(ToSet(Ev.files))
                           bad == {i \in DOMAIN q : src[q[i]] = "Bad"}
                           k == IF bad = {} THEN Len(q) + 1 ELSE CHOOSE i \in bad : \A j \in bad : i <= j
                       IN  \* the walk stops at the first rejected grammar
                           /\ (Ev.result = "ok") <=> (bad = {})
                           /\ visited' = {q[i] : i \in 1..(k - 1)}
                           /\ failed' = IF bad = {} THEN NoFile ELSE q[k]
                    /\ queue' = <<>>
                    /\ UNCHANGED src
                    /\ Lbl("AnyBuild", "", <<>>)
                    /\ l' = l
               ELSE /\ out' = [f \in Files |-> Ev.obs.out[f]]
                    /\ tmp' = [f \in Files |-> Ev.obs.tmp[f]]
                    /\ UNCHANGED <<src, build>>
                    /\ Lbl("AnyFault", "", <<>>)
                    /\ l' = l + 1

GReturn == /\ Generic /\ Is("build") /\ pc = "done" /\ Return /\ l' = l + 1

TraceNext == TReset \/ TEnv \/ TStart \/ TStep \/ TReturn \/ TCrash \/ TFault \/ GStart \/ GReturn
TraceSpec == TraceInit /\ [][TraceNext]_tvars

(* ------------------------------- acceptance ------------------------------- *)
ASSUME TLCSet(1, 0)
Consumed == TLCSet(1, IF l > TLCGet(1) THEN l ELSE TLCGet(1))

TraceAccepted ==
    LET n == TLCGet(1) IN
    IF n = N + 1
      THEN PrintT("@@ACCEPT " \o ToJson([lines |-> N]))
      ELSE PrintT("@@REJECT " \o ToJson([line |-> n, of |-> N, last |-> TLCGet(2),
                                            event |-> IF n \in 1..N THEN Rec[n] ELSE [ev |-> "none"]]))

(* The properties along the trace, as reporting predicates (always TRUE): a
   violated one prints the line being consumed instead of a counterexample
   (which, for concatenated histories, would be the whole file again).
   They judge the returns that were observed: while TLC looks for the step at
   which a `wfail` event failed it also visits returns of the same call that
   did not happen; those are states of the model, not of the recorded run. *)
ObservedReturn == pc = "done" /\ Is("build") /\ NowFS /\ NowTouched
ReportFresh     == (ObservedReturn /\ ~Returned) => PrintT("@@BAD " \o ToJson([inv |-> "Fresh", l |-> l]))
ReportCrashSafe == (ObservedReturn /\ ~Returned) => PrintT("@@BAD " \o ToJson([inv |-> "CrashSafe", l |-> l]))

(* last matched state, for the rejection report (always TRUE) *)
ReportState == (l = TLCGet(1)) =>
                 TLCSet(2, [l |-> l, pc |-> pc, src |-> src, out |-> out, tmp |-> tmp, touched |-> touched])
ASSUME TLCSet(2, [l |-> 0])
=============================================================================
