SPECIFICATION FairSpec
CONSTANT ZeroLenIsError = FALSE
CHECK_DEADLOCK FALSE
PROPERTY Terminates
