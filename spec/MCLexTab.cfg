SPECIFICATION Spec
CHECK_DEADLOCK FALSE
INVARIANT Consistent
INVARIANT Report
