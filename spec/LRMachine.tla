----------------------------- MODULE LRMachine -----------------------------
(***************************************************************************)
(* The LR runtime driver (lalrpop_util::state_machine::Parser and the      *)
(* table-driven code generated around it) over the automaton LALRPOP       *)
(* exported.  One action per arm of the code (DESIGN appendix B), so that  *)
(* traces recorded from the real driver can be validated step by step and  *)
(* behaviours explored by TLC can be replayed into it.                     *)
(*                                                                         *)
(* A case is [id, G, sp, n, inject, P, recovery, backend, states]:         *)
(*   G, sp, P   as in Sem.tla (G.ts in LALRPOP's terminal order, the error *)
(*              terminal "error" last when the grammar uses `!`);          *)
(*   recovery   the grammar mentions `!` (uses_error_recovery);            *)
(*   backend    "table" | "ascent" (ascent: no recovery; `expected` is     *)
(*              taken from the current state only);                        *)
(*   states     the exported automaton (as in Sim.tla).                    *)
(*                                                                         *)
(* Variables mirror `Parser`: states, symbols (here: syms, each [v,lo,hi]),*)
(* the lookahead, last_location, and the locals of error_recovery.         *)
(***************************************************************************)
EXTENDS Grammar, SemVal, TLC, Json, IOUtils

Cases == JsonDeserialize(IOEnv.RUN_CASES)
NC == Len(Cases)

ERR == "error"          \* the terminal `!`

VARIABLES c,        \* case
          sts,      \* state stack (0-based automaton indices), sts[1] = 0
          syms,     \* symbol stack, Len(syms) = Len(sts) - 1
          la,       \* [t |-> "none" | "$" | terminal, k |-> position]
          pulled, lastLoc, inp,
          pc,       \* "top" | "inner" | "eof" | "rec_pre" | "rec_find" | "done"
          rec,      \* recovery locals: [err, dropped, slen]
          evs,      \* action log <<tag, pulled>>
          steps,    \* driver steps taken (C08: bounded)
          res,
          tree      \* the derivation tree of an accepted parse (C16), else Nil
vars == <<c, sts, syms, la, pulled, lastLoc, inp, pc, rec, evs, steps, res, tree>>

GC == Cases[c].G
PC == Cases[c].P
A  == Cases[c].states
St(i) == A[i + 1]
TopS == sts[Len(sts)]
NoLa == [t |-> "none", k |-> 0]
EofLa == [t |-> EOF, k |-> 0]
NoRec == [err |-> [kind |-> "none"], dropped |-> <<>>, slen |-> 0]
Running == [kind |-> "run"]

(* derivation trees, uniform records *)
Nil == [k |-> "nil", p |-> 0, n |-> 0, lo |-> 0, hi |-> 0, dropped |-> <<>>, kids |-> <<>>]
TokLeaf(k) == [Nil EXCEPT !.k = "tok", !.n = k, !.lo = TokLo(k), !.hi = TokHi(k)]
ErrLeaf(lo, hi, dr) == [Nil EXCEPT !.k = "err", !.lo = lo, !.hi = hi, !.dropped = dr]
NodeOf(p, kids, lo, hi) == [Nil EXCEPT !.k = "node", !.p = p, !.lo = lo, !.hi = hi, !.kids = kids]

(* ------------------------- the emitted tables ------------------------- *)
(* ACTION / EOF_ACTION as write_parse_table builds them: a shift wins, else
   the first reduction whose lookahead set contains the token, else error *)
RedOn(st, a) == LET idx == {i \in DOMAIN st.reds : \E j \in DOMAIN st.reds[i].la : st.reds[i].la[j] = a}
                IN IF idx = {} THEN 0
                   ELSE st.reds[CHOOSE i \in idx : \A j \in idx : i <= j].p
Action(s, a) ==   \* [k |-> "shift", to] | [k |-> "reduce", p] | [k |-> "error"]
  LET st == St(s) IN
  IF a # EOF /\ a \in DOMAIN st.shifts THEN [k |-> "shift", x |-> st.shifts[a]]
  ELSE IF RedOn(st, a) # 0 THEN [k |-> "reduce", x |-> RedOn(st, a)]
  ELSE [k |-> "error", x |-> 0]
GotoOf(s, nt) == St(s).gotos[nt]

(* `__accepts` / Parser::accepts: simulate reductions on the state stack
   until the token is shifted (TRUE), the start production is reduced (TRUE)
   or an error entry is hit (FALSE).  `fuel` makes non-termination visible
   ("div") instead of hanging TLC. *)
RECURSIVE AccLoop(_, _, _)
AccLoop(stk, a, fuel) ==
  IF fuel = 0 THEN "div"
  ELSE LET act == Action(stk[Len(stk)], a) IN
       IF act.k = "error" THEN "no"
       ELSE IF act.k = "shift" THEN "yes"
       ELSE IF act.x = Cases[c].sp THEN "yes"
       ELSE LET m == Len(Rhs(GC, act.x))
                base == SubSeq(stk, 1, Len(stk) - m)
            IN AccLoop(Append(base, GotoOf(base[Len(base)], Lhs(GC, act.x))), a, fuel - 1)
Fuel == 4 * (Len(A) + Len(GC.prods)) + 8
Accepts(stk, a) == AccLoop(stk, a, Fuel)

(* `__expected_tokens_from_states` (table) resp. the current state's
   terminals (ascent), in terminal order, never the error terminal *)
UserTs == SelectSeq(GC.ts, LAMBDA t : t # ERR)
Expected(stk) ==
  IF Cases[c].backend = "ascent"
  THEN SelectSeq(UserTs, LAMBDA t : Action(stk[Len(stk)], t).k # "error")
  ELSE SelectSeq(UserTs, LAMBDA t : Accepts(stk, t) = "yes")

UnrecognizedError(stk) ==
  IF la.t # EOF
  THEN [kind |-> "tok", k |-> la.k, lo |-> TokLo(la.k), hi |-> TokHi(la.k), expected |-> Expected(stk)]
  ELSE [kind |-> "eof", loc |-> lastLoc, expected |-> Expected(stk)]

(* ------------------------------- driver ------------------------------- *)
Init == /\ c \in 1..NC
        /\ sts = <<0>> /\ syms = <<>>
        /\ la = NoLa /\ pulled = 0 /\ lastLoc = 0 /\ inp = <<>>
        /\ pc = "top" /\ rec = NoRec /\ evs = <<>> /\ steps = 0
        /\ res = Running /\ tree = Nil

Tick == steps' = steps + 1

(* next_token(): a token, the end of the stream, or a stream error.
   `then` = pc after a token, `theneof` = pc at end of input *)
(* a case may fix its input (`fixed`, used for long inputs: then exactly one
   behaviour exists); otherwise every input up to n tokens is explored *)
Fixed == "fixed" \in DOMAIN Cases[c]
MayPull(t) == Fixed => (pulled < Len(Cases[c].fixed) /\ Cases[c].fixed[pulled + 1] = t)
MayEnd == Fixed => (pulled = Len(Cases[c].fixed) /\ ~Cases[c].inject)
MayInject == Fixed => pulled = Len(Cases[c].fixed)

PullInto(then, theneof) ==
  \/ /\ pulled < Cases[c].n
     /\ \E t \in {x \in TSet(GC) : x # ERR} :
          /\ MayPull(t)
          /\ la' = [t |-> t, k |-> pulled + 1]
          /\ inp' = Append(inp, t)
     /\ pulled' = pulled + 1
     /\ lastLoc' = TokHi(pulled + 1)
     /\ pc' = then
     /\ UNCHANGED res
  \/ /\ MayEnd
     /\ la' = EofLa /\ pc' = theneof
     /\ UNCHANGED <<inp, pulled, lastLoc, res>>
  \/ /\ Cases[c].inject /\ pulled < Cases[c].n /\ MayInject
     /\ res' = [kind |-> "inj", at |-> pulled + 1]
     /\ pc' = "done"
     /\ UNCHANGED <<la, inp, pulled, lastLoc>>

NextToken ==
  /\ pc = "top"
  /\ PullInto("inner", "eof")
  /\ Tick /\ UNCHANGED <<c, sts, syms, rec, evs, tree>>

(* position used for an empty production (emit_reduce_action) *)
EmptyPos == IF la.t # EOF THEN TokLo(la.k)
            ELSE IF syms # <<>> THEN syms[Len(syms)].hi ELSE 0

(* definition.reduce(p, lookahead_start, states, symbols): runs the action,
   pops, pushes the goto.  okpc = pc when the parse goes on; accept = result
   when the start production is reduced *)
DoReduce(p, okpc, acceptRes(_)) ==
  LET m == Len(Rhs(GC, p))
      kids == SubSeq(syms, Len(syms) - m + 1, Len(syms))
  IN IF p = Cases[c].sp
     THEN /\ res' = acceptRes(kids[1].v)
          /\ tree' = kids[1].tr
          /\ pc' = "done"
          /\ UNCHANGED <<sts, syms, evs>>
     ELSE /\ evs' = IF RunsCode(PC[p]) THEN Append(evs, <<PC[p].tag, pulled>>) ELSE evs
          /\ UNCHANGED tree
          /\ IF Fails(PC[p], kids, EmptyPos)
             THEN /\ res' = [kind |-> "user", tag |-> PC[p].tag]
                  /\ pc' = "done"
                  /\ UNCHANGED <<sts, syms>>
             ELSE LET base == SubSeq(sts, 1, Len(sts) - m)
                  IN /\ sts' = Append(base, GotoOf(base[Len(base)], Lhs(GC, p)))
                     /\ syms' = Append(SubSeq(syms, 1, Len(syms) - m),
                                       [v |-> ProdValue(PC[p], kids, EmptyPos),
                                        lo |-> SpanLo(kids, EmptyPos), hi |-> SpanHi(kids, EmptyPos),
                                        tr |-> NodeOf(p, [i \in DOMAIN kids |-> kids[i].tr],
                                                      SpanLo(kids, EmptyPos), SpanHi(kids, EmptyPos))])
                     /\ pc' = okpc
                     /\ UNCHANGED res

OkRes(v) == [kind |-> "ok", value |-> v]
ExtraRes(v) == [kind |-> "extra", k |-> la.k, lo |-> TokLo(la.k), hi |-> TokHi(la.k)]

Shift ==
  /\ pc = "inner" /\ Action(TopS, la.t).k = "shift"
  /\ sts' = Append(sts, Action(TopS, la.t).x)
  /\ syms' = Append(syms, [v |-> la.k, lo |-> TokLo(la.k), hi |-> TokHi(la.k), tr |-> TokLeaf(la.k)])
  /\ la' = NoLa /\ pc' = "top"
  /\ Tick /\ UNCHANGED <<c, pulled, lastLoc, inp, rec, evs, res, tree>>

Reduce ==      \* with a token as lookahead; reducing the start production here is ExtraToken
  /\ pc = "inner" /\ Action(TopS, la.t).k = "reduce"
  /\ DoReduce(Action(TopS, la.t).x, "inner", ExtraRes)
  /\ Tick /\ UNCHANGED <<c, la, pulled, lastLoc, inp, rec>>

EofReduce ==   \* parse_eof
  /\ pc = "eof" /\ Action(TopS, EOF).k = "reduce"
  /\ DoReduce(Action(TopS, EOF).x, "eof", OkRes)
  /\ Tick /\ UNCHANGED <<c, la, pulled, lastLoc, inp, rec>>

(* no action for the lookahead: error_recovery() *)
NoAction == \/ (pc = "inner" /\ Action(TopS, la.t).k = "error")
            \/ (pc = "eof" /\ Action(TopS, EOF).k \in {"error", "shift"})

Fail ==        \* grammars without `!`
  /\ NoAction /\ ~Cases[c].recovery
  /\ res' = UnrecognizedError(sts) /\ pc' = "done"
  /\ Tick /\ UNCHANGED <<c, sts, syms, la, pulled, lastLoc, inp, rec, evs, tree>>

RecStart ==    \* the error is computed before the pre-reductions
  /\ NoAction /\ Cases[c].recovery
  /\ rec' = [err |-> UnrecognizedError(sts), dropped |-> <<>>, slen |-> 0]
  /\ pc' = "rec_pre"
  /\ Tick /\ UNCHANGED <<c, sts, syms, la, pulled, lastLoc, inp, evs, res, tree>>

RecPreReduce ==  \* reductions triggered by `!` as lookahead
  /\ pc = "rec_pre" /\ Action(TopS, ERR).k = "reduce"
  /\ DoReduce(Action(TopS, ERR).x, "rec_pre", OkRes)
  /\ Tick /\ UNCHANGED <<c, la, pulled, lastLoc, inp, rec>>

RecPreDone ==
  /\ pc = "rec_pre" /\ Action(TopS, ERR).k # "reduce"
  /\ rec' = [rec EXCEPT !.slen = Len(sts)]
  /\ pc' = "rec_find"
  /\ Tick /\ UNCHANGED <<c, sts, syms, la, pulled, lastLoc, inp, evs, res, tree>>

(* 0-based stack positions `top` whose state shifts `!` into a state that
   accepts the lookahead *)
Candidates == {top \in 0..(rec.slen - 1) :
                 /\ Action(sts[top + 1], ERR).k = "shift"
                 /\ Accepts(Append(SubSeq(sts, 1, top + 1), Action(sts[top + 1], ERR).x), la.t) = "yes"}

RecFound ==
  /\ pc = "rec_find" /\ Candidates # {}
  /\ LET top == CHOOSE t \in Candidates : \A u \in Candidates : u <= t
         ndrop == Len(rec.dropped)
         start == IF top < Len(syms) THEN syms[top + 1].lo
                  ELSE IF ndrop > 0 THEN rec.dropped[1][1]
                  ELSE IF top > 0 THEN syms[top].hi ELSE 0
         end == IF ndrop > 0 THEN rec.dropped[ndrop][3]
                ELSE IF rec.slen - 1 > top THEN syms[Len(syms)].hi
                ELSE IF la.t # EOF THEN TokLo(la.k) ELSE start
     IN /\ sts' = Append(SubSeq(sts, 1, top + 1), Action(sts[top + 1], ERR).x)
        /\ syms' = Append(SubSeq(syms, 1, top),
                          [v |-> [error |-> rec.err, dropped |-> rec.dropped], lo |-> start, hi |-> end,
                           tr |-> ErrLeaf(start, end, rec.dropped)])
        /\ pc' = IF la.t # EOF THEN "inner" ELSE "eof"
  /\ rec' = NoRec
  /\ Tick /\ UNCHANGED <<c, la, pulled, lastLoc, inp, evs, res, tree>>

RecDrop ==     \* no candidate: drop the lookahead and read on
  /\ pc = "rec_find" /\ Candidates = {} /\ la.t # EOF
  /\ rec' = [rec EXCEPT !.dropped = Append(@, <<TokLo(la.k), la.k, TokHi(la.k)>>)]
  /\ PullInto("rec_find", "rec_find")
  /\ Tick /\ UNCHANGED <<c, sts, syms, evs, tree>>

RecGiveUp ==
  /\ pc = "rec_find" /\ Candidates = {} /\ la.t = EOF
  /\ res' = rec.err /\ pc' = "done"
  /\ Tick /\ UNCHANGED <<c, sts, syms, la, pulled, lastLoc, inp, rec, evs, tree>>

Next == NextToken \/ Shift \/ Reduce \/ EofReduce \/ Fail
        \/ RecStart \/ RecPreReduce \/ RecPreDone \/ RecFound \/ RecDrop \/ RecGiveUp
Spec == Init /\ [][Next]_vars

(* one record per finished behaviour *)
Emit == pc = "done" =>
          PrintT("@@RUN " \o ToJson([id |-> Cases[c].id, input |-> inp, pulled |-> pulled,
                                    events |-> evs, res |-> res, la |-> la.t, steps |-> steps]))

(* ------------------------------ invariants ------------------------------ *)
StackShape == Len(syms) = Len(sts) - 1

(* C08: the number of driver steps is bounded by a function of the input
   length: between two pulls at most (number of productions + 1) x (stack
   depth + 1) reductions can happen in a conflict-free automaton; the bound
   checked is deliberately generous and linear in the tokens pulled *)
StepBound == steps <= (pulled + 2) * (4 * Len(GC.prods) + 8) * (Cases[c].n + 2)

AcceptsTerminates == pc = "rec_find" => \A t \in 0..(rec.slen - 1) :
                        Action(sts[t + 1], ERR).k = "shift" =>
                          Accepts(Append(SubSeq(sts, 1, t + 1), Action(sts[t + 1], ERR).x), la.t) # "div"

(* ---------------- C16: what a recovered parse must look like ---------------- *)
SymOf(t) == IF t.k = "tok" THEN inp[t.n] ELSE IF t.k = "err" THEN ERR ELSE Lhs(GC, t.p)

RECURSIVE WellFormed(_)
WellFormed(t) == t.k = "node" =>
                   /\ Len(t.kids) = Len(Rhs(GC, t.p))
                   /\ \A i \in DOMAIN t.kids : SymOf(t.kids[i]) = Rhs(GC, t.p)[i] /\ WellFormed(t.kids[i])

RECURSIVE Leaves(_)
Leaves(t) == IF t.k \in {"tok", "err"} THEN <<t>>
             ELSE IF t.kids = <<>> THEN <<>>
             ELSE LET F[i \in 0..Len(t.kids)] == IF i = 0 THEN <<>> ELSE F[i - 1] \o Leaves(t.kids[i])
                  IN F[Len(t.kids)]

Accepted == pc = "done" /\ res.kind = "ok"
TokLeaves == SelectSeq(Leaves(tree), LAMBDA l : l.k = "tok")
ErrLeaves == SelectSeq(Leaves(tree), LAMBDA l : l.k = "err")

(* the tree is a derivation of the grammar when error nodes are read as `!` *)
TreeIsDerivation == Accepted => (tree.k = "node" /\ SymOf(tree) = Rhs(GC, Cases[c].sp)[1] /\ WellFormed(tree))
(* its tokens are a subsequence of the input, in order *)
TokensSubsequence == Accepted => \A i \in 1..(Len(TokLeaves) - 1) : TokLeaves[i].n < TokLeaves[i + 1].n
(* every other input token lies inside the span of exactly one error node *)
InSpan(k, e) == e.lo <= TokLo(k) /\ TokHi(k) <= e.hi
OtherTokensCovered ==
  Accepted => \A k \in 1..Len(inp) :
                (\A i \in DOMAIN TokLeaves : TokLeaves[i].n # k) =>
                   Cardinality({i \in DOMAIN ErrLeaves : InSpan(k, ErrLeaves[i])}) = 1
(* error-node spans are ordered and disjoint (half-open) *)
ErrorSpansOrdered == Accepted => \A i \in 1..(Len(ErrLeaves) - 1) : ErrLeaves[i].hi <= ErrLeaves[i + 1].lo
(* dropped tokens are input tokens, in order *)
DroppedInOrder == Accepted => \A i \in DOMAIN ErrLeaves :
                     LET d == ErrLeaves[i].dropped IN
                     /\ \A j \in DOMAIN d : d[j][2] \in 1..Len(inp) /\ d[j][1] = TokLo(d[j][2]) /\ d[j][3] = TokHi(d[j][2])
                     /\ \A j \in 1..(Len(d) - 1) : d[j][2] < d[j + 1][2]
(* an accepted parse has read the whole input *)
AcceptedReadsAll == Accepted => pulled = Len(inp) /\ la.t = EOF
=============================================================================
