"""Engine `sim`: product simulation of CanonLR (TLA+) with the automaton LALRPOP
built (hook export) -- decides C03 and the automaton level of C01.
"""
import json
import os
import re
from concurrent.futures import ThreadPoolExecutor

import gen
import lp
from vlib import ToolError, log, mkscratch, rmtree, run_tlc, trace_last_state

MODES = {
    "lane": {"lane_table": "default", "attr": ""},
    "lr1": {"lane_table": "disabled", "attr": ""},
    "lalr": {"lane_table": "disabled", "attr": "#[LALR]"},
}

SIM_INVS = {"SimCore", "SimTrans", "SimItemLook", "SimLook", "SimRedDomain", "ADeterministic", "AcceptOnEof"}


def same_productions(g, export):
    mine = sorted((p["lhs"], tuple(p["rhs"])) for p in g["prods"])
    if any("error" in p["rhs"] for p in g["prods"]) and g.get("ts") and "error" not in g["ts"]:
        pass
    eg = lp.export_grammar(export)
    theirs = sorted((p["lhs"], tuple(p["rhs"])) for p in eg["prods"] if not p["lhs"].startswith("__"))
    return mine == theirs


def run_lalrpop(population, modes, workdir, render=None):
    """-> {(gid, mode): lpdrv result}"""
    jobs = []
    for g in population:
        for m in modes:
            d = os.path.join(workdir, "src", m)
            os.makedirs(d, exist_ok=True)
            path = os.path.join(d, g["id"] + ".lalrpop")
            with open(path, "w") as f:
                f.write((render or gen.render_plain)(g, algo_attr=MODES[m]["attr"]))
            jobs.append({"id": g["id"] + "@" + m, "file": path, "lane_table": MODES[m]["lane_table"],
                         "timeout_s": 60})
    res = lp.run_jobs(jobs, workdir)
    return {tuple(k.split("@")): v for k, v in res.items()}


def make_cases(population, results, modes):
    """-> (cases for Sim.tla, other outcomes [(gid, mode, kind, detail)])"""
    cases = []
    other = []
    byid = {g["id"]: g for g in population}
    for (gid, mode), r in sorted(results.items()):
        if mode not in modes:
            continue
        ex = r.get("export") or {}
        if r["status"] in ("panic", "timeout", "abort"):
            other.append((gid, mode, r["status"], r.get("message", "")))
            continue
        if not ex.get("normalized"):
            other.append((gid, mode, "rejected_before_lr", r.get("message", "")))
            continue
        if gid in byid and not same_productions(byid[gid], ex):
            other.append((gid, mode, "normalisation_changed_productions", ""))
            continue
        autos = ex.get("automata", [])
        if r["status"] == "ok" and (len(autos) != len(ex["starts"]) or any(a["verdict"] != "ok" for a in autos)):
            other.append((gid, mode, "ok_without_automaton", ""))
            continue
        if r["status"] == "err" and not (autos and autos[-1]["verdict"] == "conflict"):
            other.append((gid, mode, "error_not_conflict", r.get("message", "")))
            continue
        G = lp.export_grammar(ex)
        for a in autos:
            c = {"id": "%s@%s@%s" % (gid, mode, a["user"]), "G": G, "sp": lp.start_prod(ex, a),
                 "mode": mode, "verdict": a["verdict"],
                 "states": lp.export_automaton(ex, a) if a["verdict"] == "ok" else []}
            cases.append(c)
    return cases, other


def run_mcsim(cases, chunk=1500, parallel=2, workers=8, timeout=1500):
    """-> dict(states, generated, conflicts: set(ids), lalr: {id: bool}, violations: [(inv, id, path)])"""
    out = {"states": 0, "generated": 0, "conflicts": set(), "lalr": {}, "violations": [], "runs": 0, "conflict_paths": {}}
    chunks = [cases[i:i + chunk] for i in range(0, len(cases), chunk)]

    def one(ch):
        wd = mkscratch("mcsim")
        try:
            cf = os.path.join(wd, "cases.json")
            with open(cf, "w") as f:
                json.dump(ch, f)
            r = run_tlc("Sim", "MCSim.cfg", env={"SIM_CASES": cf}, workers=workers, timeout=timeout,
                        cont=True, workdir=wd)
            return ch, r
        finally:
            rmtree(wd)

    with ThreadPoolExecutor(max_workers=parallel) as ex:
        for ch, r in ex.map(one, chunks):
            out["runs"] += 1
            out["states"] += r.distinct
            out["generated"] += r.generated
            for tag, obj in r.prints:
                if tag == "CONFLICT":
                    out["conflicts"].add(obj["id"])
                    out["conflict_paths"].setdefault(obj["id"], obj["path"])
                elif tag == "LALR":
                    out["lalr"][obj["id"]] = bool(obj["lalr1"])
            for v in r.violations:
                st = trace_last_state(v["trace"])
                try:
                    cid = ch[int(st["c"]) - 1]["id"]
                except Exception:
                    raise ToolError("cannot attribute TLC violation %s:\n%s" % (v["name"], v["trace"][-1500:]))
                out["violations"].append((v["name"], cid, st.get("path", "")))
    return out
