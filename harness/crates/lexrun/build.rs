//! Mounts the parsers LALRPOP generated for one run of the lexer checks.
//! LEXRUN_GEN names a directory holding `mods.rs` (written by tools/eng_lexer.py:
//! `#[path = "..."] mod gN;` items plus the `dispatch` function); without it the
//! crate builds with an empty dispatch table, so a plain `cargo build` works.
use std::path::Path;

fn main() {
    println!("cargo:rerun-if-env-changed=LEXRUN_GEN");
    let out = std::env::var("OUT_DIR").expect("OUT_DIR");
    let dst = Path::new(&out).join("mods.rs");
    let default = "pub fn dispatch(_case: &str, _text: &str) -> Option<Outcome> { None }\npub const CASES: &[&str] = &[];\n";
    match std::env::var("LEXRUN_GEN") {
        Ok(dir) if !dir.is_empty() && Path::new(&dir).join("mods.rs").exists() => {
            let src = Path::new(&dir).join("mods.rs");
            println!("cargo:rerun-if-changed={}", src.display());
            std::fs::copy(&src, &dst).expect("copy mods.rs");
        }
        _ => std::fs::write(&dst, default).expect("write mods.rs"),
    }
}
