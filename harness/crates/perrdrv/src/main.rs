//! perrdrv: replays the (value, operation, expected result) records that TLC
//! printed from spec/MCParseErr.tla against the real `lalrpop_util::ParseError`.
//!
//! usage: perrdrv <records.ndjson> <results.ndjson>
//! record: {op, in, out, calls}   (see spec/MCParseErr.tla)
//! result: {i, ok, got, got_calls, why}
//!
//! The maps are the ones the spec names: location l -> 10*l+3, token t -> W(t),
//! error x -> WE(x).  Expected results are only ever read from the records.

use lalrpop_util::ParseError;
use serde_json::{json, Value};
use std::cell::RefCell;
use std::fmt;
use std::io::{BufRead, Write};

#[derive(Clone, Debug, PartialEq)]
struct Tok(String);
#[derive(Clone, Debug, PartialEq)]
struct UErr(String);
#[derive(Clone, Debug, PartialEq)]
struct WTok(Tok);
#[derive(Clone, Debug, PartialEq)]
struct WErr(UErr);

impl fmt::Display for Tok {
    fn fmt(&self, f: &mut fmt::Formatter<'_>) -> fmt::Result {
        f.write_str(&self.0)
    }
}
impl fmt::Display for UErr {
    fn fmt(&self, f: &mut fmt::Formatter<'_>) -> fmt::Result {
        f.write_str(&self.0)
    }
}

trait J {
    fn j(&self) -> Value;
}
impl J for i64 {
    fn j(&self) -> Value {
        json!(*self)
    }
}
impl J for Tok {
    fn j(&self) -> Value {
        json!(self.0)
    }
}
impl J for UErr {
    fn j(&self) -> Value {
        json!(self.0)
    }
}
impl J for WTok {
    fn j(&self) -> Value {
        json!({"w": (self.0).0})
    }
}
impl J for WErr {
    fn j(&self) -> Value {
        json!({"we": (self.0).0})
    }
}

/// the record shape of spec/ParseErr.tla: a span (L, T, L) is start/token/end
fn to_json<L: J, T: J, E: J>(e: &ParseError<L, T, E>) -> Value {
    match e {
        ParseError::InvalidToken { location } => json!({"v": "InvalidToken", "location": location.j()}),
        ParseError::UnrecognizedEof { location, expected } => {
            json!({"v": "UnrecognizedEof", "location": location.j(), "expected": expected})
        }
        ParseError::UnrecognizedToken { token, expected } => {
            json!({"v": "UnrecognizedToken", "start": token.0.j(), "token": token.1.j(), "end": token.2.j(), "expected": expected})
        }
        ParseError::ExtraToken { token } => {
            json!({"v": "ExtraToken", "start": token.0.j(), "token": token.1.j(), "end": token.2.j()})
        }
        ParseError::User { error } => json!({"v": "User", "error": error.j()}),
    }
}

fn strs(v: &Value) -> Result<Vec<String>, String> {
    v.as_array()
        .ok_or("expected: not a list")?
        .iter()
        .map(|s| s.as_str().map(|s| s.to_string()).ok_or_else(|| "expected: not a string".to_string()))
        .collect()
}

fn from_json(v: &Value) -> Result<ParseError<i64, Tok, UErr>, String> {
    let loc = |k: &str| v[k].as_i64().ok_or(format!("no integer field {k}"));
    let tok = || v["token"].as_str().map(|s| Tok(s.to_string())).ok_or("no token".to_string());
    Ok(match v["v"].as_str().ok_or("no variant")? {
        "InvalidToken" => ParseError::InvalidToken { location: loc("location")? },
        "UnrecognizedEof" => ParseError::UnrecognizedEof { location: loc("location")?, expected: strs(&v["expected"])? },
        "UnrecognizedToken" => ParseError::UnrecognizedToken {
            token: (loc("start")?, tok()?, loc("end")?),
            expected: strs(&v["expected"])?,
        },
        "ExtraToken" => ParseError::ExtraToken { token: (loc("start")?, tok()?, loc("end")?) },
        "User" => ParseError::User {
            error: UErr(v["error"].as_str().ok_or("no error")?.to_string()),
        },
        o => return Err(format!("unknown variant {o}")),
    })
}

fn questionmark(x: UErr) -> Result<(), ParseError<i64, Tok, UErr>> {
    Err(x)?;
    Ok(())
}

/// -> (result, arguments the closure was called with)
fn apply(op: &str, input: &Value) -> Result<(Value, Vec<Value>), String> {
    let calls: RefCell<Vec<Value>> = RefCell::new(Vec::new());
    let out = match op {
        "from" => {
            let x = UErr(input["error"].as_str().ok_or("no error")?.to_string());
            let a: ParseError<i64, Tok, UErr> = ParseError::from(x.clone());
            let b: ParseError<i64, Tok, UErr> = x.clone().into();
            let c = questionmark(x).unwrap_err();
            if a != b || a != c {
                return Err("From / Into / ? disagree".to_string());
            }
            to_json(&a)
        }
        "map_location" => to_json(&from_json(input)?.map_location(|l| {
            calls.borrow_mut().push(l.j());
            10 * l + 3
        })),
        "map_token" => to_json(&from_json(input)?.map_token(|t| {
            calls.borrow_mut().push(t.j());
            WTok(t)
        })),
        "map_error" => to_json(&from_json(input)?.map_error(|x| {
            calls.borrow_mut().push(x.j());
            WErr(x)
        })),
        "display" => json!(format!("{}", from_json(input)?)),
        "display_mapped_location" => json!(from_json(input)?.map_location(|l| 10 * l + 3).to_string()),
        o => return Err(format!("unknown operation {o}")),
    };
    Ok((out, calls.into_inner()))
}

fn main() {
    let args: Vec<String> = std::env::args().collect();
    if args.len() != 3 {
        eprintln!("usage: perrdrv <records.ndjson> <results.ndjson>");
        std::process::exit(2);
    }
    let inp = std::io::BufReader::new(std::fs::File::open(&args[1]).expect("open records"));
    let mut out = std::io::BufWriter::new(std::fs::File::create(&args[2]).expect("create results"));
    for (i, line) in inp.lines().enumerate() {
        let line = line.expect("read");
        if line.trim().is_empty() {
            continue;
        }
        let rec: Value = serde_json::from_str(&line).expect("record json");
        let op = rec["op"].as_str().unwrap_or("?").to_string();
        let input = rec["in"].clone();
        let r = std::panic::catch_unwind(move || apply(&op, &input));
        let res = match r {
            Ok(Ok((got, got_calls))) => {
                // "applies the function to every location": the closure saw exactly
                // the values the spec lists (as a multiset; the order is not documented)
                let mut a: Vec<String> = got_calls.iter().map(|v| v.to_string()).collect();
                let mut b: Vec<String> =
                    rec["calls"].as_array().map(|x| x.iter().map(|v| v.to_string()).collect()).unwrap_or_default();
                a.sort();
                b.sort();
                let ok_out = got == rec["out"];
                let ok_calls = a == b;
                json!({"i": i, "ok": ok_out && ok_calls, "got": got, "got_calls": got_calls,
                       "why": if !ok_out {"result differs"} else if !ok_calls {"closure arguments differ"} else {""}})
            }
            Ok(Err(m)) => json!({"i": i, "ok": false, "tool_error": m}),
            Err(_) => json!({"i": i, "ok": false, "why": "panic", "got": null, "got_calls": []}),
        };
        writeln!(out, "{}", res).expect("write");
    }
    out.flush().expect("flush");
}
