------------------------------ MODULE MCLayout ------------------------------
(***************************************************************************)
(* Model instance of Layout: for every base grammar (token lists read from *)
(* IOEnv.LAYOUT_BASES) TLC enumerates                                      *)
(*   uniform k      every gap gets separator k (where legal, else a blank) *)
(*   single (j, k)  gap j gets separator k, the others a blank             *)
(*   pair (j, k, l) (Pairs = TRUE) gaps j and j+1 get separators k and l   *)
(*   vec v          the separator vectors of IOEnv.LAYOUT_VECS             *)
(* and prints the rendered text plus, for every code token, the text that  *)
(* LALRPOP has to emit.                                                    *)
(***************************************************************************)
EXTENDS Layout, Json, IOUtils

CONSTANT Pairs

Bases == JsonDeserialize(IOEnv.LAYOUT_BASES)
Vecs  == JsonDeserialize(IOEnv.LAYOUT_VECS)
NB == Len(Bases)

VARIABLES g, gaps, tag
vars == <<g, gaps, tag>>

T(b) == Bases[b].toks
BaseGaps(b) == [j \in 1..Len(T(b)) + 1 |-> Plain]

Init == /\ g \in 1..NB
        /\ gaps = BaseGaps(g)
        /\ tag = "base"

Uniform(k) == /\ tag' = "uniform"
              /\ gaps' = [j \in 1..Len(T(g)) + 1 |-> IF Legal(T(g), j - 1, k) THEN k ELSE Plain]
Single(j, k) == /\ Legal(T(g), j, k)
                /\ tag' = "single"
                /\ gaps' = [BaseGaps(g) EXCEPT ![j + 1] = k]
Pair(j, k, l) == /\ Pairs
                 /\ Legal(T(g), j, k) /\ Legal(T(g), j + 1, l)
                 /\ tag' = "pair"
                 /\ gaps' = [BaseGaps(g) EXCEPT ![j + 1] = k, ![j + 2] = l]
Vec(v) == /\ Vecs[v].g = g
          /\ Len(Vecs[v].gaps) = Len(T(g)) + 1
          /\ tag' = "vec"
          /\ gaps' = [j \in 1..Len(T(g)) + 1 |->
                        IF Legal(T(g), j - 1, Vecs[v].gaps[j]) THEN Vecs[v].gaps[j] ELSE Plain]

Next == /\ tag = "base"
        /\ g' = g
        /\ \/ \E k \in 1..NSeps : Uniform(k)
           \/ \E j \in 0..Len(T(g)), k \in 1..NSeps : Single(j, k)
           \/ \E j \in 0..Len(T(g)) - 1, k \in 1..NSeps, l \in 1..NSeps : k # Plain /\ l # Plain /\ Pair(j, k, l)
           \/ \E v \in 1..Len(Vecs) : Vec(v)
Spec == Init /\ [][Next]_vars

(* every separator vector TLC builds is legal, and rendering with blanks only
   gives the tokens separated by single blanks *)
AllLegal == \A j \in 0..Len(T(g)) : Legal(T(g), j, gaps[j + 1])

ASSUME PrintT("@@SEPS " \o ToJson(Seps))

Report ==
    PrintT("@@LAYOUT " \o ToJson([g |-> Bases[g].id, tag |-> tag, gaps |-> gaps,
             text |-> Render(T(g), gaps),
             codes |-> [i \in 1..Len(T(g)) |->
                          IF IsCode(T(g)[i])
                          THEN [k |-> T(g)[i].k, lead |-> Lead(T(g), gaps, i), trail |-> Trail(T(g), gaps, i),
                                text |-> ExpectedCode(T(g), gaps, i)]
                          ELSE [k |-> ""]]]))
=============================================================================
