------------------------------ MODULE Grammar ------------------------------
(***************************************************************************)
(* Context-free grammars and the classical fixed points over them.         *)
(*                                                                         *)
(* A grammar G is a record                                                 *)
(*   [ ts    : sequence of terminal names (strings),                       *)
(*     nts   : sequence of nonterminal names (strings, disjoint from ts),  *)
(*     prods : sequence of [lhs : nonterminal, rhs : Seq(symbol)] ]        *)
(* Symbols are strings.  "$" is reserved for end of input.                 *)
(* Everything here is constant level: no behaviour.                        *)
(***************************************************************************)
EXTENDS Integers, Sequences, FiniteSets

EOF == "$"

Range(f) == {f[i] : i \in DOMAIN f}

TSet(G)  == Range(G.ts)
NtSet(G) == Range(G.nts)
PIdx(G)  == 1..Len(G.prods)
Lhs(G, p) == G.prods[p].lhs
Rhs(G, p) == G.prods[p].rhs
ProdsOf(G, A) == {p \in PIdx(G) : Lhs(G, p) = A}

(* ---- nullable nonterminals: least fixed point ---- *)
RECURSIVE NullFix(_, _)
NullFix(G, N) ==
  LET N2 == N \cup {Lhs(G, p) : p \in {q \in PIdx(G) :
                        \A i \in 1..Len(Rhs(G, q)) : Rhs(G, q)[i] \in N}}
  IN IF N2 = N THEN N ELSE NullFix(G, N2)
Nullable(G) == NullFix(G, {})

RECURSIVE SeqNullable(_, _)
SeqNullable(N, w) == IF w = <<>> THEN TRUE
                     ELSE Head(w) \in N /\ SeqNullable(N, Tail(w))

(* ---- FIRST sets: least fixed point ---- *)
RECURSIVE FirstOfSeq(_, _, _, _)
FirstOfSeq(G, F, N, w) ==
  IF w = <<>> THEN {}
  ELSE LET x == Head(w) IN
       IF x \in DOMAIN F
       THEN F[x] \cup (IF x \in N THEN FirstOfSeq(G, F, N, Tail(w)) ELSE {})
       ELSE {x}

RECURSIVE FirstFix(_, _, _)
FirstFix(G, N, F) ==
  LET F2 == [A \in NtSet(G) |->
               F[A] \cup UNION {FirstOfSeq(G, F, N, Rhs(G, p)) : p \in ProdsOf(G, A)}]
  IN IF F2 = F THEN F ELSE FirstFix(G, N, F2)
First(G) == FirstFix(G, Nullable(G), [A \in NtSet(G) |-> {}])

(* Precomputed data used by the LR construction *)
Pre(G) == [null |-> Nullable(G), first |-> First(G)]

(* ---- productive / reachable / reduced ---- *)
RECURSIVE ProdFix(_, _)
ProdFix(G, S) ==
  LET S2 == S \cup {Lhs(G, p) : p \in {q \in PIdx(G) :
                       \A i \in 1..Len(Rhs(G, q)) :
                          Rhs(G, q)[i] \in S \/ Rhs(G, q)[i] \in TSet(G)}}
  IN IF S2 = S THEN S ELSE ProdFix(G, S2)
Productive(G) == ProdFix(G, {})

RECURSIVE ReachFix(_, _)
ReachFix(G, S) ==
  LET S2 == S \cup {x \in NtSet(G) : \E p \in PIdx(G) :
                      Lhs(G, p) \in S /\ \E i \in 1..Len(Rhs(G, p)) : Rhs(G, p)[i] = x}
  IN IF S2 = S THEN S ELSE ReachFix(G, S2)
Reachable(G, start) == ReachFix(G, {start})

(* every nonterminal reachable from `start` derives some terminal string *)
Reduced(G, start) == Reachable(G, start) \subseteq Productive(G)
=============================================================================
