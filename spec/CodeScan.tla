------------------------------ MODULE CodeScan ------------------------------
(***************************************************************************)
(* Where the Rust code of an action ends (property C26).                   *)
(*                                                                         *)
(* The LALRPOP book: an action is `=> code`, and the code extends up to    *)
(* the `,`, `;` or closing `)` `]` `}` that ends the alternative -- that   *)
(* is, the first such character that is not nested inside a delimiter      *)
(* pair opened by the code itself.  What "a character of the code" means   *)
(* is fixed by the lexical structure of Rust (The Rust Reference, Tokens   *)
(* and Comments): delimiters, commas, semicolons, quotes and backslashes   *)
(* that occur INSIDE a string literal, raw string literal, character or    *)
(* byte literal or comment are part of that literal or comment; a          *)
(* lifetime 'a is one token and does not open a character literal; block   *)
(* comments nest; a line comment runs to the end of its line.              *)
(*                                                                         *)
(* The module is therefore written over sequences of Rust lexical ITEMS.   *)
(* An item is a record                                                     *)
(*    t  its text                                                          *)
(*    k  "open" | "close" | "comma" | "semi"     the structural items      *)
(*       | "lit"      string, raw string, char, byte literal               *)
(*       | "life"     lifetime                                             *)
(*       | "lcomment" | "bcomment"                                         *)
(*       | "other"    identifier, number, operator                         *)
(*    b  for open/close: which pair ("paren" | "brack" | "brace"), else "" *)
(*    v  for literals: the string the literal denotes, else ""             *)
(* The catalogue of concrete items is a constant (see MCCodeScan).         *)
(***************************************************************************)
EXTENDS Integers, Sequences, TLC

CONSTANT Items        \* sequence of item records; bodies are sequences of indices into it

Kind(i) == Items[i].k
Structural(i) == Kind(i) \in {"open", "close", "comma", "semi"}

(* Number of items that belong to the action when the items `s` follow   *)
(* `=>`: everything before the first `,` `;` or closer at nesting depth 0. *)
(* -1: the text ends inside an open delimiter (no action can be formed).   *)
RECURSIVE Scan(_, _, _)
Scan(s, i, depth) ==
    IF i > Len(s) THEN (IF depth = 0 THEN Len(s) ELSE -1)
    ELSE LET k == Kind(s[i]) IN
         IF k = "open" THEN Scan(s, i + 1, depth + 1)
         ELSE IF k = "close" THEN (IF depth = 0 THEN i - 1 ELSE Scan(s, i + 1, depth - 1))
         ELSE IF k \in {"comma", "semi"} /\ depth = 0 THEN i - 1
         ELSE Scan(s, i + 1, depth)    \* literals, lifetimes, comments, other: opaque

ActionLen(s) == Scan(s, 1, 0)

(* a body is Rust-like when its delimiters pair up by kind *)
RECURSIVE Nest(_, _, _)
Nest(s, i, stack) ==
    IF i > Len(s) THEN stack = <<>>
    ELSE LET it == Items[s[i]] IN
         IF it.k = "open" THEN Nest(s, i + 1, <<it.b>> \o stack)
         ELSE IF it.k = "close" THEN stack # <<>> /\ Head(stack) = it.b /\ Nest(s, i + 1, Tail(stack))
         ELSE Nest(s, i + 1, stack)
WellNested(s) == Nest(s, 1, <<>>)

(* ------------------------------- rendering ------------------------------ *)
(* White space between tokens is insignificant; two renderings are used:  *)
(* spaced (one blank between items) and tight (no blank next to a          *)
(* structural item).  A line comment is followed by a line break.          *)
Glue(i, j, tight) ==
    IF Kind(i) = "lcomment" THEN "\n"
    ELSE IF tight /\ (Structural(i) \/ Structural(j)) THEN "" ELSE " "

RECURSIVE TextFrom(_, _, _)
TextFrom(s, i, tight) ==
    IF i > Len(s) THEN ""
    ELSE IF i = Len(s) THEN Items[s[i]].t
    ELSE Items[s[i]].t \o Glue(s[i], s[i + 1], tight) \o TextFrom(s, i + 1, tight)
Text(s, tight) == TextFrom(s, 1, tight)

(* the Rust tokens the body consists of: comments are not tokens *)
IsToken(i) == Kind(i) \notin {"lcomment", "bcomment"}
Tokens(s) == SelectSeq(s, IsToken)
TokenRecord(i) == [t |-> Items[i].t, k |-> Items[i].k, v |-> Items[i].v]
=============================================================================
