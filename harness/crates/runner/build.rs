fn main() {
    println!("cargo:rerun-if-env-changed=VERIF_GEN_DIR");
    if let Ok(d) = std::env::var("VERIF_GEN_DIR") {
        println!("cargo:rerun-if-changed={}/mods.rs", d);
    }
}
