"""Engine `core` (compiled route): annotated core grammars -> Sem.tla (TLC gives,
for every input up to a bound, the expected result) -> real LALRPOP -> rustc ->
run every input through the generated parsers -> compare.

Serves C01, C02, C04, C05, C06, C07, C08 (parser half), C17, C19.
"""
import hashlib
import json
import os
import random
import subprocess

import core
import gen
import lp
import vlib
from vlib import HARNESS, TARGET, ToolError, cargo_env, log, mkscratch, rmtree, run_tlc

VARIANTS_ALL = [(a, b) for a in ("lane", "lr1", "lalr") for b in ("table", "ascent")]


# --------------------------------------------------------------------------
# expected behaviour from the specification
# --------------------------------------------------------------------------
def run_eval(cases, chunk=40, workers=8, timeout=1500, parallel=2):
    """-> ({case id: [replay records]}, states, generated); a case the spec finds
    not LR(1) has no records and is listed in run_eval.not_lr1"""
    from concurrent.futures import ThreadPoolExecutor
    recs = {}
    lr1 = {}
    reduced = {}
    types = {}
    tot = [0, 0]
    chunks = [cases[i:i + chunk] for i in range(0, len(cases), chunk)]

    def one(ch):
        wd = mkscratch("eval")
        try:
            cf = os.path.join(wd, "cases.json")
            with open(cf, "w") as f:
                json.dump(ch, f)
            return run_tlc("Sem", "MCEval.cfg", env={"EVAL_CASES": cf}, workers=workers, timeout=timeout, workdir=wd)
        finally:
            rmtree(wd)

    with ThreadPoolExecutor(max_workers=parallel) as ex:
        for r in ex.map(one, chunks):
            if r.violations:
                raise ToolError("Sem.tla violates its own invariant %s:\n%s" % (r.violations[0]["name"], r.violations[0]["trace"][-2000:]))
            tot[0] += r.distinct
            tot[1] += r.generated
            for tag, obj in r.prints:
                if tag == "REPLAY":
                    recs.setdefault(obj["id"], []).append(obj)
                elif tag == "TYPES":
                    types[obj["id"]] = obj["types"]
                elif tag == "LR1":
                    lr1[obj["id"]] = bool(obj["lr1"])
                    reduced[obj["id"]] = bool(obj["reduced"])
    run_eval.lr1 = lr1
    run_eval.reduced = reduced
    run_eval.types = types
    return recs, tot[0], tot[1]


def run_machine(cases, chunk=60, workers=8, timeout=1800, parallel=2):
    """LRMachine.tla over exported tables: -> ({case id: [records]}, states, generated, violations)"""
    from concurrent.futures import ThreadPoolExecutor
    recs = {}
    viol = []
    tot = [0, 0]
    chunks = [cases[i:i + chunk] for i in range(0, len(cases), chunk)]

    def one(ch):
        wd = mkscratch("run")
        try:
            cf = os.path.join(wd, "cases.json")
            with open(cf, "w") as f:
                json.dump(ch, f)
            return ch, run_tlc("LRMachine", "MCRun.cfg", env={"RUN_CASES": cf}, workers=workers, timeout=timeout,
                               workdir=wd, cont=True)
        finally:
            rmtree(wd)

    with ThreadPoolExecutor(max_workers=parallel) as ex:
        for ch, r in ex.map(one, chunks):
            tot[0] += r.distinct
            tot[1] += r.generated
            for tag, obj in r.prints:
                if tag == "RUN":
                    recs.setdefault(obj["id"], []).append(obj)
            for v in r.violations:
                st = vlib.trace_last_state(v["trace"])
                try:
                    cid = ch[int(st["c"]) - 1]["id"]
                except Exception:
                    raise ToolError("cannot attribute LRMachine violation %s:\n%s" % (v["name"], v["trace"][-1500:]))
                viol.append({"inv": v["name"], "id": cid, "inp": st.get("inp", ""), "res": st.get("res", "")[:300]})
    return recs, tot[0], tot[1], viol


def run_trace(cases, chunk=150, workers=4, timeout=1800, parallel=3):
    """TraceLR.tla: validate recorded driver traces. -> (set of accepted ids, {id: stuck record}, states, violations)"""
    from concurrent.futures import ThreadPoolExecutor
    ok, stuck, viol = set(), {}, []
    tot = [0]
    chunks = [cases[i:i + chunk] for i in range(0, len(cases), chunk)]

    def one(ch):
        wd = mkscratch("trace")
        try:
            cf = os.path.join(wd, "cases.json")
            with open(cf, "w") as f:
                json.dump(ch, f)
            return ch, run_tlc("TraceLR", "TraceLR.cfg", env={"RUN_CASES": cf}, workers=workers, timeout=timeout,
                               workdir=wd, cont=True)
        finally:
            rmtree(wd)

    with ThreadPoolExecutor(max_workers=parallel) as ex:
        for ch, r in ex.map(one, chunks):
            tot[0] += r.distinct
            for tag, obj in r.prints:
                if tag == "TRACEOK":
                    ok.add(obj["id"])
                elif tag == "STUCK":
                    stuck.setdefault(obj["id"], obj)
            for v in r.violations:
                st = vlib.trace_last_state(v["trace"])
                try:
                    cid = ch[int(st["c"]) - 1]["id"]
                except Exception:
                    raise ToolError("cannot attribute TraceLR violation %s:\n%s" % (v["name"], v["trace"][-1500:]))
                viol.append({"inv": v["name"], "id": cid})
    return ok, stuck, tot[0], viol


# --------------------------------------------------------------------------
# real code: lalrpop + rustc + run
# --------------------------------------------------------------------------
def modname(gid, algo, backend):
    return "%s_%s_%s" % (gid, algo, backend)


def generate(cgs, variants_of, workdir, render=None):
    """run LALRPOP for every (grammar, variant); -> {module name: lpdrv result + path}"""
    jobs = []
    src = os.path.join(workdir, "src")
    os.makedirs(src, exist_ok=True)
    for cg in cgs:
        for algo, backend in variants_of(cg):
            m = modname(cg["id"], algo, backend)
            path = os.path.join(src, m + ".lalrpop")
            rfn = render or core.render
            if cg.get("sugar"):
                import sugar
                rfn = sugar.render
            with open(path, "w") as f:
                f.write(rfn(cg, algo, backend))
            job = {"id": m, "file": path, "lane_table": core.ALGOS[algo][1], "timeout_s": 120}
            if cg.get("cfg"):
                job["features"] = list(cg.get("features", []))
            jobs.append(job)
    res = lp.run_jobs(jobs, workdir)
    for m, r in res.items():
        r["rs"] = os.path.join(src, m + ".rs")
    return res


def write_mods(gen_dir, modules):
    """modules: [(module name, rs path, [start nonterminal | (start, parser type prefix, extra parse args)])]"""
    os.makedirs(gen_dir, exist_ok=True)
    out = ["pub const MODULES: &[&str] = &[%s];" % ", ".join('"%s"' % m for m, _, _ in modules)]
    for m, rs, _ in modules:
        out.append('#[path = "%s"] pub mod %s;' % (rs, m))
    out.append("pub fn dispatch(m: &str, start: &str, s: crate::rt::Stream) -> Option<serde_json::Value> {")
    out.append("    match (m, start) {")
    for m, _, starts in modules:
        for st in starts:
            key, ty, args = (st, st, "") if isinstance(st, str) else st
            out.append('        ("%s", "%s") => Some(crate::rt::finish(%s::%sParser::new().parse(%ss))),' % (m, key, m, ty, args))
    out.append("        _ => None,")
    out.append("    }")
    out.append("}")
    with open(os.path.join(gen_dir, "mods.rs"), "w") as f:
        f.write("\n".join(out) + "\n")


def build_runner(gen_dir, target_sub):
    """compile the runner against gen_dir; -> (ok, stderr, binary path)"""
    env = cargo_env()
    env["VERIF_GEN_DIR"] = gen_dir
    tdir = os.path.join(TARGET, target_sub)
    cmd = ["cargo", "build", "--offline", "-q", "-p", "runner", "--target-dir", tdir]
    r = subprocess.run(cmd, cwd=HARNESS, env=env, capture_output=True, text=True)
    return r.returncode == 0, r.stderr, os.path.join(tdir, "debug", "runner")


def build_runner_isolating(modules, gen_root, target_sub):
    """build; when rustc fails, attribute the failure to modules (C19) and
    rebuild without them. -> (binary, [modules that do not compile: (m, stderr)])"""
    bad = []
    mods = list(modules)
    for attempt in range(6):
        gen_dir = os.path.join(gen_root, "a%d" % attempt)
        write_mods(gen_dir, mods)
        ok, err, binp = build_runner(gen_dir, target_sub)
        if ok:
            return binp, bad
        culprits = set()
        for m, rs, _ in mods:
            if rs in err or ("mod %s" % m) in err or (m + "::") in err:
                culprits.add(m)
        if not culprits:
            raise ToolError("runner does not compile and no generated module is implicated:\n" + err[-3000:])
        for m in culprits:
            bad.append((m, _excerpt(err, m)))
        mods = [x for x in mods if x[0] not in culprits]
    raise ToolError("runner still does not compile after isolating modules")


def _excerpt(err, m):
    i = err.find(m)
    return err[max(0, i - 600): i + 900]


def run_requests(binary, requests, workdir, procs=12):
    """-> {rid: outcome}"""
    from concurrent.futures import ThreadPoolExecutor
    if not requests:
        return {}
    procs = max(1, min(procs, len(requests) // 200 + 1))
    chunks = [requests[i::procs] for i in range(procs)]

    def one(t):
        idx, ch = t
        rq = os.path.join(workdir, "rq-%d.ndjson" % idx)
        oc = os.path.join(workdir, "oc-%d.ndjson" % idx)
        with open(rq, "w") as f:
            for r in ch:
                f.write(json.dumps(r) + "\n")
        skip = 0
        for _ in range(50):
            p = subprocess.run([binary, rq, oc, str(skip)], capture_output=True)
            n = sum(1 for _ in open(oc)) if os.path.exists(oc) else 0
            if p.returncode == 0:
                break
            if p.returncode == 3:  # watchdog: continue after the offending request
                skip = n
                continue
            # crashed (abort / stack overflow ...): record and continue after it
            with open(oc, "a") as f:
                f.write(json.dumps({"rid": ch[n]["rid"], "crash": p.returncode}) + "\n")
            skip = n + 1
        out = {}
        with open(oc) as f:
            for line in f:
                o = json.loads(line)
                out[o["rid"]] = o
        return out

    res = {}
    with ThreadPoolExecutor(max_workers=procs) as ex:
        for o in ex.map(one, enumerate(chunks)):
            res.update(o)
    # a time-out under machine load is not a hang: repeat each one alone with a generous budget
    slow = [r for r in requests if "timeout" in res.get(r["rid"], {})]
    for k, r in enumerate(slow[:50]):
        rq = os.path.join(workdir, "rq-slow-%d.ndjson" % k)
        oc = os.path.join(workdir, "oc-slow-%d.ndjson" % k)
        with open(rq, "w") as f:
            f.write(json.dumps(r) + "\n")
        env = dict(os.environ)
        env["VERIF_PARSE_BUDGET_MS"] = "60000"
        subprocess.run([binary, rq, oc, "0"], capture_output=True, env=env)
        if os.path.exists(oc):
            with open(oc) as f:
                for line in f:
                    o = json.loads(line)
                    res[o["rid"]] = o
    return res


# --------------------------------------------------------------------------
# comparison
# --------------------------------------------------------------------------
def is_loc(x):
    return isinstance(x, int) and not isinstance(x, bool) and (x == 0 or x >= 10)


def mask_locs(v):
    if isinstance(v, list):
        return [mask_locs(x) for x in v]
    return "L" if is_loc(v) else v


def term_of_expected(s):
    """expected-token strings are the terminals as written: "a" with quotes"""
    return s[1:-1] if len(s) >= 2 and s[0] == '"' and s[-1] == '"' else s


def compare(rec, oc, algo, backend, suffixed):
    """-> list of (property, kind, detail) disagreements between the spec's
    record and the real outcome of one parse"""
    out = []
    res = rec["res"]
    kind = res["kind"]
    if "panic" in oc or "timeout" in oc or "crash" in oc:
        what = "panic" if "panic" in oc else "timeout" if "timeout" in oc else "crash"
        return [("C08", what, str(oc.get("panic", "")))]
    if oc.get("nomodule"):
        raise ToolError("runner has no module for a request")
    exp_events = [e[0] for e in rec["events"]]
    got_events = [e[0] for e in oc["events"]]
    canonical = algo == "lr1"
    if kind == "ok":
        if not oc["ok"]:
            return [("C01", "sentence_rejected", json.dumps(oc["error"]))]
        if oc["value"] != res["value"]:
            if mask_locs(oc["value"]) == mask_locs(res["value"]):
                out.append(("C06", "location_value", "expected %s got %s" % (json.dumps(res["value"]), json.dumps(oc["value"]))))
            else:
                out.append(("C02", "value", "expected %s got %s" % (json.dumps(res["value"]), json.dumps(oc["value"]))))
        if got_events != exp_events:
            out.append(("C02", "action_order", "expected %s got %s" % (exp_events, got_events)))
        return out
    # the spec rejects / stops with an error
    if oc["ok"]:
        if kind in ("tok", "eof"):
            return [("C01", "nonsentence_accepted", json.dumps(oc["value"]))]
        return [("C17", "error_swallowed", kind)]
    err = oc["error"]
    if kind in ("tok", "eof"):
        if err["kind"] == "extra":
            out.append(("C04", "extra_token", json.dumps(err)))
            return out
        if err["kind"] == "user":
            # an action ran on a non-viable prefix and failed before the error was seen: only
            # non-canonical automata may do that (extra reductions)
            if canonical:
                out.append(("C04", "user_error_before_syntax_error_canonical", json.dumps(err)))
            return out
        if err["kind"] != kind:
            out.append(("C04", "wrong_error_variant", "expected %s got %s" % (kind, json.dumps(err))))
            return out
        if kind == "tok":
            if (err["k"], err["lo"], err["hi"]) != (res["k"], res["lo"], res["hi"]):
                out.append(("C04", "wrong_error_token", "expected token %s got %s" % (res["k"], json.dumps(err))))
            if oc["pulled"] != res["k"]:
                out.append(("C04", "read_past_error", "pulled %d, error token is %d" % (oc["pulled"], res["k"])))
        else:
            if err["loc"] != res["loc"]:
                out.append(("C04", "wrong_eof_location", "expected %s got %s" % (res["loc"], err["loc"])))
        exp = [term_of_expected(s) for s in err["expected"]]
        valid = set(res["valid"]) - {"$"}
        if len(exp) != len(set(exp)):
            out.append(("C05", "duplicate_expected", str(exp)))
        if "!" in exp or "error" in exp:
            out.append(("C05", "error_terminal_listed", str(exp)))
        extra = sorted(set(exp) - valid)
        if extra:
            out.append(("C05", "overbroad_expected", "lists %s, valid continuations are %s" % (extra, sorted(valid))))
        if canonical and set(exp) != valid:
            missing = sorted(valid - set(exp))
            if missing:
                out.append(("C05", "incomplete_expected_canonical", "misses %s" % missing))
        if canonical and got_events != exp_events:
            out.append(("C04", "actions_before_error_canonical", "expected %s got %s" % (exp_events, got_events)))
        return out
    if kind == "user":
        if err["kind"] != "user" or err["tag"] != res["tag"]:
            out.append(("C17", "wrong_user_error", "expected User(%s) got %s" % (res["tag"], json.dumps(err))))
            return out
        if got_events != exp_events:
            out.append(("C17", "actions_after_error", "expected %s got %s" % (exp_events, got_events)))
        if oc["pulled"] != rec["pulled"]:
            out.append(("C17", "read_after_action_error", "pulled %d expected %d" % (oc["pulled"], rec["pulled"])))
        return out
    if kind == "inj":
        tag = 900 + res["at"]
        if err["kind"] != "user" or err["tag"] != tag:
            out.append(("C17", "wrong_stream_error", "expected User(%s) got %s" % (tag, json.dumps(err))))
            return out
        if got_events != exp_events:
            out.append(("C17", "actions_after_stream_error", "expected %s got %s" % (exp_events, got_events)))
        if oc["pulled"] != res["at"]:
            out.append(("C17", "read_after_stream_error", "pulled %d expected %d" % (oc["pulled"], res["at"])))
        return out
    raise ToolError("unknown record kind %r" % kind)


def parse_rust_type(s):
    """a type as LALRPOP prints it -> the term notation of Types.tla (None if outside the fragment)"""
    s = s.strip()
    pos = [0]

    def ws():
        while pos[0] < len(s) and s[pos[0]] == " ":
            pos[0] += 1

    def ty():
        ws()
        if s.startswith("(", pos[0]):
            pos[0] += 1
            items = []
            ws()
            while not s.startswith(")", pos[0]):
                items.append(ty())
                ws()
                if s.startswith(",", pos[0]):
                    pos[0] += 1
                ws()
            pos[0] += 1
            return ["unit"] if not items else ["tuple"] + items
        if s.startswith("&", pos[0]):
            pos[0] += 1
            ws()
            if s.startswith("'", pos[0]):
                pos[0] += 1
                while pos[0] < len(s) and (s[pos[0]].isalnum() or s[pos[0]] == "_"):
                    pos[0] += 1
            return ["ref", ty()]
        j = pos[0]
        while pos[0] < len(s) and (s[pos[0]].isalnum() or s[pos[0]] in "_:"):
            pos[0] += 1
        path = s[j:pos[0]].lstrip(":")
        args = []
        ws()
        if s.startswith("<", pos[0]):
            pos[0] += 1
            while True:
                args.append(ty())
                ws()
                if s.startswith(",", pos[0]):
                    pos[0] += 1
                    continue
                break
            ws()
            if not s.startswith(">", pos[0]):
                raise ValueError(s)
            pos[0] += 1
        last = path.split("::")[-1]
        if last == "Vec" and len(args) == 1:
            return ["vec", args[0]]
        if last == "Option" and len(args) == 1:
            return ["opt", args[0]]
        if last == "Box" and len(args) == 1:
            return ["box", args[0]]
        if last == "ErrorRecovery":
            return ["recovery"]
        if last in ("V", "usize") and not args:
            return [last]
        raise ValueError(s)

    try:
        t = ty()
        ws()
        return t if pos[0] == len(s) else None
    except (ValueError, IndexError):
        return None


def norm_nt_name(n):
    return n.replace('"', "").replace(" ", "")


def compare_types(spec_types, export):
    """-> list of (nonterminal, spec type, LALRPOP's type string) that differ"""
    theirs = {norm_nt_name(n): t for n, t in zip(export["nonterminals"], export["types"])}
    out = []
    for e in spec_types:
        n = norm_nt_name(e["nt"])
        if n not in theirs or theirs[n] is None:
            continue          # (the expansion of inlined sugar may not keep every nonterminal)
        got = parse_rust_type(theirs[n])
        if got is None:
            continue
        if got != _jsonable(e["ty"]):
            out.append((e["nt"], e["ty"], theirs[n]))
    return out


def _jsonable(t):
    return [(_jsonable(x) if isinstance(x, list) else x) for x in t]


def norm_expected(x):
    """expected-token strings of the real code are the terminals as written"""
    if isinstance(x, dict):
        return {k: ([term_of_expected(s) for s in v] if k == "expected" else norm_expected(v)) for k, v in x.items()}
    if isinstance(x, list):
        return [norm_expected(v) for v in x]
    return x


def compare_exact(rec, oc, recovery):
    """LRMachine.tla predicts the table-driven / ascent parser exactly"""
    if "panic" in oc or "timeout" in oc or "crash" in oc:
        what = "panic" if "panic" in oc else "timeout" if "timeout" in oc else "crash"
        return [("C08", what, str(oc.get("panic", "")))]
    res = rec["res"]
    kind = res["kind"]
    out = []
    own = "C16" if recovery else None
    ev_exp = [list(e) for e in rec["events"]]
    ev_got = [list(e) for e in oc["events"]]
    if kind == "ok":
        if not oc["ok"]:
            return [(own or "C01", "model_accepts_code_rejects", json.dumps(oc["error"])[:300])]
        if norm_expected(oc["value"]) != res["value"]:
            p = own or ("C06" if mask_locs(oc["value"]) == mask_locs(res["value"]) else "C02")
            out.append((p, "value_differs_from_model", "model %s code %s" % (json.dumps(res["value"])[:300], json.dumps(oc["value"])[:300])))
        if ev_got != ev_exp:
            out.append((own or "C02", "action_log_differs_from_model", "model %s code %s" % (ev_exp, ev_got)))
        if oc["pulled"] != rec["pulled"]:
            out.append((own or "C04", "pull_count_differs_from_model", "model %s code %s" % (rec["pulled"], oc["pulled"])))
        return out
    if oc["ok"]:
        return [(own or ("C17" if kind in ("user", "inj") else "C01"), "model_rejects_code_accepts", json.dumps(oc["value"])[:300])]
    err = norm_expected(oc["error"])
    if kind in ("tok", "eof", "extra"):
        exp = {k: v for k, v in res.items()}
        e2 = {k: v for k, v in err.items() if k != "expected"}
        x2 = {k: v for k, v in exp.items() if k != "expected"}
        if e2 != x2:
            out.append((own or "C04", "error_differs_from_model", "model %s code %s" % (json.dumps(x2), json.dumps(e2))))
        elif kind != "extra" and err.get("expected") != exp.get("expected"):
            out.append((own or "C05", "expected_differs_from_model", "model %s code %s" % (exp.get("expected"), err.get("expected"))))
    elif kind == "user":
        if err.get("kind") != "user" or err.get("tag") != res["tag"]:
            out.append(("C17", "user_error_differs_from_model", json.dumps(err)))
    elif kind == "inj":
        if err.get("kind") != "user" or err.get("tag") != 900 + res["at"]:
            out.append(("C17", "stream_error_differs_from_model", json.dumps(err)))
    if ev_got != ev_exp:
        out.append((own or ("C17" if kind in ("user", "inj") else "C04"), "action_log_differs_from_model",
                    "model %s code %s" % (ev_exp, ev_got)))
    if oc["pulled"] != (res["at"] if kind == "inj" else rec["pulled"]):
        out.append((own or ("C17" if kind in ("user", "inj") else "C04"), "pull_count_differs_from_model",
                    "model %s code %s" % (rec["pulled"], oc["pulled"])))
    return out


def same_result(a, b):
    """C07: equal Ok value, or same variant / token / location / user error (expected lists excluded)"""
    if any(k in a or k in b for k in ("panic", "timeout", "crash")):
        return True  # C08's business
    if a["ok"] != b["ok"]:
        return False
    if a["ok"]:
        return a["value"] == b["value"]
    ea = {k: v for k, v in a["error"].items() if k != "expected"}
    eb = {k: v for k, v in b["error"].items() if k != "expected"}
    return ea == eb
