//! One configured call of the public API, in this process or in a child process.
use serde_json::{json, Value};
use std::io::Write;
use std::os::unix::process::ExitStatusExt;
use std::path::Path;
use std::process::{Command, Stdio};

/// call: {call: process_file|process_dir|process|process_current_dir|process_root|process_src,
///        arg, set_in_dir, set_out_dir, cargo_conventions, in_source, force, rerun,
///        comments, whitespace, report, features}
pub fn run_call(c: &Value) -> Result<(), String> {
    let mut cfg = lalrpop::Configuration::new();
    cfg.log_quiet();
    cfg.never_use_colors();
    if c["cargo_conventions"].as_bool().unwrap_or(false) {
        cfg.use_cargo_dir_conventions();
    }
    if c["in_source"].as_bool().unwrap_or(false) {
        cfg.generate_in_source_tree();
    }
    if let Some(d) = c["set_in_dir"].as_str() {
        cfg.set_in_dir(d);
    }
    if let Some(d) = c["set_out_dir"].as_str() {
        cfg.set_out_dir(d);
    }
    if let Some(b) = c["force"].as_bool() {
        cfg.force_build(b);
    }
    if let Some(b) = c["rerun"].as_bool() {
        cfg.emit_rerun_directives(b);
    }
    if let Some(b) = c["comments"].as_bool() {
        cfg.emit_comments(b);
    }
    if let Some(b) = c["whitespace"].as_bool() {
        cfg.emit_whitespace(b);
    }
    if let Some(b) = c["report"].as_bool() {
        cfg.emit_report(b);
    }
    if let Some(fs) = c["features"].as_array() {
        cfg.set_features(fs.iter().map(|f| f.as_str().unwrap_or("").to_string()));
    }
    let arg = c["arg"].as_str().unwrap_or("");
    let r = match c["call"].as_str().unwrap_or("") {
        "process_file" => cfg.process_file(arg),
        "process_dir" => cfg.process_dir(arg),
        "process" => cfg.process(),
        "process_current_dir" => cfg.process_current_dir(),
        "process_root" => lalrpop::process_root(),
        "process_src" => lalrpop::process_src(),
        other => return Err(format!("fsdrv: unknown call {other}")),
    };
    r.map_err(|e| e.to_string())
}

/// (status ok|err|panic, message)
pub fn run_call_caught(c: &Value) -> (String, String) {
    let c2 = c.clone();
    let r = std::panic::catch_unwind(move || run_call(&c2));
    let _ = std::io::stdout().flush();
    match r {
        Ok(Ok(())) => ("ok".into(), String::new()),
        Ok(Err(m)) => ("err".into(), m),
        Err(p) => (
            "panic".into(),
            p.downcast_ref::<String>()
                .cloned()
                .or_else(|| p.downcast_ref::<&str>().map(|s| s.to_string()))
                .unwrap_or_else(|| "panic".to_string()),
        ),
    }
}

/// child process: {call, cwd, env: {k: v|null}, fsize_limit}
pub fn child_main(arg: &str) {
    let j: Value = serde_json::from_str(arg).expect("child json");
    if let Some(d) = j["cwd"].as_str() {
        std::env::set_current_dir(d).expect("cwd");
    }
    if let Some(m) = j["env"].as_object() {
        for (k, v) in m {
            match v.as_str() {
                Some(s) => std::env::set_var(k, s),
                None => std::env::remove_var(k),
            }
        }
    }
    if let Some(l) = j["fsize_limit"].as_u64() {
        unsafe {
            libc::signal(libc::SIGXFSZ, libc::SIG_IGN);
            let rl = libc::rlimit { rlim_cur: l as libc::rlim_t, rlim_max: l as libc::rlim_t };
            if libc::setrlimit(libc::RLIMIT_FSIZE, &rl) != 0 {
                eprintln!("fsdrv: setrlimit failed");
                std::process::exit(2);
            }
        }
    }
    let (status, message) = run_call_caught(&j["call"]);
    println!("@@RESULT {}", json!({"status": status, "message": message}));
    let _ = std::io::stdout().flush();
    std::process::exit(match status.as_str() {
        "ok" => 0,
        "err" => 1,
        _ => 101,
    });
}

pub struct ChildOutcome {
    pub status: String, // ok | err | panic | abort | signal | timeout | lost
    pub message: String,
    pub stdout: String,
}

/// run one call in a child process of this executable
pub fn spawn_child(call: &Value, cwd: Option<&Path>, env: &Value, crash_point: Option<&str>, fsize_limit: Option<u64>) -> ChildOutcome {
    let exe = std::env::current_exe().expect("current_exe");
    let j = json!({"call": call, "cwd": cwd.map(|p| p.to_string_lossy().to_string()), "env": env, "fsize_limit": fsize_limit});
    let mut cmd = Command::new(exe);
    cmd.arg("child").arg(j.to_string()).stdin(Stdio::null()).stdout(Stdio::piped()).stderr(Stdio::piped());
    cmd.env_remove("LALRPOP_VERIF_CRASH");
    if let Some(p) = crash_point {
        cmd.env("LALRPOP_VERIF_CRASH", p);
    }
    let child = cmd.spawn().expect("spawn child");
    let out = wait_with_timeout(child, 120);
    let (st, stdout, stderr) = match out {
        Some(x) => x,
        None => return ChildOutcome { status: "timeout".into(), message: "child exceeded 120 s".into(), stdout: String::new() },
    };
    let mut res: Option<Value> = None;
    let mut rest = String::new();
    for ln in stdout.lines() {
        if let Some(r) = ln.strip_prefix("@@RESULT ") {
            res = serde_json::from_str(r).ok();
        } else {
            rest.push_str(ln);
            rest.push('\n');
        }
    }
    if let Some(sig) = st.signal() {
        let status = if sig == libc::SIGABRT { "abort" } else { "signal" };
        return ChildOutcome { status: status.into(), message: format!("signal {sig}; {}", tail(&stderr)), stdout: rest };
    }
    match res {
        Some(r) => ChildOutcome {
            status: r["status"].as_str().unwrap_or("lost").to_string(),
            message: r["message"].as_str().unwrap_or("").to_string(),
            stdout: rest,
        },
        None => ChildOutcome { status: "lost".into(), message: format!("exit {:?}; {}", st.code(), tail(&stderr)), stdout: rest },
    }
}

fn tail(s: &str) -> String {
    let n = s.len();
    let mut k = n.saturating_sub(400);
    while k < n && !s.is_char_boundary(k) {
        k += 1;
    }
    s[k..].to_string()
}

fn wait_with_timeout(mut child: std::process::Child, secs: u64) -> Option<(std::process::ExitStatus, String, String)> {
    use std::io::Read;
    let mut so = child.stdout.take().unwrap();
    let mut se = child.stderr.take().unwrap();
    let t1 = std::thread::spawn(move || {
        let mut b = Vec::new();
        let _ = so.read_to_end(&mut b);
        String::from_utf8_lossy(&b).to_string()
    });
    let t2 = std::thread::spawn(move || {
        let mut b = Vec::new();
        let _ = se.read_to_end(&mut b);
        String::from_utf8_lossy(&b).to_string()
    });
    let t0 = std::time::Instant::now();
    loop {
        match child.try_wait() {
            Ok(Some(st)) => {
                return Some((st, t1.join().unwrap_or_default(), t2.join().unwrap_or_default()));
            }
            Ok(None) => {
                if t0.elapsed().as_secs() > secs {
                    let _ = child.kill();
                    let _ = child.wait();
                    return None;
                }
                std::thread::sleep(std::time::Duration::from_millis(2));
            }
            Err(_) => return None,
        }
    }
}

/// run `f` with this process's stdout (fd 1) redirected into a file; returns what was written
pub fn with_stdout_captured<T>(tmpfile: &Path, f: impl FnOnce() -> T) -> (T, String) {
    use std::os::unix::io::AsRawFd;
    let _ = std::io::stdout().flush();
    let file = std::fs::File::create(tmpfile).expect("capture file");
    let saved = unsafe { libc::dup(1) };
    unsafe { libc::dup2(file.as_raw_fd(), 1) };
    let r = f();
    let _ = std::io::stdout().flush();
    unsafe {
        libc::dup2(saved, 1);
        libc::close(saved);
    }
    drop(file);
    let s = std::fs::read(tmpfile).map(|b| String::from_utf8_lossy(&b).to_string()).unwrap_or_default();
    let _ = std::fs::remove_file(tmpfile);
    (r, s)
}
