"""Engine `lexer`: the built-in lexer (machine M3) -- C09, C10, C11 and the lexer
half of C08.

Expected behaviour comes from spec/Regex.tla + spec/Lexer.tla (TLC):
  MCOverlap   exact overlap of equal-precedence terminals (derivative product)
  MCLex       the tokenizer machine over every string up to N (ZeroLenIsError
              TRUE = repaired behaviour, FALSE = the code as it stands)
  MCLexTab    Matches(r, w) for every terminal and every string up to N
This module only generates lexer definitions (ASTs over an alphabet of
character classes), renders them to .lalrpop text, runs the real code
(lalrpop in process through lpdrv; lalrpop_util::lexer::Matcher through lexdrv;
compiled generated parsers through lexrun) and compares.

TRUSTED BASE of the binding (kept deliberately small, see render_* below):
  * the alphabet: each class is a list of code point ranges with one
    representative; classes of one alphabet are pairwise disjoint (checked);
  * render_re / render_lit: AST -> regex / literal source text;
  * NAMED: membership of the representatives in \\d \\w \\s (from the regex
    crate's documentation: \\d = Nd, \\w = Alphabetic+M+Nd+Pc+Join_Control,
    \\s = White_Space).
"""
import itertools
import json
import os
import random
import re
import subprocess
from concurrent.futures import ThreadPoolExecutor

import lp
import vlib
from vlib import BIN, HARNESS, ToolError, FileLock, log, mkscratch, rmtree, run_tlc

# --------------------------------------------------------------------------
# alphabets
# --------------------------------------------------------------------------
#            char: (is \d, is \w, is \s)
POOL = {
    "a": (0, 1, 0), "b": (0, 1, 0), "c": (0, 1, 0), "x": (0, 1, 0), "0": (1, 1, 0), "7": (1, 1, 0), "_": (0, 1, 0),
    " ": (0, 0, 1), "\n": (0, 0, 1), "\t": (0, 0, 1), "\r": (0, 0, 1), "\u00a0": (0, 0, 1), "\u2003": (0, 0, 1),
    ".": (0, 0, 0), "*": (0, 0, 0), "+": (0, 0, 0), "?": (0, 0, 0), "(": (0, 0, 0), ")": (0, 0, 0),
    "[": (0, 0, 0), "]": (0, 0, 0), "{": (0, 0, 0), "}": (0, 0, 0), "|": (0, 0, 0), "^": (0, 0, 0),
    "$": (0, 0, 0), "\\": (0, 0, 0), '"': (0, 0, 0), "#": (0, 0, 0), "-": (0, 0, 0), "/": (0, 0, 0),
    "'": (0, 0, 0), "&": (0, 0, 0), "~": (0, 0, 0), ",": (0, 0, 0), "=": (0, 0, 0), ">": (0, 0, 0),
    "\u00e9": (0, 1, 0), "\u00df": (0, 1, 0), "\u03bb": (0, 1, 0), "\u4e2d": (0, 1, 0), "\U0001d400": (0, 1, 0),
    "\u0663": (1, 1, 0), "\u20ac": (0, 0, 0), "\U0001f600": (0, 0, 0), "\u00a9": (0, 0, 0),
}
# named classes the oracle tabulates: name -> membership of a pool character
NAMED = {
    "\\d": lambda ch: POOL[ch][0] == 1, "\\w": lambda ch: POOL[ch][1] == 1, "\\s": lambda ch: POOL[ch][2] == 1,
    "\\D": lambda ch: POOL[ch][0] == 0, "\\W": lambda ch: POOL[ch][1] == 0, "\\S": lambda ch: POOL[ch][2] == 0,
    ".": lambda ch: ch != "\n",
}


def S(ch):
    return {"rep": ch, "ranges": [[ord(ch), ord(ch)]]}


def R(lo, hi, rep):
    assert ord(lo) <= ord(rep) <= ord(hi)
    return {"rep": rep, "ranges": [[ord(lo), ord(hi)]]}


def OTHER(rep):
    return {"rep": rep, "other": True}


def is_single(cl):
    return not cl.get("other") and len(cl["ranges"]) == 1 and cl["ranges"][0][0] == cl["ranges"][0][1]


def check_alphabet(alpha):
    """classes pairwise disjoint, representative inside its class, `other` last and its rep outside the rest"""
    rs = []
    for i, cl in enumerate(alpha):
        if cl.get("other"):
            assert i == len(alpha) - 1
            continue
        assert any(lo <= ord(cl["rep"]) <= hi for lo, hi in cl["ranges"])
        rs += [(lo, hi) for lo, hi in cl["ranges"]]
    rs.sort()
    for (a, b), (c2, d) in zip(rs, rs[1:]):
        assert b < c2, "overlapping classes"
    if alpha and alpha[-1].get("other"):
        assert not any(lo <= ord(alpha[-1]["rep"]) <= hi for lo, hi in rs)


def is_ws(cl):
    """white space by the \\s table; only singleton classes of pool characters can be"""
    return is_single(cl) and POOL.get(cl["rep"], (0, 0, 0))[2] == 1


ALPHABETS = {
    # name: (classes, named classes allowed)
    "ascii": ([S("a"), S("b"), S("c"), S(" ")], False),
    "uni": ([S("a"), S("\u00e9"), S("\u20ac"), S("\U0001f600"), S(" ")], False),
    "uni2": ([S("\u00e9"), S("\u00df"), S("\u4e2d"), S("\U0001d400"), S("\u2003")], False),
    "meta1": ([S("."), S("*"), S("\\"), S('"'), S("\n"), S("a")], "dot"),
    "dotcr": ([S("a"), S("\r"), S("\n"), S("#"), S("'")], "dot"),   # `.` matches \r but not \n
    "meta2": ([S("("), S("|"), S("#"), S("["), S("-"), S("a")], False),
    "meta3": ([S("+"), S("?"), S("]"), S("^"), S("$"), S("{")], False),
    "meta4": ([S(")"), S("}"), S("&"), S("~"), S("'"), S("/")], False),
    "meta5": ([S('"'), S("#"), S("\\"), S(","), S("="), S(">")], False),
    "named": ([S("a"), S("7"), S("_"), S(" "), S("\u00e9"), S("\u0663")], True),
    "named2": ([S("x"), S("0"), S("\n"), S("\u00a0"), S("\u20ac"), S("\u03bb")], True),
    "exact": ([S("a"), R("b", "d", "c"), S("e"), S(" "), OTHER("z")], False),
    "exactuni": ([S("\u00e9"), R("\u00ea", "\u00eb", "\u00eb"), S("a"), R("\u03b1", "\u03c9", "\u03bb"), OTHER("\u20ac")], False),
    "alias": ([S("\u00e9"), R("\u00c3", "\u00c4", "\u00c3"), R("\u00a9", "\u00aa", "\u00a9"), S("a")], False),
    "exact4": ([S("\U0001f600"), R("\U0001f601", "\U0001f64f", "\U0001f602"), S("\u20ac"), S("a"), OTHER("q")], False),
}
for _a, _ in ALPHABETS.values():
    check_alphabet(_a)


def has_other(alpha):
    return bool(alpha) and bool(alpha[-1].get("other"))


# --------------------------------------------------------------------------
# regex ASTs (the JSON the TLA+ modules read; extra fields are renderer hints)
# --------------------------------------------------------------------------
def chr_(i):
    return {"k": "chr", "c": i}


def set_(s, neg=False, named=None):
    d = {"k": "set", "s": sorted(s)}
    if neg:
        d["neg"] = True
    if named:
        d["named"] = named
    return d


def cat(*xs):
    return {"k": "cat", "xs": list(xs)}


def alt(*xs):
    return {"k": "alt", "xs": list(xs)}


def star(r):
    return {"k": "star", "r": r}


def plus(r):
    return {"k": "plus", "r": r}


def opt(r):
    return {"k": "opt", "r": r}


def rep(r, m, n):
    return {"k": "rep", "r": r, "m": m, "n": n}


def lit(*cs):
    return cat(*[chr_(i) for i in cs])


def named_set(alpha, name):
    member = NAMED[name]
    assert all(is_single(cl) for cl in alpha), "named classes only over alphabets of single characters"
    return set_([i + 1 for i, cl in enumerate(alpha) if member(cl["rep"])], named=name)


def walk(r):
    yield r
    if r["k"] in ("cat", "alt"):
        for x in r["xs"]:
            yield from walk(x)
    elif "r" in r:
        yield from walk(r["r"])


# --------------------------------------------------------------------------
# rendering (trusted base)
# --------------------------------------------------------------------------
REGEX_META = set("\\.+*?()|[]{}^$#&-~")


def esc_out(ch, style):
    """one character as a regex, outside a bracket expression"""
    if style == "hex":
        return "\\x{%X}" % ord(ch)
    if ch == "\n":
        return "\\n"
    if ch == "\t":
        return "\\t"
    if ch in REGEX_META:
        return "\\" + ch
    if ch.isalnum() or ch in "_\"',=>/ ":
        return ch
    if ord(ch) > 0x7f and not ch.isspace():
        return ch
    return "\\x{%X}" % ord(ch)


def esc_in(cp, style):
    """one code point inside a bracket expression"""
    ch = chr(cp)
    if style != "hex" and (ch.isalnum() and (ord(ch) < 0x80 or not ch.isspace())):
        return ch
    return "\\x{%X}" % cp


def class_ranges(alpha, idxs):
    out = []
    for i in sorted(idxs):
        cl = alpha[i - 1]
        assert not cl.get("other")
        out += cl["ranges"]
    return out


def render_set(alpha, r, style):
    s = set(r["s"])
    K = len(alpha)
    if r.get("named"):
        assert s == set(named_set(alpha, r["named"])["s"]), "named class denotation"
        return r["named"]
    other = K if has_other(alpha) else None
    if other in s or r.get("neg"):
        if other is not None:
            assert other in s, "a negated class contains the `other` class"
        comp = [i for i in range(1, K + 1) if i not in s]
        if not comp:
            return "[\\x{0}-\\x{10FFFF}]"
        body = "^" + "".join(_rng(lo, hi, style) for lo, hi in class_ranges(alpha, comp))
    else:
        assert s, "empty class"
        body = "".join(_rng(lo, hi, style) for lo, hi in class_ranges(alpha, s))
    return "[" + body + "]"


def _rng(lo, hi, style):
    return esc_in(lo, style) if lo == hi else esc_in(lo, style) + "-" + esc_in(hi, style)


def render_re(alpha, r, style="raw", group="(?:"):
    k = r["k"]

    def grp(x):
        return group + x + ")"

    def atom(x):
        s = render_re(alpha, x, style, group)
        return s if x["k"] in ("chr", "set") else grp(s)

    if k == "eps":
        return "()"
    if k == "chr":
        cl = alpha[r["c"] - 1]
        assert is_single(cl), "chr of a non-singleton class"
        return esc_out(cl["rep"], style)
    if k == "set":
        return render_set(alpha, r, style)
    if k == "cat":
        if not r["xs"]:
            return "()"
        return "".join(grp(render_re(alpha, x, style, group)) if x["k"] == "alt" else render_re(alpha, x, style, group)
                       for x in r["xs"])
    if k == "alt":
        assert r["xs"]
        return "|".join(render_re(alpha, x, style, group) for x in r["xs"])
    if k == "star":
        return atom(r["r"]) + "*"
    if k == "plus":
        return atom(r["r"]) + "+"
    if k == "opt":
        return atom(r["r"]) + "?"
    if k == "rep":
        m, n = r["m"], r["n"]
        q = "{%d}" % m if m == n else "{%d,}" % m if n < 0 else "{%d,%d}" % (m, n)
        return atom(r["r"]) + q
    # constructs LALRPOP declares unsupported (C11)
    if k == "look":
        return r["src"]
    if k == "lazy":
        return atom(r["r"]) + r["op"] + "?"
    if k == "named":
        return "(?P<n>" + render_re(alpha, r["r"], style, group) + ")"
    raise AssertionError(k)


def lit_string(alpha, r):
    """the concrete string of a quoted literal (cat of chr)"""
    assert r["k"] == "cat" and all(x["k"] == "chr" for x in r["xs"])
    for x in r["xs"]:
        assert is_single(alpha[x["c"] - 1])
    return "".join(alpha[x["c"] - 1]["rep"] for x in r["xs"])


def quote_lit(s):
    """a LALRPOP quoted terminal: escapes \\\\ \\" \\n \\t, everything else raw"""
    return '"' + s.replace("\\", "\\\\").replace('"', '\\"').replace("\n", "\\n").replace("\t", "\\t").replace("\r", "\\r") + '"'


def quote_regex(src):
    """a LALRPOP regex terminal r"..." / r#"..."# with enough hashes"""
    n = 0
    if '"' in src:
        n = 1
        while '"' + "#" * n in src:
            n += 1
    return "r" + "#" * n + '"' + src + '"' + "#" * n


def term_source(case, ent):
    """(kind, src as the export reports it, text in the .lalrpop file) of a literal / regex"""
    if ent["lit"]:
        s = lit_string(case["alpha"], ent["re"])
        return "quoted", s, quote_lit(s)
    src = render_re(case["alpha"], ent["re"], case.get("style", "raw"), case.get("group", "(?:"))
    return "regex", src, quote_regex(src)


def all_entries(case):
    out = []
    for rung in case["match"] or []:
        out += [it for it in rung if it["k"] == "ent"]
    return out


def terminal_names(case):
    """names of the non-skip terminals in a fixed order (index = what the actions return)"""
    names = []
    for it in all_entries(case):
        if not it["skip"] and it["to"] not in names:
            names.append(it["to"])
    for u in case["uses"]:
        if u["name"] not in names:
            names.append(u["name"])
    return names


def render_grammar(case):
    """the .lalrpop text: match block + `pub Toks = <Tok*>` returning the tokens as the parser saw them"""
    terms = case["terms"]
    selfsrc = {}
    for it in all_entries(case):
        if not it["skip"] and terms[it["to"]]["as"] == "self":
            selfsrc[it["to"]] = term_source(case, it)[2]
    for u in case["uses"]:
        selfsrc[u["name"]] = term_source(case, u)[2]

    def tname(t):
        d = terms[t]
        return d["text"] if d["as"] == "bare" else quote_lit(d["text"]) if d["as"] == "quoted" else selfsrc[t]

    lines = ["grammar;", ""]
    if case["match"] is not None:
        for ri, rung in enumerate(case["match"]):
            lines.append("match {" if ri == 0 else "} else {")
            items = []
            for it in rung:
                if it["k"] == "any":
                    items.append("    _")
                    continue
                src = term_source(case, it)[2]
                if it["skip"]:
                    items.append("    %s => { }" % src)
                elif terms[it["to"]]["as"] == "self":
                    items.append("    %s" % src)
                else:
                    items.append("    %s => %s" % (src, tname(it["to"])))
            lines.append(",\n".join(items))
        lines.append("}")
        lines.append("")
    names = terminal_names(case)
    lines.append("pub Toks: Vec<(usize, usize, usize)> = <Tok*>;")
    lines.append("")
    lines.append("Tok: (usize, usize, usize) = {")
    for i, t in enumerate(names):
        lines.append("    <l:@L> %s <r:@R> => (l, %d, r)," % (tname(t), i))
    lines.append("};")
    return "\n".join(lines) + "\n"


def tla_case(case):
    """the definition as Regex.tla reads it (ASCII only; renderer hints are harmless extra fields)"""
    alpha = case["alpha"]
    return {
        "id": case["id"], "K": len(alpha), "bl": [len(cl["rep"].encode("utf-8")) for cl in alpha],
        "ws": [i + 1 for i, cl in enumerate(alpha) if is_ws(cl)], "N": case["N"],
        "hasmatch": case["match"] is not None,
        "match": [[_strip(it) for it in rung] for rung in (case["match"] or [])],
        "uses": [{"e": u["e"], "lit": u["lit"], "re": _strip_re(u["re"]), "name": u["name"]} for u in case["uses"]],
    }


def _strip(it):
    if it["k"] == "any":
        return {"k": "any"}
    return {"k": "ent", "e": it["e"], "lit": it["lit"], "re": _strip_re(it["re"]), "skip": it["skip"],
            "to": "" if it["skip"] else it["to"]}


def _strip_re(r):
    k = r["k"]
    if k == "chr":
        return {"k": "chr", "c": r["c"]}
    if k == "set":
        return {"k": "set", "s": list(r["s"])}
    if k in ("cat", "alt"):
        return {"k": k, "xs": [_strip_re(x) for x in r["xs"]]}
    if k == "rep":
        return {"k": k, "r": _strip_re(r["r"]), "m": r["m"], "n": r["n"]}
    if k in ("eps", "look"):
        return {"k": k}
    return {"k": k, "r": _strip_re(r["r"])}


def text_of(case, w):
    return "".join(case["alpha"][i - 1]["rep"] for i in w)


def all_strings(case):
    K = len(case["alpha"])
    for n in range(case["N"] + 1):
        for w in itertools.product(range(1, K + 1), repeat=n):
            yield w


def is_exact(case):
    """every atom is a union of classes of a partition that the spec sees completely"""
    oth = has_other(case["alpha"])
    for ent in all_entries(case) + case["uses"]:
        for n in walk(ent["re"]):
            if n["k"] == "set" and (n.get("named") or (n.get("neg") and not oth)):
                return False
    return True


# --------------------------------------------------------------------------
# generators
# --------------------------------------------------------------------------
class Gen:
    def __init__(self, seed, tier):
        self.rng = random.Random(seed * 1000003 + 17)
        self.tier = tier
        self.n = 0

    def singles(self, alpha):
        return [i + 1 for i, cl in enumerate(alpha) if is_single(cl)]

    def atom(self, alpha, named_ok, exact):
        rng = self.rng
        K = len(alpha)
        sg = self.singles(alpha)
        x = rng.random()
        if x < (0.3 if named_ok else 0.45) and sg:
            return chr_(rng.choice(sg))
        if named_ok and x < 0.6:
            r = named_set(alpha, rng.choice(sorted(NAMED) if named_ok is True else ["."]))
            if r["s"]:
                return r
        size = rng.randint(1, max(1, K - 1))
        s = rng.sample(range(1, K + 1), size)
        if has_other(alpha):
            return set_(s)
        if not exact and rng.random() < 0.25:
            return set_(s, neg=True)
        return set_(s)

    def regex(self, alpha, depth, named_ok=False, exact=False):
        rng = self.rng
        if depth <= 0 or rng.random() < 0.25:
            return self.atom(alpha, named_ok, exact)
        k = rng.choice(["cat", "cat", "alt", "star", "plus", "plus", "opt", "rep"])
        sub = lambda: self.regex(alpha, depth - 1, named_ok, exact)  # noqa: E731
        if k == "cat":
            return cat(*[sub() for _ in range(rng.randint(2, 3))])
        if k == "alt":
            return alt(*[sub() for _ in range(rng.randint(2, 3))])
        if k == "rep":
            m = rng.randint(0, 2)
            n = rng.choice([-1, m, m + 1, m + 2])
            if m == 0 and n == 0:
                n = 1
            return rep(sub(), m, n)
        return {"k": k, "r": sub()}

    def lexerish(self, alpha, named_ok=False, exact=False):
        """regexes shaped like real terminals: x+, x y*, (xy)+, x|yz ..."""
        rng = self.rng
        a = lambda: self.atom(alpha, named_ok, exact)  # noqa: E731
        return rng.choice([
            lambda: plus(a()), lambda: cat(a(), star(a())), lambda: plus(cat(a(), a())),
            lambda: alt(a(), cat(a(), a())), lambda: cat(a(), opt(a())), lambda: cat(a(), plus(a())),
            lambda: star(a()), lambda: rep(a(), 1, 2), lambda: cat(a(), a()), lambda: a(),
            lambda: cat(star(a()), a()), lambda: alt(plus(a()), a()),
        ])()

    def literal(self, alpha, maxlen=3, minlen=1):
        sg = self.singles(alpha)
        return lit(*[self.rng.choice(sg) for _ in range(self.rng.randint(minlen, maxlen))])

    def new_id(self, prefix):
        self.n += 1
        return "%s%04d" % (prefix, self.n)

    # ---- a lexer definition with a random match-block structure -----------
    def definition(self, aname, N, nterm=None, prefix="L", p_match=0.7, depth=2, sep_rungs=False, p_lit=0.4,
                   p_nullable_ok=True):
        rng = self.rng
        alpha, named_ok = ALPHABETS[aname]
        exact = has_other(alpha)
        nterm = nterm or rng.randint(2, 5)
        case = {"id": self.new_id(prefix), "aname": aname, "alpha": alpha, "N": N,
                "style": rng.choice(["raw", "raw", "hex"]), "group": rng.choice(["(?:", "("]),
                "match": None, "uses": [], "terms": {}, "tags": []}
        pats = []
        seen = set()
        tries = 0
        while len(pats) < nterm and tries < 50:
            tries += 1
            if rng.random() < p_lit and self.singles(alpha):
                r, is_lit = self.literal(alpha), True
            else:
                r = self.lexerish(alpha, named_ok, exact) if rng.random() < 0.6 else self.regex(alpha, depth, named_ok, exact)
                is_lit = False
            key = (is_lit, json.dumps(r, sort_keys=True))
            kind_src = (is_lit, lit_string(alpha, r) if is_lit else render_re(alpha, r, case["style"], case["group"]))
            if key in seen or kind_src in seen:
                continue
            seen.add(key)
            seen.add(kind_src)
            pats.append((is_lit, r))
        tn = 0

        def new_term(as_, text=None):
            nonlocal tn
            tn += 1
            t = "T%d" % tn
            case["terms"][t] = {"as": as_, "text": text}
            return t

        if rng.random() >= p_match and not sep_rungs:
            for is_lit, r in pats:
                case["uses"].append({"e": "u%d" % (len(case["uses"]) + 1), "lit": is_lit, "re": r, "name": new_term("self")})
            case["tags"].append("nomatch")
            return case
        nr = len(pats) if sep_rungs else rng.randint(1, 3)
        rungs = [[] for _ in range(nr)]
        any_rung = None if sep_rungs else rng.choice([None] + list(range(nr)) * 2)
        ne = 0
        for pi, (is_lit, r) in enumerate(pats):
            in_match = sep_rungs or any_rung is None or rng.random() < 0.65
            if not in_match:
                case["uses"].append({"e": "u%d" % (len(case["uses"]) + 1), "lit": is_lit, "re": r, "name": new_term("self")})
                continue
            ne += 1
            x = rng.random()
            skip = x < 0.15 and not is_lit
            if skip:
                to = None
            elif x < 0.45:
                to = new_term("bare", "ID%d" % ne)
                case["tags"].append("renamed_bare")
            elif x < 0.6:
                to = new_term("quoted", "KW%d" % ne)
                case["tags"].append("renamed_quoted")
            else:
                to = new_term("self")
            it = {"k": "ent", "e": "m%d" % ne, "lit": is_lit, "re": r, "skip": skip, "to": to}
            rungs[pi if sep_rungs else rng.randrange(nr)].append(it)
            if to is not None and case["terms"][to]["as"] == "self":
                # the terminal is written as itself in the grammar's rules
                case["uses"].append({"e": it["e"], "lit": is_lit, "re": r, "name": to})
        if any_rung is not None:
            rungs[any_rung].insert(rng.randint(0, len(rungs[any_rung])), {"k": "any"})
            case["tags"].append("any_rung_%s" % ("last" if any_rung == nr - 1 else "earlier"))
        rungs = [rg for rg in rungs if rg]
        if not rungs:
            rungs = [[{"k": "any"}]]
        case["match"] = rungs
        if any(it["k"] == "ent" and it["skip"] for rg in rungs for it in rg):
            case["tags"].append("skip_rule")
        if len(rungs) > 1:
            case["tags"].append("rungs_%d" % len(rungs))
        if not terminal_names(case):
            # a lexer needs at least one terminal
            r = self.literal(alpha)
            case["uses"].append({"e": "u9", "lit": True, "re": r, "name": new_term("self")})
            if not any(it["k"] == "any" for rg in rungs for it in rg):
                rungs[-1].append({"k": "any"})
        return case


def fixed_cases(N):
    """hand-written definitions: the documented examples and the anticipated defects"""
    out = []
    A = ALPHABETS

    def mk(cid, aname, match, uses, terms, tags, style="raw"):
        out.append({"id": cid, "aname": aname, "alpha": A[aname][0], "N": N, "style": style, "group": "(?:",
                    "match": match, "uses": uses, "terms": terms, "tags": tags})

    # the book's calculator2b shape over {a,b,c,' '}: literal "bb" vs regex [ab]+ (longest match, literal wins ties)
    mk("F001", "ascii", None,
       [{"e": "u1", "lit": True, "re": lit(2, 2), "name": "T1"},
        {"e": "u2", "lit": False, "re": plus(set_([1, 2])), "name": "T2"},
        {"e": "u3", "lit": True, "re": lit(3), "name": "T3"}],
       {"T1": {"as": "self"}, "T2": {"as": "self"}, "T3": {"as": "self"}}, ["doc_literal_beats_regex"])
    # match { r"[ab]+" } else { r"[abc]+" => ID, _ }  (the book's two-rung example)
    mk("F002", "ascii",
       [[{"k": "ent", "e": "m1", "lit": False, "re": plus(set_([1, 2])), "skip": False, "to": "T1"}],
        [{"k": "ent", "e": "m2", "lit": False, "re": plus(set_([1, 2, 3])), "skip": False, "to": "T2"}, {"k": "any"}]],
       [{"e": "m1", "lit": False, "re": plus(set_([1, 2])), "name": "T1"},
        {"e": "u1", "lit": True, "re": lit(1, 2), "name": "T3"}],
       {"T1": {"as": "self"}, "T2": {"as": "bare", "text": "ID"}, "T3": {"as": "self"}}, ["doc_two_rungs"])
    # match { r"[ab]+", "ab" } else { r"[abc]+" => ID, _ }: within a rung the literal wins
    mk("F003", "ascii",
       [[{"k": "ent", "e": "m1", "lit": False, "re": plus(set_([1, 2])), "skip": False, "to": "T1"},
         {"k": "ent", "e": "m3", "lit": True, "re": lit(1, 2), "skip": False, "to": "T3"}],
        [{"k": "ent", "e": "m2", "lit": False, "re": plus(set_([1, 2, 3])), "skip": False, "to": "T2"}, {"k": "any"}]],
       [{"e": "m1", "lit": False, "re": plus(set_([1, 2])), "name": "T1"},
        {"e": "m3", "lit": True, "re": lit(1, 2), "name": "T3"},
        {"e": "u1", "lit": True, "re": lit(3, 3), "name": "T4"}],
       {"T1": {"as": "self"}, "T2": {"as": "bare", "text": "ID"}, "T3": {"as": "self"}, "T4": {"as": "self"}},
       ["doc_literal_in_rung"])
    # a user skip rule r"c*" => { } (matches the empty string, like the book's r"\s*") disables white-space skipping
    mk("F004", "ascii",
       [[{"k": "ent", "e": "m1", "lit": False, "re": star(chr_(3)), "skip": True, "to": None},
         {"k": "ent", "e": "m2", "lit": False, "re": plus(chr_(1)), "skip": False, "to": "T1"}]],
       [], {"T1": {"as": "bare", "text": "A"}}, ["doc_skip_rule", "nullable_skip"])
    # C08: a non-skip terminal matching the empty string (T = r"a*"); `b` is matched by nothing
    mk("F005", "ascii", None,
       [{"e": "u1", "lit": False, "re": star(chr_(1)), "name": "T1"}],
       {"T1": {"as": "self"}}, ["nullable_terminal"])
    mk("F006", "uni", None,
       [{"e": "u1", "lit": False, "re": opt(chr_(2)), "name": "T1"},
        {"e": "u2", "lit": True, "re": lit(3, 4), "name": "T2"}],
       {"T1": {"as": "self"}, "T2": {"as": "self"}}, ["nullable_terminal", "nonascii"])
    # a terminal of an earlier rung ties with a user skip rule of a later rung on the same longest match: the
    # earlier rung wins, the text is a token (and the other way round: an earlier skip rule hides a later terminal)
    mk("F008", "ascii",
       [[{"k": "ent", "e": "m1", "lit": False, "re": chr_(3), "skip": False, "to": "T1"}],
        [{"k": "ent", "e": "m2", "lit": False, "re": plus(set_([3, 4])), "skip": True, "to": None},
         {"k": "ent", "e": "m3", "lit": False, "re": plus(set_([1, 2])), "skip": False, "to": "T2"}]],
       [], {"T1": {"as": "bare", "text": "NL"}, "T2": {"as": "bare", "text": "W"}}, ["skip_rule", "skip_ties_with_terminal"])
    mk("F009", "ascii",
       [[{"k": "ent", "e": "m1", "lit": False, "re": chr_(3), "skip": True, "to": None}],
        [{"k": "ent", "e": "m2", "lit": False, "re": plus(set_([3, 1])), "skip": False, "to": "T1"},
         {"k": "ent", "e": "m3", "lit": True, "re": lit(2), "skip": False, "to": "T2"}]],
       [], {"T1": {"as": "bare", "text": "W"}, "T2": {"as": "bare", "text": "B"}}, ["skip_rule", "skip_ties_with_terminal"])
    # non-ASCII literals and classes, byte offsets
    mk("F007", "uni", None,
       [{"e": "u1", "lit": True, "re": lit(2, 3), "name": "T1"},
        {"e": "u2", "lit": False, "re": plus(set_([2, 3, 4])), "name": "T2"},
        {"e": "u3", "lit": True, "re": lit(1), "name": "T3"}],
       {"T1": {"as": "self"}, "T2": {"as": "self"}, "T3": {"as": "self"}}, ["nonascii"])
    return out


def overlap_sets(gen, count, N):
    """C11: sets of terminals whose equal-precedence pairs may or may not overlap"""
    out = []
    names = ["ascii", "uni", "exact", "exactuni", "alias", "exact4", "uni2", "meta2"]
    for i in range(count):
        aname = names[i % len(names)]
        c = gen.definition(aname, N, nterm=gen.rng.randint(2, 4), prefix="O", p_match=0.5, depth=2, p_lit=0.2)
        c["tags"].append("overlap_set")
        out.append(c)
    return out


def fixed_overlap(N):
    out = []
    A = ALPHABETS

    def two(cid, aname, r1, r2, tags):
        out.append({"id": cid, "aname": aname, "alpha": A[aname][0], "N": N, "style": "raw", "group": "(?:",
                    "match": None,
                    "uses": [{"e": "u1", "lit": False, "re": r1, "name": "T1"},
                             {"e": "u2", "lit": False, "re": r2, "name": "T2"}],
                    "terms": {"T1": {"as": "self"}, "T2": {"as": "self"}}, "tags": tags + ["overlap_set"]})

    # ASCII analogue of the anticipated defect: r"e" vs r"[b-e]"
    two("G001", "exact", chr_(3), set_([2, 3]), ["ascii_literal_vs_class"])
    # r"é" vs r"[é-ë]"
    two("G002", "exactuni", chr_(1), set_([1, 2]), ["nonascii_literal_vs_class"])
    two("G003", "exactuni", plus(chr_(1)), cat(set_([1, 2]), star(set_([1, 2, 3]))), ["nonascii_literal_vs_class"])
    # disjoint: r"é" vs r"[ê-ë]"
    two("G004", "exactuni", chr_(1), set_([2]), ["disjoint"])
    # (a|b)*e vs [ex]+ of the design prototype, over the `exact` alphabet
    two("G005", "exact", cat(star(alt(chr_(1), set_([2]))), chr_(3)), plus(set_([3, 5])), ["design_prototype"])
    # the UTF-8 bytes of é are the code points of Ã ©: r"é" vs r"[Ã-Ä][©-ª]" have no common string
    two("G006", "alias", chr_(1), cat(set_([2]), set_([3])), ["byte_alias"])
    two("G007", "exact4", chr_(1), set_([1, 2]), ["nonascii_literal_vs_class"])
    # counted repetitions at their boundaries: r"a{2,}" vs r"a" (disjoint), vs r"aa" (overlap); r"a{3,}" vs r"aa|b";
    # r"a{1,2}" vs r"aaa" (disjoint), vs r"aa" (overlap); r"(ab){2}" vs r"abab" / r"ab"
    two("G009", "ascii", rep(chr_(1), 2, -1), chr_(1), ["counted_repetition", "disjoint"])
    two("G010", "ascii", rep(chr_(1), 2, -1), cat(chr_(1), chr_(1)), ["counted_repetition"])
    two("G011", "ascii", rep(chr_(1), 3, -1), alt(cat(chr_(1), chr_(1)), chr_(2)), ["counted_repetition", "disjoint"])
    two("G012", "ascii", rep(chr_(1), 1, 2), cat(chr_(1), chr_(1), chr_(1)), ["counted_repetition", "disjoint"])
    two("G013", "ascii", rep(chr_(1), 1, 2), cat(chr_(1), chr_(1)), ["counted_repetition"])
    two("G014", "ascii", rep(cat(chr_(1), chr_(2)), 2, 2), cat(chr_(1), chr_(2)), ["counted_repetition", "disjoint"])
    two("G015", "ascii", rep(cat(chr_(1), chr_(2)), 2, 2), plus(set_([1, 2])), ["counted_repetition"])
    two("G016", "ascii", rep(set_([1, 2]), 2, 3), rep(set_([2, 3]), 0, 1), ["counted_repetition"])
    # an overlap that a higher-precedence terminal shadows on every common string:
    # match { "b" => "KW1" } else { _ } with r"b" and r"[abc]{1,2}" used in the grammar
    out.append({"id": "G008", "aname": "ascii", "alpha": A["ascii"][0], "N": N, "style": "raw", "group": "(?:",
                "match": [[{"k": "ent", "e": "m1", "lit": True, "re": lit(2), "skip": False, "to": "T3"}], [{"k": "any"}]],
                "uses": [{"e": "u1", "lit": False, "re": chr_(2), "name": "T1"},
                         {"e": "u2", "lit": False, "re": rep(set_([1, 2, 3]), 1, 2), "name": "T2"}],
                "terms": {"T1": {"as": "self"}, "T2": {"as": "self"}, "T3": {"as": "quoted", "text": "KW1"}},
                "tags": ["shadowed_overlap", "overlap_set"]})
    return out


UNSUPPORTED = [
    ("look_b", lambda a: cat(a, {"k": "look", "src": "\\b"})),
    ("look_B", lambda a: cat({"k": "look", "src": "\\B"}, a)),
    ("look_caret", lambda a: cat({"k": "look", "src": "^"}, a)),
    ("look_dollar", lambda a: cat(a, {"k": "look", "src": "$"})),
    ("lazy_star", lambda a: cat(a, {"k": "lazy", "r": a, "op": "*"})),
    ("lazy_plus", lambda a: {"k": "lazy", "r": a, "op": "+"}),
    ("lazy_opt", lambda a: cat(a, {"k": "lazy", "r": a, "op": "?"})),
    ("named", lambda a: {"k": "named", "r": a}),
    ("named_inner", lambda a: cat(a, star({"k": "named", "r": a}))),
]


def unsupported_sets(gen, N, count):
    """otherwise valid (or ambiguous) sets with one unsupported construct appended"""
    out = []
    for i in range(count):
        name, mkr = UNSUPPORTED[i % len(UNSUPPORTED)]
        aname = ["ascii", "uni", "exact"][i % 3]
        alpha = ALPHABETS[aname][0]
        c = gen.definition(aname, N, nterm=2, prefix="U", p_match=0.4, depth=1, p_lit=0.5)
        a = chr_(gen.rng.choice(gen.singles(alpha)))
        t = "T%d" % (len(c["terms"]) + 1)
        c["terms"][t] = {"as": "self"}
        c["uses"].append({"e": "ux", "lit": False, "re": mkr(a), "name": t})
        if c["match"] is not None and not any(it["k"] == "any" for rg in c["match"] for it in rg):
            c["match"][-1].append({"k": "any"})
        c["tags"] += ["unsupported", name]
        out.append(c)
    return out


def table_cases(gen, count, N_small, N_big):
    """C10: every terminal in its own rung (never ambiguous), diverse syntax, metacharacter / non-ASCII alphabets"""
    out = []
    names = ["meta1", "named", "meta2", "named2", "meta3", "uni", "meta4", "named", "meta5", "uni2", "named2", "exactuni",
             "exact", "ascii", "dotcr"]
    for i in range(count):
        aname = names[i % len(names)]
        K = len(ALPHABETS[aname][0])
        c = gen.definition(aname, N_small if K >= 6 else N_big, nterm=gen.rng.randint(3, 5), prefix="M",
                           sep_rungs=True, depth=3, p_lit=0.35)
        c["tags"].append("table")
        out.append(c)
    return out


def population(tier, seed):
    gen = Gen(seed, tier)
    quick = tier == "quick"
    N5 = 4 if quick else 5      # alphabets with <= 5 classes
    N6 = 3 if quick else 4      # alphabets with 6 classes
    cases = fixed_cases(N5)
    lex_names = ["ascii", "uni", "ascii", "exact", "uni", "named", "meta1", "exactuni", "uni2", "dotcr"]
    n_lex = 44 if quick else 300
    for i in range(n_lex):
        aname = lex_names[i % len(lex_names)]
        K = len(ALPHABETS[aname][0])
        c = gen.definition(aname, N6 if K >= 6 else N5 if (K >= 5 or quick) else N5 + 1)
        c["tags"].append("lexdef")
        cases.append(c)
    cases += table_cases(gen, 14 if quick else 98, N6, N5)
    cases += fixed_overlap(N5)
    cases += overlap_sets(gen, 60 if quick else 1200, N5)
    cases += unsupported_sets(gen, N5, 18 if quick else 90)
    ids = set()
    for c in cases:
        assert c["id"] not in ids
        ids.add(c["id"])
        for t in list(c["terms"]):
            c["terms"][t].setdefault("text", None)
    return cases


# --------------------------------------------------------------------------
# TLC runs
# --------------------------------------------------------------------------
def _write_cases(wd, name, cases):
    p = os.path.join(wd, name)
    with open(p, "w") as f:
        json.dump([tla_case(c) for c in cases], f)
    return p


def run_overlap(cases, workers=6, timeout=3600):
    """-> {id: {supported, wellformed, pairs: n, overlaps: [{i, j, ei, ej, path}], pats: [...]}}, states, transitions"""
    wd = mkscratch("mcoverlap")
    try:
        p = _write_cases(wd, "cases.json", cases)
        r = run_tlc("MCOverlap", "MCOverlap.cfg", env={"LEX_CASES": p}, workers=workers, timeout=timeout, workdir=wd)
        out = {}
        for tag, obj in r.prints:
            if tag == "DEF":
                out[obj["c"]] = {"supported": obj["supported"], "wellformed": obj["wellformed"], "pairs": obj["pairs"],
                                 "pats": obj["pats"], "overlaps": []}
        for tag, obj in r.prints:
            if tag == "OVERLAP":
                out[obj["c"]]["overlaps"].append(obj)
        if r.violations:
            raise ToolError("MCOverlap: unexpected violation %s" % r.violations[0]["name"])
        missing = [c["id"] for c in cases if c["id"] not in out]
        if missing:
            raise ToolError("MCOverlap printed nothing for %s" % missing[:5])
        return out, r.distinct, r.generated
    finally:
        rmtree(wd)


def run_clash(cases, workers=4, timeout=3600):
    """-> {id: [clash records]} (strings on which two patterns of maximal equal precedence both match)"""
    wd = mkscratch("mcclash")
    try:
        p = _write_cases(wd, "cases.json", cases)
        r = run_tlc("MCClash", "MCClash.cfg", env={"LEX_CASES": p}, workers=workers, timeout=timeout, workdir=wd)
        if r.violations:
            raise ToolError("MCClash: unexpected violation %s" % r.violations[0]["name"])
        out = {}
        for tag, obj in r.prints:
            if tag == "CLASH":
                out.setdefault(obj["c"], []).append(obj)
        return out, r.distinct, r.generated
    finally:
        rmtree(wd)


def run_mclex(cases, asis=False, workers=6, timeout=5400):
    """-> {(id, w tuple): {toks, end, at, zname}}, pats {id: [...]}, states, transitions, violations"""
    wd = mkscratch("mclex")
    try:
        p = _write_cases(wd, "cases.json", cases)
        r = run_tlc("MCLex", "MCLexAsIs.cfg" if asis else "MCLex.cfg", env={"LEX_CASES": p}, workers=workers,
                    timeout=timeout, cont=asis, workdir=wd)
        res = {}
        pats = {}
        for tag, obj in r.prints:
            if tag == "LEX":
                res[(obj["c"], tuple(obj["w"]))] = obj
            elif tag == "PATS":
                pats[obj["c"]] = obj["pats"]
        return res, pats, r.distinct, r.generated, r.violations
    finally:
        rmtree(wd)


def run_live(cases, asis, workers=2, timeout=3600):
    """liveness: every run of the tokenizer machine reaches a verdict (Terminates under weak fairness).
    -> (holds, states).  vlib.run_tlc does not know this TLC's wording of a temporal violation, hence the except."""
    wd = mkscratch("mclive")
    try:
        p = _write_cases(wd, "cases.json", cases)
        try:
            r = run_tlc("MCLex", "MCLexLiveAsIs.cfg" if asis else "MCLexLive.cfg", env={"LEX_CASES": p}, workers=workers,
                        timeout=timeout, workdir=wd)
        except ToolError as e:
            if "Temporal property Terminates was violated" in str(e):
                return False, 0
            raise
        if r.violations:
            return False, r.distinct
        return True, r.distinct
    finally:
        rmtree(wd)


def run_tab(cases, workers=6, timeout=5400):
    """-> {(id, e): set of w tuples matched}, states, transitions"""
    wd = mkscratch("mctab")
    try:
        p = _write_cases(wd, "cases.json", cases)
        r = run_tlc("MCLexTab", "MCLexTab.cfg", env={"LEX_CASES": p}, workers=workers, timeout=timeout, workdir=wd)
        if r.violations:
            raise ToolError("MCLexTab: the two regex semantics of Regex.tla disagree (%s):\n%s"
                            % (r.violations[0]["name"], r.violations[0]["trace"][-1500:]))
        tab = {}
        for tag, obj in r.prints:
            if tag == "TAB":
                tab.setdefault((obj["c"], obj["e"]), set()).add(tuple(obj["w"]))
            elif tag == "TABROW":
                tab.setdefault((obj["c"], obj["e"]), set())
        return tab, r.distinct, r.generated
    finally:
        rmtree(wd)


# --------------------------------------------------------------------------
# the real code
# --------------------------------------------------------------------------
def run_lalrpop(cases, wd):
    src = os.path.join(wd, "src")
    os.makedirs(src, exist_ok=True)
    jobs = []
    for c in cases:
        path = os.path.join(src, c["id"] + ".lalrpop")
        with open(path, "w", encoding="utf-8") as f:
            f.write(render_grammar(c))
        jobs.append({"id": c["id"], "file": path, "timeout_s": 60})
    return lp.run_jobs(jobs, wd)


def classify_lalrpop(r):
    txt = (r.get("stdout", "") + "\n" + r.get("stderr", "") + "\n" + r.get("message", ""))
    if r["status"] == "ok":
        return "ok"
    if r["status"] in ("panic", "timeout", "abort"):
        return r["status"]
    if "@@PANIC" in txt:
        return "panic"
    if "ambiguity detected between the terminal" in txt:
        return "ambiguous"
    if "are not supported in regular expressions" in txt:
        return "unsupported"
    if "invalid regular expression" in txt:
        return "invalid_regex"
    return "other_error"


_STRS = re.compile(r"let __+strs: &\[\(&str, bool\)\] = &\[(.*?)\];", re.S)


def rust_unescape(s):
    """the value of a Rust string literal body written by `{:?}`"""
    out = []
    i = 0
    while i < len(s):
        ch = s[i]
        if ch != "\\":
            out.append(ch)
            i += 1
            continue
        n = s[i + 1]
        if n == "u":
            j = s.index("}", i)
            out.append(chr(int(s[i + 3:j], 16)))
            i = j + 1
            continue
        out.append({"n": "\n", "r": "\r", "t": "\t", "0": "\0", "\\": "\\", '"': '"', "'": "'"}[n])
        i += 2
    return "".join(out)


def parse_intern_token(rs_text):
    """the (regex, skip) list of the generated `__intern_token::new_builder`"""
    m = _STRS.search(rs_text)
    if not m:
        return None
    body = m.group(1)
    out = []
    i = 0
    while True:
        i = body.find("(", i)
        if i < 0:
            break
        i += 1
        if body.startswith('r"', i):
            j = body.index('"', i + 2)
            val = body[i + 2:j]
            i = j + 1
        elif body[i] == '"':
            j = i + 1
            while body[j] != '"':
                j += 2 if body[j] == "\\" else 1
            val = rust_unescape(body[i + 1:j])
            i = j + 1
        else:
            raise ToolError("cannot parse __intern_token entry near %r" % body[i:i + 40])
        m2 = re.match(r"\s*,\s*(true|false)\s*\)", body[i:])
        if not m2:
            raise ToolError("cannot parse __intern_token skip flag near %r" % body[i:i + 40])
        out.append([val, m2.group(1) == "true"])
        i += m2.end()
    return out


IMPLICIT_WS = "\\s+"


def emitted_entries(export):
    """the (regex, skip) list of the real lexer according to the hook export: the match entries in
    order, plus the implicit white-space skip LALRPOP appends when there is no skip entry"""
    ents = [[e["re"], bool(e["skip"])] for e in export["lexer"]]
    if not any(s for _, s in ents):
        ents.append([IMPLICIT_WS, True])
    return ents


def bind_case(case, r, wd):
    """relate the entries of the real lexer to the patterns of the case.
    -> dict(entries, idx2e: {pattern index: e}, e2idx, name_of_idx, problems: [...])"""
    ex = r.get("export") or {}
    problems = []
    if not ex.get("lexer"):
        return None, ["no lexer entries in the hook export"]
    exported = [[e["re"], bool(e["skip"])] for e in ex["lexer"]]
    rs = os.path.join(wd, "src", case["id"] + ".rs")
    try:
        with open(rs, encoding="utf-8") as f:
            parsed = parse_intern_token(f.read())
    except OSError:
        parsed = None
    if parsed is None:
        problems.append("no __intern_token table in the generated file")
        ents = emitted_entries(ex)
    else:
        # the hook must not lie: the exported match entries are the head of the emitted table.  Whether the
        # implicit white-space skip follows is the generator's own decision -- the emitted table is what the
        # real Matcher is built from, the specification says when it has to be there.
        if parsed[:len(exported)] != exported:
            problems.append("hook export and generated __intern_token disagree: %r vs %r" % (exported, parsed))
        elif parsed[len(exported):] not in ([], [[IMPLICIT_WS, True]]):
            problems.append("unexpected extra entries in __intern_token: %r" % (parsed[len(exported):],))
        ents = parsed
    mine = {}
    for ent in all_entries(case) + case["uses"]:
        kind, src, _ = term_source(case, ent)
        mine.setdefault((kind, src), ent["e"])
    idx2e, e2idx = {}, {}
    for i, e in enumerate(ex["lexer"]):
        k = (e["kind"], e["src"])
        if k not in mine:
            problems.append("lexer entry %r is not a terminal of the case" % (k,))
            continue
        idx2e[i] = mine[k]
        e2idx[mine[k]] = i
    if len(ents) > len(ex["lexer"]):
        idx2e[len(ents) - 1] = "ws"
        e2idx["ws"] = len(ents) - 1
    return {"entries": ents, "idx2e": idx2e, "e2idx": e2idx, "export": ex["lexer"]}, problems


def _run_driver(binary, jobs, wd, tag, budget_env=None):
    """run lexdrv / lexrun over jobs; a watchdog exit (status 3) is data: restart after the string"""
    jf = os.path.join(wd, "%s-jobs.json" % tag)
    with open(jf, "w", encoding="utf-8") as f:
        json.dump(jobs, f)
    results = {j["id"]: {"res": [None] * len(j["strings"]), "build_error": None} for j in jobs}
    ids = [j["id"] for j in jobs]
    first_job, first_string, attempt = 0, 0, 0
    env = dict(os.environ)
    env.update(budget_env or {})
    while True:
        attempt += 1
        rf = os.path.join(wd, "%s-res-%d.ndjson" % (tag, attempt))
        p = subprocess.run([os.path.join(BIN, binary), jf, rf, str(first_job), str(first_string)],
                           capture_output=True, env=env)
        timeout_line = None
        if os.path.exists(rf):
            with open(rf, encoding="utf-8") as f:
                for line in f:
                    o = json.loads(line)
                    if "build_error" in o:
                        results[o["id"]]["build_error"] = o["build_error"]
                    elif "timeout_at" in o:
                        timeout_line = o
                    else:
                        res = results[o["id"]]["res"]
                        for k, v in enumerate(o["res"]):
                            res[o["first"] + k] = v
        if p.returncode == 0:
            break
        if p.returncode == 3 and timeout_line is not None and timeout_line["id"] in results:
            o = timeout_line
            ji = ids.index(o["id"])
            res = results[o["id"]]["res"]
            base = first_string if ji == first_job else 0
            for k, v in enumerate(o["partial"]):
                res[base + k] = v
            res[o["timeout_at"]] = {"t": [], "e": "timeout", "at": 0}
            first_job, first_string = ji, o["timeout_at"] + 1
            if attempt > 200:
                raise ToolError("%s: too many watchdog restarts" % binary)
            continue
        raise ToolError("%s failed with status %s: %s" % (binary, p.returncode, p.stderr.decode("utf-8", "replace")[-2000:]))
    return results


def run_drivers_parallel(binary, jobs, wd, tag, procs=8, budget_env=None):
    if not jobs:
        return {}
    procs = max(1, min(procs, len(jobs)))
    chunks = [jobs[i::procs] for i in range(procs)]
    out = {}
    with ThreadPoolExecutor(max_workers=procs) as ex:
        for r in ex.map(lambda t: _run_driver(binary, t[1], wd, "%s%d" % (tag, t[0]), budget_env), enumerate(chunks)):
            out.update(r)
    return out


def build_lexrun(cases, wd):
    """compile the generated parsers of `cases` into one binary (copied into wd); -> path"""
    gen = os.path.join(wd, "lexrun-gen")
    os.makedirs(gen, exist_ok=True)
    lines = []
    arms = []
    for k, c in enumerate(cases):
        rs = os.path.join(wd, "src", c["id"] + ".rs")
        lines.append('#[path = %s] pub mod g%d;' % (json.dumps(rs), k))
        arms.append('        %s => Some(outcome(g%d::ToksParser::new().parse(text))),' % (json.dumps(c["id"]), k))
    lines.append("pub fn dispatch(case: &str, text: &str) -> Option<Outcome> {")
    lines.append("    match case {")
    lines += arms
    lines.append("        _ => None,")
    lines.append("    }")
    lines.append("}")
    lines.append("pub const CASES: &[&str] = &[%s];" % ", ".join(json.dumps(c["id"]) for c in cases))
    with open(os.path.join(gen, "mods.rs"), "w", encoding="utf-8") as f:
        f.write("\n".join(lines) + "\n")
    dst = os.path.join(wd, "lexrun-bin")
    with FileLock("lexrun-build"):
        env = vlib.cargo_env()
        env["LEXRUN_GEN"] = gen
        with FileLock("cargo"):
            import time
            t0 = time.time()
            p = subprocess.run(["cargo", "build", "--offline", "-q", "-p", "lexrun"], cwd=HARNESS, env=env,
                               capture_output=True, text=True, timeout=1800)
            log("cargo build lexrun (%d generated parsers): %.1fs" % (len(cases), time.time() - t0))
        if p.returncode != 0:
            return None, p.stderr
        import shutil
        shutil.copy(os.path.join(BIN, "lexrun"), dst)
    p = subprocess.run([dst, "--cases"], capture_output=True, text=True)
    if p.returncode != 0 or json.loads(p.stdout) != [c["id"] for c in cases]:
        raise ToolError("lexrun binary does not contain the cases of this run")
    return dst, ""
