--------------------------- MODULE TracePipeline ----------------------------
(***************************************************************************)
(* Validates recorded runs of the real LALRPOP against Pipeline.  The      *)
(* trace (ndjson, IOEnv.PIPE_TRACE) is a concatenation of runs             *)
(*    {ev: "reset", id} {ev: "stage", name} ... {ev: "grammar"}            *)
(*    {ev: "automaton", verdict} ... {ev: "result", status, written}       *)
(* recorded by the hooks `verif::stage`, `record_grammar`, `record_states` *)
(* inside the real code path plus the value `process_file` returned and    *)
(* whether the output file exists.  Every event must be a step of          *)
(* Pipeline; an event that is not moves the run to "rejected" (invariant   *)
(* Accepted), and TLC goes on with the next run.                           *)
(***************************************************************************)
EXTENDS Pipeline, Json, IOUtils

Trace == ndJsonDeserialize(IOEnv.PIPE_TRACE)

VARIABLES i, run
vars == <<pc, failed, i, run>>

Init == PInit /\ i = 0 /\ run = ""

Ev == Trace[i + 1]

Step ==
    \/ Ev.ev = "stage" /\ Ev.name = "parse" /\ Parse
    \/ Ev.ev = "stage" /\ Ev.name = "normalize" /\ Normalize
    \/ Ev.ev = "grammar" /\ Grammar
    \/ Ev.ev = "automaton" /\ Automaton(Ev.verdict)
    \/ Ev.ev = "result" /\ Ev.status = "ok" /\ ResultOk(Ev.written)
    \/ Ev.ev = "result" /\ Ev.status = "err" /\ ResultErr(Ev.written)

Next == /\ i < Len(Trace)
        /\ i' = i + 1
        /\ IF Ev.ev = "reset"
           THEN pc' = "start" /\ failed' = FALSE /\ run' = Ev.id
           ELSE /\ run' = run
                /\ IF pc = "rejected" THEN UNCHANGED <<pc, failed>>
                   ELSE IF ENABLED Step THEN Step
                   ELSE pc' = "rejected" /\ UNCHANGED failed
Spec == Init /\ [][Next]_vars

Accepted == pc # "rejected"
(* a run must be complete when the next one starts / the trace ends *)
Complete == (i < Len(Trace) /\ Ev.ev = "reset" /\ i > 0) => pc \in {"done", "rejected"}
CompleteAtEnd == i = Len(Trace) => pc \in {"done", "rejected", "start"}
Done == i = Len(Trace) => PrintT("@@TRACEDONE " \o ToJson([lines |-> i]))
=============================================================================
