------------------------------- MODULE MCConc -------------------------------
(***************************************************************************)
(* Instances of Concurrent.  With History = TRUE the schedule (which       *)
(* thread took which visible step) is part of the state, so TLC visits     *)
(* every interleaving separately and prints each complete one as a JSON    *)
(* line that the harness imposes on real threads.  With History = FALSE    *)
(* the state space is the plain product (larger inputs, three threads).    *)
(***************************************************************************)
EXTENDS Concurrent, Json

CONSTANT History

VARIABLE sched
hvars == <<pulled, driven, toks, acc, result, cache, filling, sched>>

Inputs2x1 == [t \in {1, 2} |-> IF t = 1 THEN <<"1">> ELSE <<"z">>]
Inputs2x2 == [t \in {1, 2} |-> IF t = 1 THEN <<"1", "z">> ELSE <<"z", "z">>]
Inputs3x1 == [t \in {1, 2, 3} |-> IF t = 1 THEN <<"1">> ELSE IF t = 2 THEN <<"z">> ELSE <<"1">>]
Inputs3x2 == [t \in {1, 2, 3} |-> IF t = 1 THEN <<"1", "z">> ELSE IF t = 2 THEN <<"z", "z", "1">> ELSE <<"1">>]
Inputs2x3 == [t \in {1, 2} |-> IF t = 1 THEN <<"1", "z", "1">> ELSE <<"z", "1", "1">>]
T2 == {1, 2}
T3 == {1, 2, 3}

HInit == Init /\ sched = <<>>
(* visible steps: L = the lexer hands out a token / the end of input, D = an action runs *)
HStep(t) ==
    \/ Lex(t) /\ sched' = IF History /\ pulled'[t] # pulled[t] THEN Append(sched, [t |-> t, ev |-> "L", k |-> pulled'[t]]) ELSE sched
    \/ LexFill(t) /\ sched' = IF History THEN Append(sched, [t |-> t, ev |-> "L", k |-> pulled'[t]]) ELSE sched
    \/ Drive(t) /\ sched' = IF History THEN Append(sched, [t |-> t, ev |-> "D", k |-> driven'[t]]) ELSE sched
    \/ Finish(t) /\ sched' = sched
HNext == \E t \in Threads : HStep(t)
HSpec == HInit /\ [][HNext]_hvars /\ WF_hvars(HNext)

Report == (History /\ AllDone) =>
    PrintT("@@SCHED " \o ToJson([inputs |-> [t \in Threads |-> Input[t]],
                                  expected |-> [t \in Threads |-> Sequential(Input[t])],
                                  results |-> result, sched |-> sched]))
=============================================================================
