//! fsdrv: drives the real `lalrpop::Configuration` API (linked from /repo with the
//! verification hooks on) against a scratch directory and reports what happened to
//! the file system.  It decides nothing: it executes steps, projects files onto the
//! vocabulary of spec/Build.tla and writes one JSON line per step / case.
//!
//!   fsdrv history <job.json> <out.ndjson>   Build histories (C21, C22)
//!   fsdrv cases   <job.json> <out.ndjson>   configured calls over directory trees (C20, C23, C24)
//!   fsdrv tokens  <job.json> <out.ndjson>   Rust token-stream digests (C24)
//!   fsdrv child   <json>                    one call in this process (crash / write-failure victim)
mod call;
mod cases;
mod history;
mod tokens;

fn main() {
    let args: Vec<String> = std::env::args().collect();
    let a = |i: usize| args.get(i).cloned().unwrap_or_default();
    std::panic::set_hook(Box::new(|info| {
        eprintln!("@@PANIC {}", info);
    }));
    match a(1).as_str() {
        "history" => history::main(&a(2), &a(3)),
        "cases" => cases::main(&a(2), &a(3)),
        "tokens" => tokens::main(&a(2), &a(3)),
        "child" => call::child_main(&a(2)),
        _ => {
            eprintln!("usage: fsdrv history|cases|tokens <job.json> <out.ndjson> | fsdrv child <json>");
            std::process::exit(2);
        }
    }
}
