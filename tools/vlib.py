"""Shared plumbing for the /verif checks: paths, cargo, TLC, evidence, findings.

Python here only moves data between TLC, the Rust harness and the real code.
Expected behaviour always comes from the TLA+ specifications under spec/.
"""
import fcntl
import hashlib
import json
import os
import re
import shutil
import subprocess
import sys
import tempfile
import time

ROOT = os.path.dirname(os.path.dirname(os.path.abspath(__file__)))
SPEC = os.path.join(ROOT, "spec")
HARNESS = os.path.join(ROOT, "harness")
TARGET = os.path.join(HARNESS, "target")
SCRATCH = os.path.join(TARGET, "scratch")
CACHE = os.path.join(TARGET, "verif-cache")
EVIDENCE = os.path.join(ROOT, "evidence")
REPLAYS = os.path.join(EVIDENCE, "replay")
REPO = os.environ.get("VERIF_REPO", "/repo")
BIN = os.path.join(TARGET, "debug")


class ToolError(Exception):
    """A failure of the verification machinery itself (exit code 2)."""


def log(*a):
    print("[verif]", *a, file=sys.stderr, flush=True)


def seed_from_env(default=1):
    try:
        return int(os.environ.get("VERIF_SEED", default))
    except ValueError:
        return default


def mkscratch(name):
    os.makedirs(SCRATCH, exist_ok=True)
    return tempfile.mkdtemp(prefix=name + "-", dir=SCRATCH)


def rmtree(p):
    shutil.rmtree(p, ignore_errors=True)


# --------------------------------------------------------------------------
# repository fingerprint (cache key): HEAD + working tree changes + untracked
# --------------------------------------------------------------------------
def repo_fingerprint():
    h = hashlib.sha256()

    def git(*args):
        return subprocess.run(["git", "-C", REPO] + list(args), capture_output=True).stdout

    h.update(git("rev-parse", "HEAD"))
    h.update(git("diff", "HEAD", "--", "lalrpop", "lalrpop-util", "Cargo.toml", "Cargo.lock"))
    for line in git("ls-files", "--others", "--exclude-standard", "--", "lalrpop", "lalrpop-util").splitlines():
        h.update(line)
        try:
            with open(os.path.join(REPO, line.decode()), "rb") as f:
                h.update(f.read())
        except OSError:
            pass
    return h.hexdigest()[:20]


def verif_fingerprint(paths=None):
    """hash of the framework sources an artefact depends on (relative to /verif;
    directories are walked), so that cached artefacts are not reused across
    edits of the machinery that produced them"""
    h = hashlib.sha256()
    paths = paths or ["spec", "tools", "harness/crates", "harness/Cargo.toml", "harness/.cargo"]
    files = []
    for rel in paths:
        p = os.path.join(ROOT, rel)
        if os.path.isdir(p):
            for dp, dn, fn in os.walk(p):
                dn[:] = sorted(d for d in dn if d not in ("target", "__pycache__"))
                files += [os.path.join(dp, f) for f in sorted(fn) if not f.endswith(".pyc")]
        elif os.path.exists(p):
            files.append(p)
    for p in sorted(files):
        h.update(p.encode())
        with open(p, "rb") as fh:
            h.update(fh.read())
    return h.hexdigest()[:20]


class FileLock:
    def __init__(self, name):
        os.makedirs(TARGET, exist_ok=True)
        self.path = os.path.join(TARGET, name + ".lock")

    def __enter__(self):
        self.f = open(self.path, "w")
        fcntl.flock(self.f, fcntl.LOCK_EX)
        return self

    def __exit__(self, *a):
        fcntl.flock(self.f, fcntl.LOCK_UN)
        self.f.close()


def cached(key, builder):
    """Artefact cache: `builder(dirpath)` fills a directory; written by rename."""
    os.makedirs(CACHE, exist_ok=True)
    final = os.path.join(CACHE, key)
    if os.path.exists(os.path.join(final, ".complete")):
        return final
    with FileLock("cache-" + key):
        if os.path.exists(os.path.join(final, ".complete")):
            return final
        rmtree(final)
        tmp = tempfile.mkdtemp(prefix=key + ".tmp", dir=CACHE)
        try:
            builder(tmp)
            open(os.path.join(tmp, ".complete"), "w").close()
            os.rename(tmp, final)
            # disk hygiene: older entries of the same kind / tier / seed belong to other source states
            parts = key.split("-")
            if len(parts) >= 5:
                for e in os.listdir(CACHE):
                    q = e.split("-")
                    if e != key and len(q) == len(parts) and q[0] == parts[0] and q[-2:] == parts[-2:] \
                            and os.path.exists(os.path.join(CACHE, e, ".complete")):
                        rmtree(os.path.join(CACHE, e))
        except BaseException:
            rmtree(tmp)
            raise
    return final


def prune_cache(keep_prefixes):
    """remove cache entries of other repository states (disk hygiene)"""
    if not os.path.isdir(CACHE):
        return
    for e in os.listdir(CACHE):
        if not any(e.startswith(p) for p in keep_prefixes):
            rmtree(os.path.join(CACHE, e))


# --------------------------------------------------------------------------
# cargo
# --------------------------------------------------------------------------
def cargo_env():
    env = dict(os.environ)
    env["CARGO_NET_OFFLINE"] = "true"
    env.pop("RUSTFLAGS", None)  # .cargo/config.toml sets the cfg
    return env


def cargo_build(packages=None, cwd=HARNESS, timeout=1800):
    """(re)build harness binaries against /repo's current working tree, hooks on"""
    cmd = ["cargo", "build", "--offline", "-q"]
    for p in packages or []:
        cmd += ["-p", p]
    with FileLock("cargo"):
        t0 = time.time()
        r = subprocess.run(cmd, cwd=cwd, env=cargo_env(), capture_output=True, text=True, timeout=timeout)
        if r.returncode != 0:
            return r
        log("cargo build %s: %.1fs" % (" ".join(packages or ["(all)"]), time.time() - t0))
        return r


def cargo_build_or_die(packages=None, cwd=HARNESS):
    r = cargo_build(packages, cwd)
    if r.returncode != 0:
        raise ToolError("cargo build failed:\n" + r.stderr[-4000:])


# --------------------------------------------------------------------------
# TLC
# --------------------------------------------------------------------------
class TLCResult:
    def __init__(self):
        self.rc = None
        self.out = ""
        self.generated = 0
        self.distinct = 0
        self.prints = []  # decoded "@@TAG json" lines: (tag, obj)
        self.tuples = []  # raw <<...>> PrintT lines
        self.violations = []  # [{kind, name, trace}]
        self.error = None
        self.wall = 0.0
        self.coverage = {}


_SUMMARY = re.compile(r"(\d+) states generated, (\d+) distinct states found")


def run_tlc(module, cfg, env=None, workers=8, timeout=900, cont=False, simulate=None,
            depth=None, java_opts=None, xmx="6g", extra=None, coverage=False, workdir=None):
    """Run TLC on spec/<module>.tla with spec/<cfg> (or cfg text). Returns TLCResult.

    A TLC *error* (parse error, evaluation error, time-out) raises ToolError.
    Invariant / property violations are returned in .violations."""
    own = workdir is None
    wd = workdir or mkscratch("tlc")
    try:
        for f in os.listdir(SPEC):
            if f.endswith(".tla"):
                shutil.copy(os.path.join(SPEC, f), wd)
        if os.path.exists(os.path.join(SPEC, cfg)):
            shutil.copy(os.path.join(SPEC, cfg), os.path.join(wd, "run.cfg"))
        else:
            with open(os.path.join(wd, "run.cfg"), "w") as f:
                f.write(cfg)
        jopts = ["-Xss1g", "-Xmx" + xmx, "-XX:+UseParallelGC", "-Djava.io.tmpdir=" + wd]
        jopts += java_opts or []
        cmd = ["timeout", str(timeout), "java"] + jopts + [
            "-cp", "/opt/veriftools/tla/tla2tools.jar:/opt/veriftools/tla/CommunityModules-deps.jar",
            "tlc2.TLC", "-workers", str(workers), "-metadir", os.path.join(wd, "meta"),
            "-cleanup", "-noGenerateSpecTE", "-config", "run.cfg"]
        if cont:
            cmd.append("-continue")
        if coverage:
            cmd += ["-coverage", "1"]
        if simulate is not None:
            cmd += ["-simulate", "num=%d" % simulate]
        if depth is not None:
            cmd += ["-depth", str(depth)]
        cmd += extra or []
        cmd.append(module + ".tla")
        e = dict(os.environ)
        e.pop("JAVA_TOOL_OPTIONS", None)
        e.update(env or {})
        t0 = time.time()
        p = subprocess.run(cmd, cwd=wd, env=e, capture_output=True, text=True)
        res = TLCResult()
        res.wall = time.time() - t0
        res.rc = p.returncode
        res.out = p.stdout
        if p.returncode == 124:
            raise ToolError("TLC timed out after %ss on %s" % (timeout, module))
        _parse_tlc_output(res, p.stdout)
        if res.error:
            raise ToolError("TLC error in %s: %s\n%s" % (module, res.error, _tail(p.stdout + p.stderr)))
        if "Model checking completed" not in p.stdout and "Finished in" not in p.stdout \
                and not res.violations and simulate is None:
            raise ToolError("TLC did not complete on %s:\n%s" % (module, _tail(p.stdout + p.stderr)))
        return res
    finally:
        if own:
            rmtree(wd)


def _tail(s, n=3000):
    return s[-n:]


def _parse_tlc_output(res, out):
    lines = out.splitlines()
    i = 0
    while i < len(lines):
        ln = lines[i]
        if ln.startswith('"@@'):
            try:
                s = json.loads(ln)
                tag, _, body = s.partition(" ")
                res.prints.append((tag[2:], json.loads(body)))
            except Exception as ex:  # malformed print: machinery problem
                res.error = "cannot decode print line: %r (%s)" % (ln[:200], ex)
        elif ln.startswith("<<"):
            res.tuples.append(ln)
        elif ln.startswith("Error:"):
            m = re.match(r"Error: Invariant (\S+) is violated", ln)
            m2 = re.match(r"Error: Action property (\S+) is violated", ln)
            m3 = "Temporal properties were violated" in ln or re.search(r"Temporal property \S+ was violated", ln) is not None
            m4 = "Deadlock reached" in ln
            if m or m2 or m3 or m4:
                name = m.group(1) if m else m2.group(1) if m2 else ("temporal" if m3 else "deadlock")
                # gather the trace that follows
                tr = []
                j = i + 1
                while j < len(lines) and not _SUMMARY.search(lines[j]) and not lines[j].startswith("Progress("):
                    lj = lines[j]
                    if lj.startswith("Error: The behavior up to this point is") or \
                            lj.startswith("Error: The following behavior constitutes"):
                        j += 1
                        continue
                    if lj.startswith("Error:") or lj.startswith("Finished computing") or \
                            lj.startswith("Computed ") or lj.startswith("Model checking completed"):
                        break
                    if lj.startswith('"@@'):
                        try:
                            s_ = json.loads(lj)
                            tag, _, body = s_.partition(" ")
                            res.prints.append((tag[2:], json.loads(body)))
                        except Exception as ex:
                            res.error = "cannot decode print line: %r (%s)" % (lj[:200], ex)
                    elif lj.startswith("<<"):
                        res.tuples.append(lj)
                    else:
                        tr.append(lj)
                    j += 1
                res.violations.append({"name": name, "trace": "\n".join(tr)})
                i = j - 1
            elif "The behavior up to this point is" in ln or "The following behavior constitutes" in ln \
                    or "Error: The error occurred when TLC was evaluating the nested" in ln:
                pass
            else:
                # collect some context
                res.error = "\n".join(lines[i:i + 12])
                return
        m = _SUMMARY.search(ln)
        if m:
            res.generated = int(m.group(1))
            res.distinct = int(m.group(2))
        i += 1


def trace_last_state(trace_text):
    """variables of the last state of a TLC counterexample as {name: text}"""
    states = re.split(r"\nState \d+:.*\n", "\n" + trace_text)
    last = states[-1] if states else ""
    out = {}
    cur = None
    for ln in last.splitlines():
        m = re.match(r"^/\\ (\w+) = (.*)$", ln)
        if m:
            cur = m.group(1)
            out[cur] = m.group(2)
        elif cur and ln.strip():
            out[cur] += " " + ln.strip()
    return out


# --------------------------------------------------------------------------
# evidence / violations / known findings
# --------------------------------------------------------------------------
def load_known():
    """known_findings.json plus known_findings.d/*.json (same format)"""
    out = []
    paths = [os.path.join(ROOT, "known_findings.json")]
    d = os.path.join(ROOT, "known_findings.d")
    if os.path.isdir(d):
        paths += sorted(os.path.join(d, f) for f in os.listdir(d) if f.endswith(".json"))
    for p in paths:
        if os.path.exists(p):
            with open(p) as f:
                out += json.load(f)["findings"]
    return out


class Report:
    """Collects what a check covered and the violations it found; writes the
    evidence file, prints VIOLATION / KNOWN-FINDING lines, gives the exit code."""

    def __init__(self, prop, tier, level, seed=None):
        self.prop = prop
        self.tier = tier
        self.level = level
        self.seed = seed_from_env() if seed is None else seed
        self.t0 = time.time()
        self.cov = {}
        self.samples = []
        self.assumptions = []
        self.viol = []  # (key, what, replay_obj)
        self._distinct = set()
        self.evaluations = 0

    def add(self, **kw):
        for k, v in kw.items():
            if isinstance(v, (int, float)) and not isinstance(v, bool) and isinstance(self.cov.get(k), (int, float)):
                self.cov[k] += v
            else:
                self.cov[k] = v

    def sample(self, s, limit=6):
        if len(self.samples) < limit:
            self.samples.append(s)

    def case(self, obj, nontrivial=True):
        """count one explored case; distinct non-trivial ones are hashed"""
        self.evaluations += 1
        if nontrivial:
            self._distinct.add(hashlib.sha1(json.dumps(obj, sort_keys=True, default=str).encode()).digest()[:10])

    def violation(self, key, what, replay):
        self.viol.append((key, what, replay))

    def finish(self, rule, explanation=None):
        os.makedirs(REPLAYS, exist_ok=True)
        known = [k for k in load_known() if k["property"] == self.prop and k.get("status") == "known"]
        new = []
        seen_known = {}
        for key, what, replay in self.viol:
            hit = next((k for k in known if _key_matches(k["key"], key)), None)
            if hit:
                seen_known.setdefault(hit["key"], (hit, what, 0))
                h, w, n = seen_known[hit["key"]]
                seen_known[hit["key"]] = (h, w, n + 1)
            else:
                new.append((key, what, replay))
        for k, (hit, what, n) in seen_known.items():
            print("KNOWN-FINDING: property=%s %s (%d occurrence(s) this run; e.g. %s)" %
                  (self.prop, hit["what"], n, what), flush=True)
        reported = {}
        for key, what, replay in new:
            reported.setdefault(key, (what, replay))
        n = 0
        for key, (what, replay) in list(reported.items())[:10]:
            n += 1
            path = os.path.join(REPLAYS, "%s-%s-%d.json" % (self.prop, self.tier, n))
            with open(path, "w") as f:
                json.dump({"property": self.prop, "key": key, "what": what, "replay": replay,
                           "seed": self.seed, "tier": self.tier}, f, indent=1, default=str)
            print("VIOLATION property=%s replay=%s" % (self.prop, path), flush=True)
            print("  what: %s [%s]" % (what, key), flush=True)
        cov = dict(self.cov)
        cov.setdefault("evaluations", self.evaluations)
        cov.setdefault("distinct_nontrivial", len(self._distinct))
        cov["rule"] = rule
        cov["samples"] = self.samples if self.samples else ["(no sample recorded)"]
        if explanation:
            cov["explanation"] = explanation
        cov["known_findings_seen"] = sorted(seen_known.keys())
        ev = {
            "property_id": self.prop, "tier": self.tier, "seed": self.seed, "level": self.level,
            "coverage": cov, "assumptions": self.assumptions,
            "wall_s": round(time.time() - self.t0, 2), "violations": len(reported),
        }
        os.makedirs(EVIDENCE, exist_ok=True)
        tmp = os.path.join(EVIDENCE, ".%s.json.tmp%d" % (self.prop, os.getpid()))
        with open(tmp, "w") as f:
            json.dump(ev, f, indent=1, default=str)
        os.rename(tmp, os.path.join(EVIDENCE, self.prop + ".json"))
        log("%s %s: %d evaluations, %d distinct, %d violation(s), %d known, %.1fs" %
            (self.prop, self.tier, cov["evaluations"], cov["distinct_nontrivial"], len(reported),
             len(seen_known), time.time() - self.t0))
        return 1 if reported else 0


def _key_matches(pattern, key):
    """a known-finding key is a set of space separated k=v facts; it matches a
    violation whose key contains all of them"""
    have = set(key.split())
    return all(tok in have for tok in pattern.split())
