-------------------------------- MODULE Sem --------------------------------
(***************************************************************************)
(* Meaning of a LALRPOP grammar (core level) and evaluation of a parse.    *)
(*                                                                         *)
(* A case is                                                               *)
(*   [id, G, sp, n, inject, P, inl]                                        *)
(* G, sp as in CanonLR (sp = the augmented production `__S = S`);          *)
(* n = bound on the number of tokens; inject = whether the token stream    *)
(* may deliver one user error instead of a token;                          *)
(* P[p] (same indices as G.prods) describes the alternative as written:    *)
(*   [tag, form, exact, unit, syms, fail]                                  *)
(*   form  "user" | "fallible" | "none" | "start"                          *)
(*   exact TRUE iff the action names its arguments (`<n:X>`): it then gets *)
(*         exactly the named symbols; otherwise (`<>`, or no code) the     *)
(*         selected symbols `<X>` if there are any, else all symbols       *)
(*   unit  TRUE iff the nonterminal's declared type is ()                  *)
(*   syms  the written symbols in order, each                              *)
(*           [k |-> "sym", i |-> index into Rhs(G,p), sel |-> BOOLEAN]     *)
(*         | [k |-> "L" or "R", i |-> number of rhs symbols before it,     *)
(*            sel |-> BOOLEAN]                                             *)
(*         (`@L`/`@R` are not grammar symbols: they do not occur in G)     *)
(*   fail  [on |-> FALSE] or [on |-> TRUE, s |-> index into syms of a      *)
(*         terminal, m, r]: the action returns Err(tag) iff that token's   *)
(*         input index k satisfies k % m = r.                              *)
(*                                                                         *)
(* Documented semantics (book: "Type inference", "Location tracking",      *)
(* "Fallible actions"; properties C02, C06, C17):                          *)
(*  - the values handed to an action are those of the selected symbols     *)
(*    (`<X>` / `<n:X>`) if any symbol is selected, else of all symbols;    *)
(*  - without action code the result is () for unit type, the single       *)
(*    handed value, or the tuple of the handed values;                     *)
(*  - a token's value is its payload (here: its index in the input) and    *)
(*    its span is what the lexer supplied;                                 *)
(*  - a symbol spans (lo of first child, hi of last child); a nonterminal  *)
(*    deriving nothing spans (e, e), e = start of the next token, at end   *)
(*    of input the end of the last consumed symbol, else 0 (default);      *)
(*  - @L = lo of the following symbol | hi of the last one | e;            *)
(*    @R = hi of the preceding symbol | lo of the first one | e;           *)
(*  - actions run once per node, in post-order; an Err from an action or   *)
(*    from the token stream ends the parse with exactly that error.        *)
(*                                                                         *)
(* inl = the nonterminals marked #[inline] (book: "inlining" -- and C14):  *)
(* marking a nonterminal inline changes neither the language nor the       *)
(* values; the actions of an inlined alternative (also fallible ones) run, *)
(* in left-to-right order, just before the action of the alternative they  *)
(* were inlined into.  This is modelled semantically: the parse runs on    *)
(* the grammar as written, an inlined nonterminal's actions are deferred   *)
(* (`pend`) to the reduction of its host.                                  *)
(*                                                                         *)
(* The parse itself is driven by the canonical LR(1) parser (oracle 1);    *)
(* the case's grammar must be LR(1) (a conflict reached during evaluation  *)
(* is reported and the case is discarded by the orchestrator).             *)
(***************************************************************************)
EXTENDS CanonLR, SemVal, Cfg, Prec, Macro, Gen, Types, TLC, Json, IOUtils

(* raw cases; those carrying cfg attributes mean their filtered grammar (Cfg.tla) *)
Raw == JsonDeserialize(IOEnv.EVAL_CASES)
HasCfg(r) == "feats" \in DOMAIN r
Cases == [i \in DOMAIN Raw |-> IF HasCfg(Raw[i]) /\ SelfContained(Raw[i]) THEN ApplyCfg(Raw[i])
                               ELSE IF HasPrec(Raw[i]) THEN ApplyPrec(Raw[i])   \* the documented tiered grammar (Prec.tla)
                               ELSE IF HasSugar(Raw[i]) THEN ApplyMacro(Raw[i]) \* expansion by substitution (Macro.tla)
                               ELSE Raw[i]]
NC == Len(Cases)
Evaluable(k) == /\ HasCfg(Raw[k]) => SelfContained(Raw[k])
                /\ HasSugar(Raw[k]) => MacroOk(Raw[k])
PreOf == [k \in 1..NC |-> Pre(Cases[k].G)]

NoLa == [t |-> "none", k |-> 0]
EofLa == [t |-> EOF, k |-> 0]

VARIABLES c,       \* case index
          stk,     \* sequence of [I, v, lo, hi, pend]; stk[1] is the bottom (initial state, no symbol)
          la,      \* lookahead: NoLa | EofLa | [t |-> terminal, k |-> its position]
          pulled,  \* tokens pulled from the stream so far
          inp,     \* the tokens pulled, in order (the input being built)
          evs,     \* action log: sequence of <<tag, pulled>>
          res      \* [kind |-> "run" | "ok" | "tok" | "eof" | "user" | "inj" | "conflict", ...]
vars == <<c, stk, la, pulled, inp, evs, res>>

GC == Cases[c].G
PC == Cases[c].P
Top == stk[Len(stk)]
Running == [kind |-> "run"]

(* Only LR(1) grammars are evaluated (decided here, by the spec, for the
   whole canonical collection); the verdict is printed for the orchestrator. *)
(* (cases with a fixed long input repeat a grammar already decided in the same batch) *)
LR1Of == [k \in 1..NC |-> Evaluable(k) /\ ("fixed" \in DOMAIN Raw[k] \/ IsLR1(Cases[k].G, PreOf[k], Cases[k].sp))]
ASSUME \A k \in 1..NC :
         PrintT("@@LR1 " \o ToJson([id |-> Cases[k].id, lr1 |-> LR1Of[k], evaluable |-> Evaluable(k),
                                    reduced |-> Evaluable(k) /\ Reduced(Cases[k].G, Lhs(Cases[k].G, Cases[k].sp))]))

(* the documented types of the nonterminals (Types.tla), printed once per case *)
ASSUME \A k \in 1..NC :
         (Evaluable(k) /\ "kinds" \in DOMAIN Cases[k] /\ "fixed" \notin DOMAIN Raw[k]) =>
            PrintT("@@TYPES " \o ToJson([id |-> Cases[k].id, types |-> TypesOf(Cases[k])]))

Init == /\ c \in {k \in 1..NC : LR1Of[k]}
        /\ stk = << [I |-> InitSet(Cases[c].G, PreOf[c], Cases[c].sp), v |-> <<"bot">>, lo |-> 0, hi |-> 0, pend |-> <<>>] >>
        /\ la = NoLa
        /\ pulled = 0
        /\ inp = <<>>
        /\ evs = <<>>
        /\ res = Running

(* ---- the token stream: any terminal, end of input, or one injected error ---- *)
(* a case may fix its input (`fixed`: long inputs, one behaviour) *)
Fixed == "fixed" \in DOMAIN Cases[c]
MayPull(t) == Fixed => (pulled < Len(Cases[c].fixed) /\ Cases[c].fixed[pulled + 1] = t)
MayEnd == Fixed => (pulled = Len(Cases[c].fixed) /\ ~Cases[c].inject)
MayInject == Fixed => pulled = Len(Cases[c].fixed)

Pull ==
  /\ res = Running /\ la = NoLa
  /\ \/ /\ pulled < Cases[c].n
        /\ \E t \in {x \in TSet(GC) : x # "error"} :   \* `!` never occurs in an input
             /\ MayPull(t)
             /\ la' = [t |-> t, k |-> pulled + 1]
             /\ inp' = Append(inp, t)
        /\ pulled' = pulled + 1
        /\ UNCHANGED res
     \/ /\ MayEnd
        /\ la' = EofLa
        /\ UNCHANGED <<inp, pulled, res>>
     \/ /\ Cases[c].inject /\ pulled < Cases[c].n /\ MayInject
        /\ res' = [kind |-> "inj", at |-> pulled + 1]
        /\ UNCHANGED <<la, inp, pulled>>
  /\ UNCHANGED <<c, stk, evs>>

(* ---- values (SemVal.tla) ---- *)
(* position e of an empty span: start of the lookahead token, else the end
   of the last symbol on the stack, else the default location 0 *)
EmptyPos == IF la.t # EOF THEN TokLo(la.k)
            ELSE IF Len(stk) > 1 THEN Top.hi ELSE 0

(* kids: the m = Len(Rhs) topmost stack entries, in order *)
Kids(m) == SubSeq(stk, Len(stk) - m + 1, Len(stk))

(* ---- parser steps (canonical LR(1) actions of the top state) ---- *)
Tok == la.t
Acts == ReducesOn(GC, Top.I, Tok)

Shift ==
  /\ res = Running /\ la # NoLa /\ Tok # EOF
  /\ NActions(GC, Top.I, Tok) = 1 /\ CanShift(GC, Top.I, Tok)
  /\ stk' = Append(stk, [I |-> Goto(GC, PreOf[c], Top.I, Tok), v |-> la.k,
                         lo |-> TokLo(la.k), hi |-> TokHi(la.k), pend |-> <<>>])
  /\ la' = NoLa
  /\ UNCHANGED <<c, pulled, inp, evs, res>>

(* deferred actions: [tag, fails] in the order in which they will run *)
RECURSIVE PendOf(_, _)
PendOf(kids, i) == IF i > Len(kids) THEN <<>> ELSE kids[i].pend \o PendOf(kids, i + 1)

(* index of the first failing action in a sequence of [tag, fails], 0 if none *)
FirstFail(acts) == LET F == {i \in DOMAIN acts : acts[i].fails}
                   IN IF F = {} THEN 0 ELSE CHOOSE i \in F : \A j \in F : i <= j

IsInline(p) == \E i \in DOMAIN Cases[c].inl : Cases[c].inl[i] = Lhs(GC, p)

Reduce ==
  /\ res = Running /\ la # NoLa
  /\ NActions(GC, Top.I, Tok) = 1 /\ ~(Tok # EOF /\ CanShift(GC, Top.I, Tok))
  /\ LET p == CHOOSE q \in Acts : TRUE
         m == Len(Rhs(GC, p))
         kids == Kids(m)
     IN IF p = Cases[c].sp
        THEN /\ res' = [kind |-> "ok", value |-> kids[1].v]
             /\ UNCHANGED <<stk, evs>>
        ELSE LET acts == PendOf(kids, 1) \o
                          (IF RunsCode(PC[p])
                           THEN << [tag |-> PC[p].tag, fails |-> Fails(PC[p], kids, EmptyPos)] >> ELSE <<>>)
                 base == SubSeq(stk, 1, Len(stk) - m)
                 from == base[Len(base)].I
                 entry(pend) == [I |-> Goto(GC, PreOf[c], from, Lhs(GC, p)),
                                 v |-> ProdValue(PC[p], kids, EmptyPos),
                                 lo |-> SpanLo(kids, EmptyPos), hi |-> SpanHi(kids, EmptyPos), pend |-> pend]
             IN IF IsInline(p)
                THEN /\ stk' = Append(base, entry(acts))
                     /\ UNCHANGED <<evs, res>>
                ELSE LET ff == FirstFail(acts)
                         ran == IF ff = 0 THEN acts ELSE SubSeq(acts, 1, ff)
                     IN /\ evs' = evs \o [i \in DOMAIN ran |-> <<ran[i].tag, pulled>>]
                        /\ IF ff # 0
                           THEN /\ res' = [kind |-> "user", tag |-> acts[ff].tag]
                                /\ UNCHANGED stk
                           ELSE /\ stk' = Append(base, entry(<<>>))
                                /\ UNCHANGED res
  /\ UNCHANGED <<c, la, pulled, inp>>

(* no action: the first token that cannot continue the input *)
Error ==
  /\ res = Running /\ la # NoLa
  /\ NActions(GC, Top.I, Tok) = 0
  /\ res' = IF Tok # EOF
            THEN [kind |-> "tok", k |-> la.k, lo |-> TokLo(la.k), hi |-> TokHi(la.k),
                  valid |-> ValidNext(GC, Top.I)]
            ELSE [kind |-> "eof", loc |-> IF pulled = 0 THEN 0 ELSE TokHi(pulled),
                  valid |-> ValidNext(GC, Top.I)]
  /\ UNCHANGED <<c, stk, la, pulled, inp, evs>>

Conflict ==
  /\ res = Running /\ la # NoLa
  /\ NActions(GC, Top.I, Tok) > 1
  /\ res' = [kind |-> "conflict"]
  /\ UNCHANGED <<c, stk, la, pulled, inp, evs>>

Next == Pull \/ Shift \/ Reduce \/ Error \/ Conflict
Spec == Init /\ [][Next]_vars

(* ---- one record per finished behaviour (evaluated once per distinct state) ---- *)
Emit == res # Running =>
          PrintT("@@REPLAY " \o ToJson([id |-> Cases[c].id, input |-> inp, pulled |-> pulled,
                                       events |-> evs, res |-> res, la |-> la.t]))

(* ---- properties of the specification itself ---- *)
(* sanity net (Gen.tla): on cases marked `gen` the canonical parser accepts
   exactly the derivable sentences and rejects no prefix of one *)
SentOf == [k \in 1..NC |-> IF "gen" \in DOMAIN Raw[k] /\ LR1Of[k]
                           THEN Sentences(Cases[k].G, Lhs(Cases[k].G, Cases[k].sp), Cases[k].n) ELSE {}]
GenAgree == ("gen" \in DOMAIN Raw[c]) =>
              /\ res.kind = "ok"  => inp \in SentOf[c]
              /\ res.kind = "eof" => inp \notin SentOf[c]
              /\ res.kind = "tok" => \A s \in SentOf[c] : ~IsPrefixOf(inp, s)

(* the canonical parser never pulls past a token it rejects, and runs each
   action with the lookahead already pulled *)
TypeOK == /\ pulled <= Cases[c].n
          /\ Len(inp) = pulled
          /\ \A i \in DOMAIN evs : evs[i][2] <= pulled
=============================================================================
