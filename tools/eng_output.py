"""C20 / C24: observations of what the real generator emits, judged by
spec/Output.tla (OutputFunctional: the first observation of a key defines
Gen(key), every later one must agree)."""
import glob
import json
import os
import subprocess

import eng_paths as ep
import vlib
from vlib import BIN, REPO, ToolError, log, mkscratch, rmtree, run_tlc, trace_last_state

# grammars written for this check: many macro instances, inferred types, conditions, precedence
CUSTOM = {
    "v_macros": r'''
grammar;
Comma<T>: Vec<T> = { <mut v:(<T> ",")*> <e:T?> => match e { None => v, Some(e) => { v.push(e); v } } };
Semi<T>: Vec<T> = { <mut v:(<T> ";")*> <e:T?> => match e { None => v, Some(e) => { v.push(e); v } } };
Pair<A, B>: (A, B) = <a:A> ":" <b:B> => (a, b);
Triple<A, B, C>: (A, B, C) = <a:A> "/" <b:B> "/" <c:C> => (a, b, c);
List<T>: Vec<T> = "[" <Comma<T>> "]";
Block<T>: Vec<T> = "{" <Semi<T>> "}";
Opt<T>: Option<T> = { "some" <T> => Some(<>), "none" => None };
Id: &'input str = r"[a-z]+";
Num: &'input str = r"[0-9]+";
Str: &'input str = r#""[^"]*""#;
pub P1: usize = List<Pair<Id, Num>> => <>.len();
pub P2: usize = Block<Pair<Num, List<Id>>> => <>.len();
pub P3: usize = Comma<Triple<Id, Opt<Num>, List<Str>>> => <>.len();
pub P4: usize = Semi<Pair<Opt<Id>, Block<Opt<Num>>>> => <>.len();
pub P5: usize = List<List<List<Pair<Str, Id>>>> => <>.len();
pub P6: usize = Block<Triple<Num, Num, Pair<Id, Opt<List<Num>>>>> => <>.len();
''',
    "v_inferred": r'''
grammar;
Comma<T> = (<T> ",")*;
Wrap<T> = "(" <T> ")";
Two<A, B> = A B;
Maybe<T> = T?;
Many<T> = T+;
Id = r"[a-z]+";
Num = r"[0-9]+";
Sym = { "+", "-", "*" };
pub Q1 = Comma<Two<Id, Num>>;
pub Q2 = Wrap<Many<Two<Maybe<Id>, Sym>>>;
pub Q3 = Two<Comma<Wrap<Num>>, Maybe<Many<Sym>>>;
pub Q4 = Many<Wrap<Two<Two<Id, Id>, Two<Num, Maybe<Num>>>>>;
pub Q5 = Comma<Wrap<Comma<Wrap<Two<Id, Sym>>>>>;
''',
    "v_cond": r'''
grammar;
Expr<M>: i32 = {
    <l:Expr<M>> "+" <r:Term<M>> => l + r,
    <l:Expr<M>> "-" <r:Term<M>> if M == "full" => l - r,
    Term<M>,
};
Term<M>: i32 = {
    <l:Term<M>> "*" <r:Atom<M>> => l * r,
    <l:Term<M>> "/" <r:Atom<M>> if M != "plain" => l / r,
    Atom<M>,
};
Atom<M>: i32 = {
    r"[0-9]+" => <>.parse().unwrap(),
    "(" <Expr<M>> ")",
    "neg" <Atom<M>> if M ~~ "f.*" => -<>,
};
pub Full: i32 = Expr<"full">;
pub Plain: i32 = Expr<"plain">;
pub Other: i32 = Expr<"other">;
''',
    "v_prec": r'''
grammar;
pub E: i64 = {
    #[precedence(level="0")]
    r"[0-9]+" => <>.parse().unwrap(),
    "(" <E> ")",
    #[precedence(level="1")] #[assoc(side="right")]
    <l:E> "^" <r:E> => l.pow(r as u32),
    #[precedence(level="2")] #[assoc(side="left")]
    <l:E> "*" <r:E> => l * r,
    <l:E> "/" <r:E> => l / r,
    #[precedence(level="3")] #[assoc(side="left")]
    <l:E> "+" <r:E> => l + r,
    <l:E> "-" <r:E> => l - r,
    #[precedence(level="4")] #[assoc(side="none")]
    <l:E> "==" <r:E> => (l == r) as i64,
};
pub L: Vec<i64> = { <mut v:(<E> ",")*> <e:E?> => { v.extend(e); v } };
''',
    "v_ascent": r'''
#[recursive_ascent]
grammar;
List<T>: Vec<T> = T*;
Kv<K, V>: (K, V) = <K> "=" <V>;
K: &'input str = r"[a-z]+";
V: &'input str = r"[0-9]+";
pub Cfg: Vec<(&'input str, &'input str)> = List<Kv<K, V>>;
pub Rev: Vec<(&'input str, &'input str)> = List<Kv<V, K>>;
''',
}

CUSTOM["v_multiline"] = r'''
grammar;
// string literals of action code that run over several lines (ordinary, raw, byte): their contents are tokens
pub Msg: String = {
    "a" => "first line
        second line
    third".to_string(),
    "b" => r#"raw one
          raw two"#.to_string(),
    "c" <n:Num> => {
        let s = format!("{} items
  listed", n);
        s
    },
};
pub Bytes: Vec<u8> = "d" => b"bytes one
      bytes two".to_vec();
Num: usize = r"[0-9]+" => <>.len();
'''

FLAGS = [(c, w, r) for c in (False, True) for w in (True, False) for r in (False, True)]


def random_grammars(seed, n, d):
    """seeded random core grammars (the generator of the sim engine), half of them with the recursive-ascent back end"""
    try:
        import gen
        pop = gen.random_population(seed, n, max_nt=5, max_t=5, max_prods=12)
    except Exception as ex:  # the generator belongs to another engine: its absence only shrinks the population
        log("random grammars not available: %s" % ex)
        return []
    # LR(1)-but-not-LALR(1) families: only they reach the lane-table state splitter (clones, merge order)
    import random
    rng = random.Random(seed * 7 + 11)
    fam = [gen.lr1_not_lalr(rng, 900000 + i) for i in range(max(12, n // 2))]
    for i, g in enumerate(fam):
        g["id"] = "nl%04d" % i
    pop = list(pop) + fam
    out = []
    for k, g in enumerate(pop):
        gid = "g_%s" % g["id"]
        p = os.path.join(d, gid + ".lalrpop")
        with open(p, "w") as f:
            f.write(gen.render_plain(g, codegen_attr="#[recursive_ascent]" if k % 2 else ""))
        out.append((gid, p))
    return out


def grammars(tier, workdir, seed=1, nrandom=None):
    """-> [(id, path)] : the repository's own grammars, the ones above, and seeded random ones"""
    out = []
    d = os.path.join(workdir, "custom")
    os.makedirs(d, exist_ok=True)
    for gid, text in sorted(CUSTOM.items()):
        p = os.path.join(d, gid + ".lalrpop")
        with open(p, "w") as f:
            f.write(text.lstrip("\n"))
        out.append((gid, p))
    repo = sorted(set(glob.glob(os.path.join(REPO, "lalrpop-test/src/**/*.lalrpop"), recursive=True)))
    repo.append(os.path.join(REPO, "lalrpop/src/parser/lrgrammar.lalrpop"))
    for p in repo:
        gid = "r_" + os.path.relpath(p, REPO).replace("/", "_").replace(".lalrpop", "")
        if os.path.getsize(p) > 200_000:
            continue
        out.append((gid, p))
    if tier == "quick":
        # the large outputs are kept for the thorough tier
        out = [(g, p) for g, p in out if "issue_394" not in g]
    out += random_grammars(seed, nrandom if nrandom is not None else (200 if tier == "thorough" else 16), d)
    return out


def usable(gs):
    """the population is the set of grammars LALRPOP accepts under the default configuration; a grammar written
    for this check that is rejected is a mistake in the check"""
    cases = [case_alone(k, gid, path, (False, True, False), subprocess_=False) for k, (gid, path) in enumerate(gs)]
    res = ep.run_cases(cases)
    out = []
    for k, (gid, path) in enumerate(gs):
        if res[k]["status"] == "ok":
            out.append((gid, path))
        elif gid in CUSTOM:
            raise ToolError("grammar %s of the check is rejected by LALRPOP: %s" % (gid, res[k]["message"]))
        else:
            log("grammar %s left out of the population: %s %s" % (gid, res[k]["status"], res[k]["message"][:100]))
    return out


def tlc_batches(slots):
    r = run_tlc("MCBatches", "SPECIFICATION Spec\nCONSTANT Slots = %d\nCHECK_DEADLOCK FALSE\n" % slots, workers=1)
    b = [o["order"] for t, o in r.prints if t == "BATCH"]
    if not b:
        raise ToolError("MCBatches printed no batch")
    return b


def judge(observations):
    """observations: [{key, digest, ...}] -> (violating indices, TLC result)"""
    wd = mkscratch("outp")
    try:
        tf = os.path.join(wd, "obs.ndjson")
        with open(tf, "w") as f:
            for o in observations:
                f.write(json.dumps({"key": o["key"], "digest": o["digest"]}) + "\n")
        r = run_tlc("Output", "SPECIFICATION Spec\nCHECK_DEADLOCK FALSE\nINVARIANT OutputFunctional\nPOSTCONDITION Accepted\n",
                    env={"TRACE": tf}, workers=1, cont=True, workdir=wd, timeout=900)
    finally:
        rmtree(wd)
    cons = [o for t, o in r.prints if t == "CONSUMED"]
    if not cons or cons[0]["lines"] != len(observations):
        raise ToolError("Output.tla consumed %s of %d observations" % (cons, len(observations)))
    bad = []
    for v in r.violations:
        if v["name"] != "OutputFunctional":
            raise ToolError("Output.tla: %s" % v["name"])
        bad.append(int(trace_last_state(v["trace"])["l"]) - 2)  # l points after the offending line; 0-based index
    return sorted(set(bad)), r


def first_of(observations, key):
    return next(o for o in observations if o["key"] == key)


def case_alone(k, gid, path, flags, subprocess_=True, tokens=False):
    c, w, r = flags
    return {"id": k, "tree": [{"path": "in/%s.lalrpop" % gid, "kind": "copy", "from": path}], "cwd": "", "env": {},
            "call": {"call": "process_file", "arg": "in/%s.lalrpop" % gid, "set_out_dir": "out", "force": True,
                     "comments": c, "whitespace": w, "report": r},
            "expect": [], "subprocess": subprocess_, "want_tokens": tokens}


def case_batch(k, order, group, flags=(False, True, False)):
    c, w, r = flags
    tree = []
    names = {}
    for pos, slot in enumerate(order):
        gid, path = group[slot - 1]
        n = "%d_%s" % (pos, gid)
        names[n] = gid
        tree.append({"path": "in/%s.lalrpop" % n, "kind": "copy", "from": path})
    return {"id": k, "tree": tree, "cwd": "", "env": {},
            "call": {"call": "process_dir", "arg": "in", "set_out_dir": "out", "force": True,
                     "comments": c, "whitespace": w, "report": r},
            "expect": [], "subprocess": True}, names


def flag_name(flags):
    c, w, r = flags
    return "comments=%s,whitespace=%s,report=%s" % (int(c), int(w), int(r))


def replay(obj):
    """re-run the two observations that disagreed"""
    vlib.cargo_build_or_die(["fsdrv"])
    wd = mkscratch("outr")
    try:
        gs = dict(grammars("thorough", wd, obj.get("seed", 1), obj.get("nrandom")))
        cases = []
        for k, o in enumerate(obj["observations"]):
            if o["how"].startswith("batch"):
                group = [(g, gs[g]) for g in o["group"]]
                c, names = case_batch(k, o["order"], group, tuple(o["flags"]))
                cases.append(c)
            else:
                cases.append(case_alone(k, o["grammar"], gs[o["grammar"]], tuple(o["flags"]), tokens=obj.get("tokens", False)))
        res = ep.run_cases(cases)
        digs = []
        for k, o in enumerate(obj["observations"]):
            for f in res[k]["rs"]:
                if f["phys"].endswith(o["grammar"] + ".rs"):
                    d = f["tokens"].get("digest") if obj.get("tokens") else f["sha3"]
                    digs.append(d)
                    print("  %s %s -> %s" % (o["grammar"], o["how"], d))
        if len(digs) == 2 and digs[0] != digs[1]:
            print("REPRODUCED: the two observations differ")
            return 1
        print("not reproduced on this run (a hash-seed dependent difference may need several runs)")
        return 0
    finally:
        rmtree(wd)
