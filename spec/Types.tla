------------------------------- MODULE Types -------------------------------
(***************************************************************************)
(* The type of every nonterminal as the documentation prescribes (book:    *)
(* "Type inference", "Macros"; property C19):                              *)
(*  - a declared type is the type;                                         *)
(*  - otherwise the type is that of an alternative without action code:    *)
(*    the type of its single handed symbol, () for none, else the tuple of *)
(*    the handed symbols' types (handed = the `<..>`-selected symbols if   *)
(*    any, else all);                                                      *)
(*  - a terminal has the type its extern pattern selects (here usize),     *)
(*    `@L`/`@R` the location type (usize), `!` the ErrorRecovery type;     *)
(*  - X* and X+ are Vec<type of X>, X? is Option<type of X>, a group is    *)
(*    typed like an alternative without action code.                       *)
(* A case carries `kinds`: per nonterminal (same order as G.nts) "V" (the  *)
(* harness' value type, declared), "unit" (declared ()), or "infer".       *)
(* Types are terms <<"V">>, <<"unit">>, <<"usize">>, <<"recovery">>,       *)
(* <<"tuple", t1, ..>>, <<"vec", t>>, <<"opt", t>>, <<"ref", t>>,          *)
(* <<"box", t>> (macro instances whose declared type mentions a parameter  *)
(* behind a reference / inside a generic: kinds "ref", "box").             *)
(***************************************************************************)
EXTENDS Grammar, SemVal

KindOf(C, A) == LET S == {i \in DOMAIN C.G.nts : C.G.nts[i] = A}
                IN IF S = {} THEN "V" ELSE C.kinds[CHOOSE i \in S : TRUE]

RECURSIVE TypeOfNt(_, _, _), SymType(_, _, _, _), AltType(_, _, _)

SymType(C, p, s, fuel) ==
  IF s.k \in {"L", "R"} THEN <<"usize">>
  ELSE LET x == Rhs(C.G, p)[s.i] IN
       IF x = "error" THEN <<"recovery">>
       ELSE IF x \in NtSet(C.G) THEN TypeOfNt(C, x, fuel)
       ELSE <<"usize">>

AltType(C, p, fuel) ==
  LET Pp == C.P[p]
      first == [k |-> "sym", i |-> 1, sel |-> FALSE]
  IN CASE Pp.form = "vec1"    -> <<"vec", SymType(C, p, first, fuel)>>
       [] Pp.form = "vecpush" -> SymType(C, p, first, fuel)
       [] Pp.form = "some"    -> <<"opt", SymType(C, p, first, fuel)>>
       [] OTHER ->
            LET idx == SeqOfSet(Handed(Pp))
                ts == [j \in DOMAIN idx |-> SymType(C, p, Pp.syms[idx[j]], fuel)]
            IN IF Len(ts) = 1 THEN ts[1] ELSE IF Len(ts) = 0 THEN <<"unit">> ELSE <<"tuple">> \o ts

(* alternatives whose form says nothing about the type on their own *)
Silent(Pp) == Pp.form \in {"vec0", "noneo"}

TypeOfNt(C, A, fuel) ==
  IF fuel = 0 THEN <<"cyclic">>
  ELSE LET k == KindOf(C, A) IN
       IF k = "V" THEN <<"V">>
       ELSE IF k = "unit" THEN <<"unit">>
       ELSE IF k \in {"ref", "box"} THEN
            \* a macro instance declared  Option<&'static P>  /  Box<P> : P is the type of the argument, which is the
            \* (only) symbol of the instance's first alternative
            LET p0 == CHOOSE p \in ProdsOf(C.G, A) : \A q \in ProdsOf(C.G, A) : p <= q
                t == SymType(C, p0, [k |-> "sym", i |-> 1, sel |-> FALSE], fuel - 1)
            IN IF k = "ref" THEN <<"opt", <<"ref", t>>>> ELSE <<"box", t>>
       ELSE LET ps == {p \in ProdsOf(C.G, A) : ~Silent(C.P[p])}
            IN IF ps = {} THEN <<"unit">>
               ELSE AltType(C, CHOOSE p \in ps : \A q \in ps : p <= q, fuel - 1)

TypesOf(C) == [i \in DOMAIN C.G.nts |-> [nt |-> C.G.nts[i], ty |-> TypeOfNt(C, C.G.nts[i], 12)]]
=============================================================================
