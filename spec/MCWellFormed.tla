---------------------------- MODULE MCWellFormed ----------------------------
(***************************************************************************)
(* Population for C18: all single and double mutations of a few base       *)
(* grammars (abstract syntax of WellFormed.tla).  TLC explores             *)
(*      base --Mutate--> mutant --Mutate2--> double mutant                 *)
(* and prints every grammar it reaches as JSON together with the rules of  *)
(* WellFormed it breaks.  The bases must be well-formed (checked).         *)
(***************************************************************************)
EXTENDS WellFormed, Json

CONSTANTS UseBases,      \* set of base indices to start from
          Depth2Bases    \* set of base indices that are mutated twice

A(id, arg, val) == [id |-> id, arg |-> arg, val |-> val]
Sy(k, n) == [k |-> k, n |-> n, bind |-> "", op |-> "", args |-> <<>>]
T(n)  == Sy("t", n)
RE(n) == Sy("re", n)
NT(n) == Sy("nt", n)
MAC(n, args) == [k |-> "macro", n |-> n, bind |-> "", op |-> "", args |-> args]
B(s, b) == [s EXCEPT !.bind = b]
Op(s, o) == [s EXCEPT !.op = o]
Alt(attrs, syms, action) == [attrs |-> attrs, syms |-> syms, action |-> action]
Item(name, pub, attrs, params, ty, alts) ==
    [name |-> name, pub |-> pub, attrs |-> attrs, params |-> params, ty |-> ty, alts |-> alts]
Tok(lit, re, name) == [lit |-> lit, re |-> re, name |-> name]

BaseExpr ==
  [gattrs |-> <<>>, lexer |-> "intern", both |-> FALSE, loc |-> FALSE, toks |-> <<>>,
   items |-> <<
     Item("Expr", TRUE, <<>>, <<>>, "i32", <<
        Alt(<<A("precedence", "level", "1")>>, <<NT("Term")>>, "none"),
        Alt(<<A("precedence", "level", "2"), A("assoc", "side", "left")>>,
            <<B(NT("Expr"), "l"), T("\"*\""), B(NT("Expr"), "r")>>, "user"),
        Alt(<<>>, <<B(NT("Expr"), "l"), T("\"/\""), B(NT("Expr"), "r")>>, "user"),
        Alt(<<A("precedence", "level", "3"), A("assoc", "side", "right")>>,
            <<B(NT("Expr"), "l"), T("\"+\""), B(NT("Expr"), "r")>>, "user") >>),
     Item("Term", FALSE, <<>>, <<>>, "i32", <<
        Alt(<<>>, <<NT("Num")>>, "none"),
        Alt(<<>>, <<T("\"(\""), B(NT("Expr"), "<>"), T("\")\"")>>, "none") >>),
     Item("Num", FALSE, <<>>, <<>>, "i32", << Alt(<<>>, <<RE("[0-9]+")>>, "user") >>) >>]

BaseMacro ==
  [gattrs |-> <<>>, lexer |-> "intern", both |-> FALSE, loc |-> FALSE, toks |-> <<>>,
   items |-> <<
     Item("List", TRUE, <<>>, <<>>, "Vec<i32>", << Alt(<<>>, <<MAC("Comma", <<"Num">>)>>, "none") >>),
     Item("Comma", FALSE, <<>>, <<"T">>, "Vec<T>", <<
        Alt(<<>>, <<B(NT("T"), "e")>>, "user"),
        Alt(<<>>, <<B(MAC("Comma", <<"T">>), "v"), T("\",\""), B(NT("T"), "e")>>, "user") >>),
     Item("Num", FALSE, <<A("inline", "", "")>>, <<>>, "i32", <<
        Alt(<<>>, <<RE("[0-9]+")>>, "user"),
        Alt(<<>>, <<T("\"(\""), NT("Neg"), T("\")\"")>>, "user") >>),
     Item("Neg", FALSE, <<>>, <<>>, "i32", << Alt(<<>>, <<T("\"-\""), NT("Num")>>, "user") >>) >>]

BaseExtern ==
  [gattrs |-> <<>>, lexer |-> "extern", both |-> FALSE, loc |-> TRUE,
   toks |-> <<Tok("\"a\"", FALSE, "Tok::A"), Tok("\"b\"", FALSE, "Tok::B")>>,
   items |-> <<
     Item("S", TRUE, <<>>, <<>>, "()", <<
        Alt(<<>>, <<B(Sy("L", ""), "lo"), T("\"a\""), B(Sy("R", ""), "hi")>>, "user"),
        Alt(<<>>, <<Sy("err", ""), T("\"b\"")>>, "user"),
        Alt(<<>>, <<T("\"b\""), Op(NT("A"), "*")>>, "user"),
        Alt(<<>>, <<T("\"a\""), T("\"a\""), NT("C")>>, "user") >>),
     Item("A", FALSE, <<>>, <<>>, "()", << Alt(<<>>, <<T("\"a\""), T("\"b\"")>>, "user") >>),
     Item("C", FALSE, <<>>, <<>>, "()", <<
        Alt(<<>>, <<T("\"b\"")>>, "user"),
        Alt(<<>>, <<NT("C"), T("\"b\"")>>, "user") >>) >>]

BaseMatch ==
  [gattrs |-> <<>>, lexer |-> "match", both |-> FALSE, loc |-> FALSE,
   toks |-> <<Tok("\"if\"", FALSE, "IF"), Tok("[a-z]+", TRUE, "ID")>>,
   items |-> <<
     Item("P", TRUE, <<>>, <<>>, "()", <<
        Alt(<<>>, <<NT("IF"), NT("ID")>>, "user"),
        Alt(<<>>, <<Op(NT("ID"), "+")>>, "user"),
        Alt(<<>>, <<T("\"(\""), NT("P"), T("\")\"")>>, "user") >>) >>]

Bases == <<BaseExpr, BaseMacro, BaseExtern, BaseMatch>>
BaseNames == <<"expr", "macro", "extern", "match">>

ASSUME \A b \in DOMAIN Bases : WellFormedGrammar(Bases[b])

(* ------------------------------- mutations ------------------------------ *)
RemoveAt(s, k) == [j \in 1..Len(s) - 1 |-> IF j < k THEN s[j] ELSE s[j + 1]]
AltPos(g)  == {<<i, a>> : i \in ItemIdx(g), a \in 1..8} \cap {<<i, a>> \in (ItemIdx(g) \X (1..8)) : a \in DOMAIN g.items[i].alts}
AttrPos(g) == {p \in (ItemIdx(g) \X (1..8) \X (1..4)) :
                 p[2] \in DOMAIN g.items[p[1]].alts /\ p[3] \in DOMAIN g.items[p[1]].alts[p[2]].attrs}
SymPos(g)  == {p \in (ItemIdx(g) \X (1..8) \X (1..5)) :
                 p[2] \in DOMAIN g.items[p[1]].alts /\ p[3] \in DOMAIN g.items[p[1]].alts[p[2]].syms}

NewAltAttrs == {A("assoc", "side", "left"), A("assoc", "side", "all"), A("assoc", "", ""), A("precedence", "level", "1"),
                A("precedence", "level", "9"), A("precedence", "", ""), A("foo", "", ""), A("inline", "", "")}
BadVals == {"x", "", "-1", "4294967296", "0", "7", "1", "middle", "right"}

(* attributes of alternatives: missing / renamed / bad arguments, duplicates, removal, additions *)
MutAttrs(g) ==
    {[g EXCEPT !.items[p[1]].alts[p[2]].attrs[p[3]].arg = x] : p \in AttrPos(g), x \in {"", "lvl"}}
    \cup {[g EXCEPT !.items[p[1]].alts[p[2]].attrs[p[3]].val = x] : p \in AttrPos(g), x \in BadVals}
    \cup {[g EXCEPT !.items[p[1]].alts[p[2]].attrs = Append(@, @[p[3]])] : p \in AttrPos(g)}
    \cup {[g EXCEPT !.items[p[1]].alts[p[2]].attrs = RemoveAt(@, p[3])] : p \in AttrPos(g)}
    \cup {[g EXCEPT !.items[p[1]].alts[p[2]].attrs = Append(@, at)] : p \in AltPos(g), at \in NewAltAttrs}
    \cup {[g EXCEPT !.items[p[1]].alts[p[2]].attrs = <<at>> \o @] : p \in AltPos(g), at \in {A("assoc", "side", "left")}}

(* items: attributes, visibility, names, types, parameters, alternatives *)
MutItems(g) ==
    {[g EXCEPT !.items[i].attrs = Append(@, at)] : i \in ItemIdx(g),
         at \in {A("inline", "", ""), A("foo", "", ""), A("inline", "x", "y"), A("precedence", "level", "1")}}
    \cup {[g EXCEPT !.items[i].pub = ~@] : i \in ItemIdx(g)}
    \cup {[g EXCEPT !.items[i].name = n] : i \in ItemIdx(g), n \in Names(g) \cup {"Fresh"}}
    \cup {[g EXCEPT !.items[i].ty = ""] : i \in ItemIdx(g)}
    \cup {[g EXCEPT !.items[i].alts = <<>>] : i \in ItemIdx(g)}
    \cup {[g EXCEPT !.items[i].params = <<>>] : i \in ItemIdx(g)}
    \cup {[g EXCEPT !.items[i].params = Append(@, "U")] : i \in ItemIdx(g)}
    \cup {[g EXCEPT !.items = Append(@, @[i])] : i \in ItemIdx(g)}

(* alternatives: action kinds, no symbols at all *)
MutAlts(g) ==
    {[g EXCEPT !.items[p[1]].alts[p[2]].action = x] : p \in AltPos(g), x \in {"none", "user", "fallible"}}
    \cup {[g EXCEPT !.items[p[1]].alts[p[2]].syms = <<>>] : p \in AltPos(g)}
    \cup {[g EXCEPT !.items[p[1]].alts = RemoveAt(@, p[2])] : p \in AltPos(g)}
    \cup {[g EXCEPT !.items[p[1]].alts = Append(@, @[p[2]])] : p \in AltPos(g)}

(* symbols: undefined names, macro misuse, selections, repetition, `!`, bad regexes *)
SymAt(g, p) == g.items[p[1]].alts[p[2]].syms[p[3]]
SetSym(g, p, s) == [g EXCEPT !.items[p[1]].alts[p[2]].syms[p[3]] = s]
MutSyms(g) ==
    {SetSym(g, p, [SymAt(g, p) EXCEPT !.n = "Nope"]) : p \in {q \in SymPos(g) : SymAt(g, q).k \in {"nt", "macro"}}}
    \cup {SetSym(g, p, [SymAt(g, p) EXCEPT !.n = "\"zz\""]) : p \in {q \in SymPos(g) : SymAt(g, q).k = "t"}}
    \cup {SetSym(g, p, [SymAt(g, p) EXCEPT !.k = "macro", !.args = x]) :
             p \in {q \in SymPos(g) : SymAt(g, q).k = "nt"}, x \in {<<"Num">>, <<>>}}
    \cup {SetSym(g, p, [SymAt(g, p) EXCEPT !.k = "nt", !.args = <<>>]) : p \in {q \in SymPos(g) : SymAt(g, q).k = "macro"}}
    \cup {SetSym(g, p, [SymAt(g, p) EXCEPT !.args = x]) :
             p \in {q \in SymPos(g) : SymAt(g, q).k = "macro"},
             x \in {<<>>, <<"Num", "Num">>, <<"\"x\"">>, <<"Comma<T>">>, <<"Comma<Comma<T>>">>, <<"Nope">>}}
    \cup {SetSym(g, p, [SymAt(g, p) EXCEPT !.bind = x]) : p \in SymPos(g), x \in {"", "<>", "l", "x"}}
    \cup {SetSym(g, p, [SymAt(g, p) EXCEPT !.op = x]) : p \in SymPos(g), x \in {"", "*", "+", "?"}}
    \cup {SetSym(g, p, Sy("err", "")) : p \in SymPos(g)}
    \cup {SetSym(g, p, Sy(x, "")) : p \in SymPos(g), x \in {"L", "R"}}
    \cup {SetSym(g, p, [SymAt(g, p) EXCEPT !.n = x]) : p \in {q \in SymPos(g) : SymAt(g, q).k = "re"}, x \in BadRegex}
    \cup {SetSym(g, p, RE(x)) : p \in {q \in SymPos(g) : SymAt(g, q).k = "t"}, x \in {"(", "\\b", "[a-z]+"}}
    \cup {[g EXCEPT !.items[p[1]].alts[p[2]].syms = Append(@, @[p[3]])] : p \in SymPos(g)}
    \cup {[g EXCEPT !.items[p[1]].alts[p[2]].syms = RemoveAt(@, p[3])] : p \in SymPos(g)}

(* grammar level: attributes of `grammar`, lexer declarations *)
MutGrammar(g) ==
    {[g EXCEPT !.gattrs = Append(@, x)] : x \in {"recursive_ascent", "LALR", "test_all", "table_driven", "foo"}}
    \cup {[g EXCEPT !.both = TRUE], [g EXCEPT !.loc = ~@]}
    \cup {[g EXCEPT !.lexer = x] : x \in {"intern", "extern", "match"}}
    \cup {[g EXCEPT !.toks = Append(@, @[k])] : k \in DOMAIN g.toks}
    \cup {[g EXCEPT !.toks = RemoveAt(@, k)] : k \in DOMAIN g.toks}
    \cup {[g EXCEPT !.toks[k].lit = x] : k \in {j \in DOMAIN g.toks : g.toks[j].re}, x \in BadRegex}

Muts(g) == (MutAttrs(g) \cup MutItems(g) \cup MutAlts(g) \cup MutSyms(g) \cup MutGrammar(g)) \ {g}
(* the second mutation: the attribute / declaration level ones (where validation
   passes depend on each other) *)
Muts2(g) == (MutAttrs(g) \cup MutItems(g) \cup MutGrammar(g)) \ {g}

VARIABLES base, depth, ast
vars == <<base, depth, ast>>

Init == base \in UseBases /\ depth = 0 /\ ast = Bases[base]
Next == \/ /\ depth = 0
           /\ \E m \in Muts(ast) : ast' = m
           /\ depth' = 1 /\ base' = base
        \/ /\ depth = 1 /\ base \in Depth2Bases
           /\ \E m \in Muts2(ast) : ast' = m
           /\ depth' = 2 /\ base' = base
Spec == Init /\ [][Next]_vars

Report == PrintT("@@MUTANT " \o ToJson([base |-> BaseNames[base], depth |-> depth, ast |-> ast,
                                          broken |-> Broken(ast)]))
=============================================================================
