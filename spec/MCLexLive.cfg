SPECIFICATION FairSpec
CONSTANT Defs <- MCDefs
CONSTANT ZeroLenIsError = TRUE
CHECK_DEADLOCK FALSE
PROPERTY Terminates
