#!/usr/bin/env python3
"""Assemble /verif/MANIFEST.json from the MANIFEST/ENGINES lists of tools/c_*.py
and tools/manifest_base.json (hooks, not_applicable reasons)."""
import json
import os
import sys

sys.path.insert(0, os.path.dirname(os.path.abspath(__file__)))
import checks  # noqa: E402

ROOT = os.path.dirname(os.path.dirname(os.path.abspath(__file__)))


def main():
    base = json.load(open(os.path.join(ROOT, "tools", "manifest_base.json")))
    props = [json.loads(l)["id"] for l in open(os.path.join(ROOT, "properties.jsonl"))]
    entries, engines = [], []
    for m in checks.modules():
        if m.__name__ not in base["enabled_modules"]:
            continue
        entries += getattr(m, "MANIFEST", [])
        engines += getattr(m, "ENGINES", [])
    entries.sort(key=lambda e: e["property_id"])
    claimed = {e["property_id"] for e in entries}
    na = []
    for p in props:
        if p not in claimed:
            na.append({"property_id": p, "reason": base["not_applicable_reasons"].get(p, base["default_reason"])})
    man = {"version": 1, "setup_cmd": base["setup_cmd"], "hooks": base["hooks"], "engines": engines,
           "checks": entries, "notes": base["notes"], "not_applicable": na}
    with open(os.path.join(ROOT, "MANIFEST.json"), "w") as f:
        json.dump(man, f, indent=1)
    print("MANIFEST.json: %d checks, %d not applicable" % (len(entries), len(na)))


if __name__ == "__main__":
    main()
