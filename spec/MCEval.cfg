SPECIFICATION Spec
CHECK_DEADLOCK FALSE
INVARIANT TypeOK
INVARIANT GenAgree
INVARIANT Emit
