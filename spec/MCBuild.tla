------------------------------ MODULE MCBuild ------------------------------
(***************************************************************************)
(* Model-checking instance of Build: adds the two reporting predicates the *)
(* orchestrator reads (both always TRUE).                                  *)
(*   PrintEdges    (ACTION_CONSTRAINT) one JSON line per transition of the *)
(*                 state graph: the replay generator walks this graph, so  *)
(*                 every expected state of a replay is one TLC computed    *)
(*   ReportUnsafe  (INVARIANT) the states in which a build has returned    *)
(*                 without establishing `Returned`                         *)
(***************************************************************************)
EXTENDS Build, Json

St == [src |-> src, out |-> out, tmp |-> tmp, touched |-> touched, pc |-> pc,
       queue |-> queue, force |-> force, visited |-> visited, failed |-> failed,
       fresh0 |-> fresh0]

PrintEdges == PrintT("@@EDGE " \o ToJson([from |-> St, lbl |-> act', to |-> St']))

ReportUnsafe == (pc = "done" /\ ~Returned) => PrintT("@@UNSAFE " \o ToJson(St))
=============================================================================
