"""Checks of the small engines: C28 (ParseError helpers), C26 (code scanning and
layout), C18 (never panics), C27 (reentrancy).  Each engine lives in its own
module tools/sm_*.py; this file registers them (see ENGINE_GUIDE.md)."""
import sm_code
import sm_layout
import sm_perr
import sm_wf

REGISTRY = {"C28": sm_perr.check, "C26": sm_code.check, "C18": sm_wf.check}
REPLAY = {"perr": sm_perr.replay, "codescan": sm_code.replay, "codeeval": sm_code.replay, "layout": sm_layout.replay,
          "wf": sm_wf.replay, "wf-cli": sm_wf.replay}
SELFTESTS = [sm_perr.selftest, sm_code.selftest, sm_layout.selftest, sm_wf.selftest]
ENGINES = []
MANIFEST = []
