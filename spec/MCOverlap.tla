----------------------------- MODULE MCOverlap -----------------------------
(***************************************************************************)
(* C11.  For every lexer definition and every pair of its patterns that    *)
(* have EQUAL precedence, TLC explores the product of the Brzozowski        *)
(* derivatives (d1, d2) of the two regexes.  A product state in which both  *)
(* components are nullable is reachable iff some string is matched by both  *)
(* -- exactly, with no bound on the length of the string: the set of        *)
(* derivatives of a regex is finite (ACI-normal forms), and the path to the *)
(* state is a witness.                                                       *)
(*   @@DEF     what the specification makes of each definition              *)
(*   @@OVERLAP one line per reachable doubly-accepting product state        *)
(* Expected verdict of a definition: "unsupported" if it uses look-around,  *)
(* non-greedy repetition or named captures; else "ambiguous" iff some pair  *)
(* overlaps; else accepted.                                                  *)
(***************************************************************************)
EXTENDS Regex, Json, IOUtils

Defs == JsonDeserialize(IOEnv.LEX_CASES)
NC   == Len(Defs)

Usable(k) == WellFormed(Defs[k]) /\ AllSupported(Defs[k])
PatsOf == [k \in 1..NC |-> IF Usable(k) THEN Pats(Defs[k]) ELSE <<>>]

VARIABLES c, i, j, d1, d2, path
vars == <<c, i, j, d1, d2, path>>
View == <<c, i, j, d1, d2>>

Init == /\ c \in 1..NC
        /\ \E ij \in EqualPrecPairs(PatsOf[c]) :
             /\ i = ij[1] /\ j = ij[2]
             /\ d1 = PatsOf[c][ij[1]].re
             /\ d2 = PatsOf[c][ij[2]].re
        /\ path = <<>>

Next == \E a \in 1..Defs[c].K :
          LET e1 == Deriv(d1, a)
              e2 == Deriv(d2, a)
          IN /\ e1.k # "null" /\ e2.k # "null"
             /\ d1' = e1 /\ d2' = e2
             /\ path' = Append(path, a)
             /\ UNCHANGED <<c, i, j>>

Spec == Init /\ [][Next]_vars

ReportOverlap ==
  (Nullable(d1) /\ Nullable(d2)) =>
     PrintT("@@OVERLAP " \o ToJson([c |-> Defs[c].id, i |-> i, j |-> j, ei |-> PatsOf[c][i].e,
                                    ej |-> PatsOf[c][j].e, path |-> path]))

ASSUME \A k \in 1..NC :
         PrintT("@@DEF " \o ToJson([c |-> Defs[k].id, supported |-> AllSupported(Defs[k]),
                  wellformed |-> WellFormed(Defs[k]),
                  pairs |-> Cardinality(EqualPrecPairs(PatsOf[k])),
                  pats |-> [q \in DOMAIN PatsOf[k] |->
                              LET p == PatsOf[k][q] IN
                              [e |-> p.e, name |-> p.name, lit |-> p.lit, skip |-> p.skip, prec |-> p.prec,
                               nullable |-> Nullable(p.re)]]]))
=============================================================================
