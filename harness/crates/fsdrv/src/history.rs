//! Build histories: executes steps against <root>/in (grammars) and <root>/out (outputs)
//! through the real API and projects the file system after every step onto the abstract
//! `out` / `tmp` of spec/Build.tla.
//!
//! job: {root, files: [name], texts: {name: {A: text, B: text, Bad: text}}, report: bool,
//!       histories: [{id, steps: [step]}]}
//! step: {op: reset, src: {name: T}} | {op: edit, f, t} | {op: touch, f} | {op: delete_out, f}
//!     | {op: alter_ver, f} | {op: alter_hash, f}
//!     | {op: build, force, files: [name], api: file|dir, report: bool}   in process
//!     | {op: crash, force, files, point}                       child process, LALRPOP_VERIF_CRASH=point
//!     | {op: wfail, force, files, limit | limit_at: {f, t, region: ver|hash|body|report, k}}
//!                                                            child process, RLIMIT_FSIZE, SIGXFSZ ignored
//! An environment step that is not enabled in the projected state (Build.tla's guards:
//! delete an existing output, alter a current version line, alter a hash line that names a
//! text, edit to a different text) is dropped (reported in the `dropped` count of `end`).
//! event: the step (i = its index in the history) with ev = op (a crash whose point was not reached, or a write limit that
//! was not hit, is reported as ev = build), h = history id, obs = {out, tmp, touched},
//! result ok|err|panic (build), detail, foreign (unattributable files in the output dir).
use crate::call::{run_call_caught, spawn_child};
use serde_json::{json, Map, Value};
use std::collections::BTreeMap;
use std::fs;
use std::io::Write;
use std::os::unix::fs::MetadataExt;
use std::path::{Path, PathBuf};
use std::time::{Duration, SystemTime};

struct RefOut {
    ver: Vec<u8>,  // first line without the newline
    hash: Vec<u8>, // second line without the newline
    body: Vec<u8>,
    report: usize,
}

struct Ctx {
    root: PathBuf,
    files: Vec<String>,
    texts: BTreeMap<String, BTreeMap<String, String>>,
    refs: BTreeMap<(String, String), RefOut>,
    report: bool,
    src: BTreeMap<String, String>, // text currently in each grammar file
}

fn split_line(d: &[u8]) -> (&[u8], &[u8]) {
    match d.iter().position(|&b| b == b'\n') {
        Some(i) => (&d[..i], &d[i + 1..]),
        None => (d, &[]),
    }
}

fn trim(b: &[u8]) -> String {
    String::from_utf8_lossy(b).trim().to_string()
}

impl Ctx {
    fn in_dir(&self) -> PathBuf {
        self.root.join("in")
    }
    fn out_dir(&self) -> PathBuf {
        self.root.join("out")
    }
    fn src_path(&self, f: &str) -> PathBuf {
        self.in_dir().join(format!("{f}.lalrpop"))
    }
    fn out_path(&self, f: &str) -> PathBuf {
        self.out_dir().join(format!("{f}.rs"))
    }

    /// the call a build step makes: one file -> process_file, all files -> process_dir
    fn call(&self, files: &[String], force: bool, api: Option<&str>, in_dir: &Path, out_dir: &Path) -> Value {
        let dir = match api {
            Some("dir") => true,
            Some("file") => false,
            _ => files.len() > 1,
        };
        let mut c = json!({"force": force, "report": self.report, "set_out_dir": out_dir.to_string_lossy()});
        if dir {
            c["call"] = json!("process_dir");
            c["arg"] = json!(in_dir.to_string_lossy());
        } else {
            c["call"] = json!("process_file");
            c["arg"] = json!(in_dir.join(format!("{}.lalrpop", files[0])).to_string_lossy());
        }
        c
    }

    /// reference forced builds of every (file, valid text), each in its own directory
    fn make_refs(&mut self) -> Result<(), String> {
        for f in self.files.clone() {
            for (t, text) in self.texts[&f].clone() {
                let d = self.root.join("ref").join(&f).join(&t);
                let (i, o) = (d.join("in"), d.join("out"));
                fs::create_dir_all(&i).map_err(|e| e.to_string())?;
                fs::write(i.join(format!("{f}.lalrpop")), &text).map_err(|e| e.to_string())?;
                let mut c = self.call(&[f.clone()], true, Some("file"), &i, &o);
                c["report"] = json!(true);
                let (st, msg) = run_call_caught(&c);
                let rs = o.join(format!("{f}.rs"));
                if t == "Bad" {
                    if st == "ok" {
                        return Err(format!("reference build of the rejected text of {f} succeeded"));
                    }
                    continue;
                }
                if st != "ok" {
                    return Err(format!("reference build of {f}/{t} failed: {st} {msg}"));
                }
                let data = fs::read(&rs).map_err(|e| format!("reference output {}: {e}", rs.display()))?;
                let (l1, r1) = split_line(&data);
                let (l2, r2) = split_line(r1);
                let report = fs::metadata(o.join(format!("{f}.report"))).map(|m| m.len() as usize).unwrap_or(0);
                self.refs.insert((f.clone(), t.clone()), RefOut { ver: l1.to_vec(), hash: l2.to_vec(), body: r2.to_vec(), report });
            }
        }
        Ok(())
    }

    fn project(&self, p: &Path, f: &str) -> Value {
        let data = match fs::read(p) {
            Ok(d) => d,
            Err(_) => return json!({"ex": false, "ver": "none", "hash": "none", "body": "none"}),
        };
        let (l1, r1) = split_line(&data);
        let (l2, r2) = split_line(r1);
        let refs: Vec<(&String, &RefOut)> = self.refs.iter().filter(|((g, _), _)| g == f).map(|((_, t), r)| (t, r)).collect();
        let cur = refs.first().map(|(_, r)| trim(&r.ver)).unwrap_or_default();
        let ver = if trim(l1) == cur {
            "cur"
        } else if l1.is_empty() {
            "none"
        } else {
            "old"
        };
        let mut hash = if l2.is_empty() { "none".to_string() } else { "junk".to_string() };
        for (t, r) in &refs {
            if trim(l2) == trim(&r.hash) {
                hash = (*t).clone();
            }
        }
        let mut body = if r2.is_empty() { "none".to_string() } else { "junk".to_string() };
        if !r2.is_empty() {
            for (t, r) in &refs {
                if r2 == &r.body[..] {
                    body = (*t).clone();
                }
            }
            if body == "junk" && refs.iter().any(|(_, r)| r.body.len() > r2.len() && r.body.starts_with(r2)) {
                body = "part".into();
            }
        }
        json!({"ex": true, "ver": ver, "hash": hash, "body": body})
    }

    /// (out, tmp, foreign): projection of every output and of the other files of the output directory
    fn observe(&self) -> (Value, Value, Vec<String>) {
        let mut out = Map::new();
        let mut tmp = Map::new();
        let mut foreign = vec![];
        for f in &self.files {
            out.insert(f.clone(), self.project(&self.out_path(f), f));
            tmp.insert(f.clone(), json!({"ex": false, "ver": "none", "hash": "none", "body": "none"}));
        }
        if let Ok(rd) = fs::read_dir(self.out_dir()) {
            let mut names: Vec<String> = rd.filter_map(|e| e.ok()).map(|e| e.file_name().to_string_lossy().to_string()).collect();
            names.sort();
            for n in names {
                if self.files.iter().any(|f| n == format!("{f}.rs") || n == format!("{f}.report")) {
                    continue;
                }
                match self.files.iter().find(|f| n.contains(&format!("{f}."))) {
                    Some(f) if !tmp[f]["ex"].as_bool().unwrap_or(false) => {
                        tmp.insert(f.clone(), self.project(&self.out_dir().join(&n), f));
                    }
                    _ => foreign.push(n),
                }
            }
        }
        (Value::Object(out), Value::Object(tmp), foreign)
    }

    fn limit_at(&self, la: &Value) -> Option<(u64, String)> {
        let f = la["f"].as_str()?;
        let t = la["t"].as_str()?;
        let r = self.refs.get(&(f.to_string(), t.to_string()))?;
        let region = la["region"].as_str()?;
        let k = la["k"].as_i64()?;
        let (base, len) = match region {
            "ver" => (0, r.ver.len() + 1),
            "hash" => (r.ver.len() + 1, r.hash.len() + 1),
            "body" => (r.ver.len() + r.hash.len() + 2, r.body.len()),
            "report" => (0, r.report),
            _ => return None,
        };
        let off = if k >= 0 { k as usize } else { (len as i64 + k).max(0) as usize };
        if off >= len {
            return None;
        }
        Some(((base + off) as u64, region.to_string()))
    }
}

const T0_SECS: u64 = 978_307_200; // 2001-01-01: mtime given to every output before a build

struct Stamp {
    ex: bool,
    ino: u64,
}

fn stamp_before(p: &Path) -> Stamp {
    match fs::metadata(p) {
        Ok(m) => {
            if let Ok(f) = fs::OpenOptions::new().write(true).open(p) {
                let _ = f.set_modified(SystemTime::UNIX_EPOCH + Duration::from_secs(T0_SECS));
            }
            Stamp { ex: true, ino: m.ino() }
        }
        Err(_) => Stamp { ex: false, ino: 0 },
    }
}

fn touched_since(p: &Path, s: &Stamp) -> bool {
    match fs::metadata(p) {
        Ok(m) => !s.ex || m.ino() != s.ino || m.mtime() != T0_SECS as i64 || m.mtime_nsec() != 0,
        Err(_) => s.ex,
    }
}

pub fn main(job: &str, outp: &str) {
    let j: Value = serde_json::from_str(&fs::read_to_string(job).expect("read job")).expect("job json");
    let mut out = fs::File::create(outp).expect("open results");
    let mut emit = |v: Value| {
        writeln!(out, "{}", v).expect("write");
        out.flush().expect("flush");
    };
    let files: Vec<String> = j["files"].as_array().expect("files").iter().map(|s| s.as_str().unwrap().to_string()).collect();
    let mut texts = BTreeMap::new();
    for f in &files {
        let m: BTreeMap<String, String> =
            j["texts"][f].as_object().expect("texts").iter().map(|(k, v)| (k.clone(), v.as_str().unwrap().to_string())).collect();
        texts.insert(f.clone(), m);
    }
    let mut cx = Ctx {
        root: PathBuf::from(j["root"].as_str().expect("root")),
        files,
        texts,
        refs: BTreeMap::new(),
        report: j["report"].as_bool().unwrap_or(false),
        src: BTreeMap::new(),
    };
    fs::create_dir_all(&cx.root).expect("root");
    if let Err(e) = cx.make_refs() {
        emit(json!({"ev": "tool_error", "detail": e}));
        std::process::exit(2);
    }
    let mut sizes = Map::new();
    for ((f, t), r) in &cx.refs {
        sizes.insert(format!("{f}/{t}"), json!({"ver": r.ver.len() + 1, "hash": r.hash.len() + 1, "body": r.body.len(), "report": r.report}));
    }
    emit(json!({"ev": "refs", "sizes": sizes, "header": cx.refs.values().next().map(|r| trim(&r.ver))}));

    for h in j["histories"].as_array().expect("histories") {
        let hid = h["id"].clone();
        let mut dropped = 0;
        for (si, step) in h["steps"].as_array().expect("steps").iter().enumerate() {
            let op = step["op"].as_str().unwrap_or("").to_string();
            let mut ev = step.clone();
            ev["h"] = hid.clone();
            ev["i"] = json!(si);
            let f = step["f"].as_str().unwrap_or("").to_string();
            let mut touched = Map::new();
            for g in &cx.files {
                touched.insert(g.clone(), json!(false));
            }
            match op.as_str() {
                "reset" => {
                    let _ = fs::remove_dir_all(cx.in_dir());
                    let _ = fs::remove_dir_all(cx.out_dir());
                    fs::create_dir_all(cx.in_dir()).expect("in dir");
                    cx.src.clear();
                    for g in cx.files.clone() {
                        let t = step["src"][&g].as_str().expect("reset src").to_string();
                        fs::write(cx.src_path(&g), &cx.texts[&g][&t]).expect("write src");
                        cx.src.insert(g, t);
                    }
                }
                "edit" => {
                    let t = step["t"].as_str().unwrap_or("").to_string();
                    if cx.src.get(&f) == Some(&t) {
                        dropped += 1;
                        continue;
                    }
                    fs::write(cx.src_path(&f), &cx.texts[&f][&t]).expect("write src");
                    cx.src.insert(f.clone(), t);
                }
                "touch" => {
                    let t = cx.src[&f].clone();
                    fs::write(cx.src_path(&f), &cx.texts[&f][&t]).expect("write src");
                    if let Ok(fh) = fs::OpenOptions::new().write(true).open(cx.src_path(&f)) {
                        let _ = fh.set_modified(SystemTime::now() + Duration::from_secs(3600));
                    }
                }
                "delete_out" | "alter_ver" | "alter_hash" => {
                    let p = cx.out_path(&f);
                    let st = cx.project(&p, &f);
                    let enabled = match op.as_str() {
                        "delete_out" => st["ex"] == json!(true),
                        "alter_ver" => st["ex"] == json!(true) && st["ver"] == json!("cur"),
                        _ => st["ex"] == json!(true) && ["A", "B", "Bad"].contains(&st["hash"].as_str().unwrap_or("")),
                    };
                    if !enabled {
                        dropped += 1;
                        continue;
                    }
                    if op == "delete_out" {
                        fs::remove_file(&p).expect("delete out");
                    } else {
                        let data = fs::read(&p).expect("read out");
                        let (l1, r1) = split_line(&data);
                        let (l2, r2) = split_line(r1);
                        let mut n: Vec<u8> = vec![];
                        if op == "alter_ver" {
                            n.extend_from_slice(b"// auto-generated: \"lalrpop 0.0.1\"\n");
                            n.extend_from_slice(r1);
                        } else {
                            // another digest of the same length: every hex digit replaced
                            n.extend_from_slice(l1);
                            n.push(b'\n');
                            let s = String::from_utf8_lossy(l2).to_string();
                            let (head, digest) = s.split_at(s.len().saturating_sub(64));
                            n.extend_from_slice(head.as_bytes());
                            n.extend(digest.bytes().map(|b| if b == b'0' { b'1' } else { b'0' }));
                            n.push(b'\n');
                            n.extend_from_slice(r2);
                        }
                        fs::write(&p, n).expect("write out");
                    }
                }
                "build" | "crash" | "wfail" => {
                    let fl: Vec<String> = step["files"].as_array().expect("files").iter().map(|s| s.as_str().unwrap().to_string()).collect();
                    let force = step["force"].as_bool().unwrap_or(false);
                    let mut call = cx.call(&fl, force, step["api"].as_str(), &cx.in_dir(), &cx.out_dir());
                    if let Some(b) = step["report"].as_bool() {
                        call["report"] = json!(b);
                    }
                    let stamps: Vec<(String, Stamp)> = cx.files.iter().map(|g| (g.clone(), stamp_before(&cx.out_path(g)))).collect();
                    let (status, msg) = if op == "build" {
                        run_call_caught(&call)
                    } else if op == "crash" {
                        let o = spawn_child(&call, None, &json!({}), step["point"].as_str(), None);
                        (o.status, o.message)
                    } else {
                        let lim = match step["limit"].as_u64() {
                            Some(l) => Some((l, "given".to_string())),
                            None => cx.limit_at(&step["limit_at"]),
                        };
                        match lim {
                            Some((l, region)) => {
                                ev["limit"] = json!(l);
                                ev["region"] = json!(region);
                                let o = spawn_child(&call, None, &json!({}), None, Some(l));
                                (o.status, o.message)
                            }
                            None => {
                                dropped += 1;
                                continue;
                            }
                        }
                    };
                    for (g, s) in &stamps {
                        touched.insert(g.clone(), json!(touched_since(&cx.out_path(g), s)));
                    }
                    ev["detail"] = json!(msg);
                    let too_large = msg.contains("os error 27") || msg.contains("File too large");
                    let kind = match (op.as_str(), status.as_str()) {
                        ("crash", "abort") => "crash",
                        ("wfail", "err") if too_large => "wfail",
                        (_, "ok") | (_, "err") => "build",
                        _ => "broken", // panic, unexpected signal, time-out, lost child
                    };
                    ev["ev"] = json!(kind);
                    ev["result"] = json!(status);
                }
                other => {
                    emit(json!({"ev": "tool_error", "detail": format!("unknown op {other}")}));
                    std::process::exit(2);
                }
            }
            if ev.get("ev").is_none() {
                ev["ev"] = json!(op);
            }
            ev.as_object_mut().unwrap().remove("op");
            let (o, t, foreign) = cx.observe();
            ev["obs"] = json!({"out": o, "tmp": t, "touched": touched});
            ev["foreign"] = json!(foreign);
            emit(ev);
        }
        emit(json!({"ev": "end", "h": hid, "dropped": dropped}));
    }
    let _ = fs::remove_dir_all(&cx.root);
}
