//! lexdrv: feeds strings to the REAL `lalrpop_util::lexer::MatcherBuilder` /
//! `Matcher`, built from exactly the `(regex, skip)` list LALRPOP emits for a
//! grammar (the orchestrator takes it from the hook export and cross-checks it
//! against the `__intern_token` module of the generated `.rs`).
//!
//! usage: lexdrv <jobs.json> <results.ndjson> [first_job [first_string]]
//! job:  {id, mode: "lex"|"probe", entries: [[regex, skip]...], strings: [text...]}
//! result line per job (strings in order):
//!   lex:   {id, res: [{t: [[pattern index, lo, hi]...], e: "eof"|"invalid"|"budget"|"panic"|"badslice", at}]}
//!          e = "budget": the iterator yielded more than len(text)+2 items (it is
//!          not making progress); t then holds the first items it yielded
//!   probe: {id, res: [true|false...]}  first item is one token spanning the whole text
//!   {id, build_error: msg}             MatcherBuilder::new failed
//! A string on which `next()` does not return within the time budget is data,
//! not a tool error: the watchdog writes {id, timeout_at: k, partial: [...]}
//! and exits with status 3; the orchestrator restarts after that string.

use lalrpop_util::lexer::MatcherBuilder;
use lalrpop_util::ParseError;
use serde_json::{json, Value};
use std::io::Write;
use std::sync::atomic::{AtomicU64, Ordering};
use std::sync::{Arc, Mutex};
use std::time::{Duration, Instant};

static DEADLINE_MS: AtomicU64 = AtomicU64::new(0);

struct Cur {
    id: String,
    k: usize,
    partial: Vec<Value>,
}

fn lex_one(b: &MatcherBuilder, text: &str) -> Value {
    let budget = text.len() + 2;
    let mut toks: Vec<Value> = Vec::new();
    let mut n = 0usize;
    let mut m = b.matcher::<&'static str>(text);
    loop {
        n += 1;
        if n > budget {
            return json!({"t": toks, "e": "budget", "at": 0});
        }
        match m.next() {
            None => return json!({"t": toks, "e": "eof", "at": text.len()}),
            Some(Ok((lo, tok, hi))) => {
                if lo > hi || hi > text.len() || text.get(lo..hi) != Some(tok.1) {
                    toks.push(json!([tok.0, lo, hi]));
                    return json!({"t": toks, "e": "badslice", "at": lo});
                }
                if toks.len() < 64 {
                    toks.push(json!([tok.0, lo, hi]));
                }
            }
            Some(Err(ParseError::InvalidToken { location })) => {
                return json!({"t": toks, "e": "invalid", "at": location});
            }
            Some(Err(_)) => return json!({"t": toks, "e": "othererr", "at": 0}),
        }
    }
}

fn probe_one(b: &MatcherBuilder, text: &str) -> Value {
    let mut m = b.matcher::<&'static str>(text);
    match m.next() {
        Some(Ok((0, tok, hi))) if hi == text.len() && tok.1 == text => json!(true),
        _ => json!(false),
    }
}

fn main() {
    let args: Vec<String> = std::env::args().collect();
    if args.len() < 3 {
        eprintln!("usage: lexdrv <jobs.json> <results.ndjson> [first_job [first_string]]");
        std::process::exit(2);
    }
    let jobs: Vec<Value> =
        serde_json::from_str(&std::fs::read_to_string(&args[1]).expect("read jobs")).expect("jobs json");
    let first_job: usize = args.get(3).map(|s| s.parse().expect("first_job")).unwrap_or(0);
    let first_string: usize = args.get(4).map(|s| s.parse().expect("first_string")).unwrap_or(0);
    let budget_ms: u64 = std::env::var("LEXDRV_BUDGET_MS").ok().and_then(|s| s.parse().ok()).unwrap_or(3000);
    let out = Arc::new(Mutex::new(
        std::fs::OpenOptions::new().create(true).append(true).open(&args[2]).expect("open results"),
    ));
    let t0 = Instant::now();
    let cur = Arc::new(Mutex::new(Cur { id: String::new(), k: 0, partial: vec![] }));
    {
        let out = out.clone();
        let cur = cur.clone();
        std::thread::spawn(move || loop {
            std::thread::sleep(Duration::from_millis(50));
            let d = DEADLINE_MS.load(Ordering::SeqCst);
            if d != 0 && t0.elapsed().as_millis() as u64 > d {
                let c = cur.lock().unwrap();
                let line = json!({"id": c.id, "timeout_at": c.k, "partial": c.partial});
                let mut f = out.lock().unwrap();
                let _ = writeln!(f, "{}", line);
                let _ = f.flush();
                std::process::exit(3);
            }
        });
    }
    std::panic::set_hook(Box::new(|_| {}));
    for (ji, job) in jobs.iter().enumerate().skip(first_job) {
        let id = job["id"].as_str().unwrap_or("?").to_string();
        let probe = job["mode"].as_str() == Some("probe");
        let entries: Vec<(String, bool)> = job["entries"]
            .as_array()
            .expect("entries")
            .iter()
            .map(|e| (e[0].as_str().expect("regex").to_string(), e[1].as_bool().expect("skip")))
            .collect();
        let strings: Vec<String> =
            job["strings"].as_array().expect("strings").iter().map(|s| s.as_str().expect("string").to_string()).collect();
        let skip_first = if ji == first_job { first_string } else { 0 };
        {
            let mut c = cur.lock().unwrap();
            c.id = id.clone();
            c.k = skip_first;
            c.partial = vec![];
        }
        DEADLINE_MS.store(t0.elapsed().as_millis() as u64 + 20_000, Ordering::SeqCst);
        let built = std::panic::catch_unwind(|| MatcherBuilder::new(entries.iter().map(|(r, s)| (r.as_str(), *s))));
        DEADLINE_MS.store(0, Ordering::SeqCst);
        let builder = match built {
            Ok(Ok(b)) => b,
            Ok(Err(e)) => {
                let mut f = out.lock().unwrap();
                writeln!(f, "{}", json!({"id": id, "build_error": e.to_string()})).expect("write");
                continue;
            }
            Err(_) => {
                let mut f = out.lock().unwrap();
                writeln!(f, "{}", json!({"id": id, "build_error": "panic in MatcherBuilder::new"})).expect("write");
                continue;
            }
        };
        for (k, text) in strings.iter().enumerate().skip(skip_first) {
            cur.lock().unwrap().k = k;
            DEADLINE_MS.store(t0.elapsed().as_millis() as u64 + budget_ms, Ordering::SeqCst);
            let r = std::panic::catch_unwind(std::panic::AssertUnwindSafe(|| {
                if probe {
                    probe_one(&builder, text)
                } else {
                    lex_one(&builder, text)
                }
            }));
            DEADLINE_MS.store(0, Ordering::SeqCst);
            let v = match r {
                Ok(v) => v,
                Err(_) => {
                    if probe {
                        json!("panic")
                    } else {
                        json!({"t": [], "e": "panic", "at": 0})
                    }
                }
            };
            cur.lock().unwrap().partial.push(v);
        }
        let res = std::mem::take(&mut cur.lock().unwrap().partial);
        let mut f = out.lock().unwrap();
        writeln!(f, "{}", json!({"id": id, "first": skip_first, "res": res})).expect("write result");
        f.flush().expect("flush");
    }
}
