"""Engine `conc` (C27): spec/Concurrent.tla.

 * MCConc explores all interleavings of 2-3 threads parsing with shared
   immutable tables and private caches (result[t] = Sequential(input[t]),
   termination); the deliberately wrong shared-cache design must be refuted.
 * replay: every interleaving TLC enumerates (History = TRUE) is imposed on
   real threads that share ONE generated parser value, through gates called
   from action code and from the token iterator (harness/crates/concdrv).
 * trace: 16 free-running threads, thousands of parses over shared / repeated /
   fresh parser values; events carry a global atomic sequence number and are
   validated by TLC against the same actions (TraceConc).
 * compile time: Send + Sync assertions for the generated parser types."""
import json
import os
import random
import subprocess
from concurrent.futures import ThreadPoolExecutor

import vlib
from vlib import BIN, HARNESS, Report, ToolError, cargo_build, cargo_build_or_die, log, mkscratch, rmtree, run_tlc

CFG = """SPECIFICATION HSpec
CONSTANT Threads <- %(threads)s
CONSTANT Input <- %(input)s
CONSTANT SharedCache = %(shared)s
CONSTANT History = %(history)s
INVARIANT ResultCorrect
%(extra)s
CHECK_DEADLOCK FALSE
"""


def mc(threads, inp, shared=False, history=False):
    extra = ""
    if not shared:
        extra += "INVARIANT Independent\n"
    if history:
        extra += "INVARIANT Report\n"
    else:
        extra += "PROPERTY Termination\n"
    cfg = CFG % {"threads": threads, "input": inp, "shared": "TRUE" if shared else "FALSE",
                 "history": "TRUE" if history else "FALSE", "extra": extra}
    return run_tlc("MCConc", cfg, workers=4, timeout=1800)


def schedules(threads, inp):
    r = mc(threads, inp, history=True)
    if r.violations:
        raise ToolError("MCConc (history) violates %s" % r.violations[0]["name"])
    s = [o for t, o in r.prints if t == "SCHED"]
    if not s:
        raise ToolError("MCConc printed no schedule")
    return r, s


def make_replay_records(scheds, tag):
    """each TLC interleaving once for the extern-token parser (all steps gated) and, projected
    on the action steps, once for the built-in-lexer parser (its lexer steps are not observable)"""
    recs = []
    seen = set()
    for k, s in enumerate(scheds):
        recs.append({"id": "%s-e%d" % (tag, k), "grammar": "ext", "inputs": s["inputs"], "sched": s["sched"],
                     "expected": s["expected"]})
        proj = [e for e in s["sched"] if e["ev"] == "D"]
        key = (json.dumps(s["inputs"]), json.dumps(proj))
        if key not in seen:
            seen.add(key)
            recs.append({"id": "%s-i%d" % (tag, k), "grammar": "intern", "inputs": s["inputs"], "sched": proj,
                         "expected": s["expected"]})
    return recs


def run_replay(recs, wd):
    inp = os.path.join(wd, "schedules.ndjson")
    out = os.path.join(wd, "replayed.ndjson")
    with open(inp, "w") as f:
        for r in recs:
            f.write(json.dumps(r) + "\n")
    p = subprocess.run([os.path.join(BIN, "concdrv"), "replay", inp, out], capture_output=True, text=True, timeout=3000)
    if p.returncode != 0:
        raise ToolError("concdrv replay failed: " + p.stderr[-2000:])
    res = [json.loads(l) for l in open(out)]
    if len(res) != len(recs):
        raise ToolError("concdrv answered %d of %d schedules" % (len(res), len(recs)))
    return res


def judge_replay(rec, res):
    """-> None or (key, what)"""
    if res["failed"]:
        return ("kind=schedule_divergence grammar=%s" % rec["grammar"],
                "the real threads cannot follow the interleaving: %s" % res["failed"])
    if res["results"] != rec["expected"]:
        return ("kind=wrong_result_under_interleaving grammar=%s" % rec["grammar"],
                "results %s under schedule %s, a fresh parser alone gives %s" % (
                    json.dumps(res["results"]), json.dumps(rec["sched"]), json.dumps(rec["expected"])))
    if res["observed"] != rec["sched"]:
        return ("kind=observed_order_differs grammar=%s" % rec["grammar"],
                "events were observed in the order %s, imposed %s" % (json.dumps(res["observed"]), json.dumps(rec["sched"])))
    return None


def free_run(threads, parses, seed, wd, name="trace"):
    out = os.path.join(wd, name + ".ndjson")
    p = subprocess.run([os.path.join(BIN, "concdrv"), "free", str(threads), str(parses), str(seed), out],
                       capture_output=True, text=True, timeout=3000)
    if p.returncode != 0:
        raise ToolError("concdrv free failed (rc %s): %s" % (p.returncode, p.stderr[-2000:]))
    return out


def validate_trace(path, threads, wd, groups=4):
    """TLC (TraceConc) over the recorded events, split by groups of threads (threads do not
    interact in the specification, and the global order is kept inside each group)"""
    events = [json.loads(l) for l in open(path)]
    per = max(1, threads // groups)
    parts = []
    for g in range(0, threads, per):
        ts = set(range(g + 1, min(threads, g + per) + 1))
        ev = [e for e in events if e["t"] in ts]
        if ev:
            parts.append((sorted(ts), ev))

    def one(part):
        ts, ev = part
        d = mkscratch("conctrace")
        try:
            tf = os.path.join(d, "t.ndjson")
            with open(tf, "w") as f:
                for e in ev:
                    f.write(json.dumps(e) + "\n")
            cfg = ("SPECIFICATION TSpec\nCHECK_DEADLOCK FALSE\nCONSTANT Threads = {%s}\nCONSTANT Input = 0\n"
                   "CONSTANT SharedCache = FALSE\nINVARIANT Accepted\nINVARIANT Done\n" % ", ".join(str(t) for t in ts))
            r = run_tlc("TraceConc", cfg, env={"CONC_TRACE": tf}, workers=1, timeout=3000, workdir=d,
                        java_opts=["-Dtlc2.tool.queue.IStateQueue=StateDeque"])
            return ts, ev, r
        finally:
            rmtree(d)

    out = []
    with ThreadPoolExecutor(max_workers=4) as ex:
        for ts, ev, r in ex.map(one, parts):
            bad = None
            if r.violations:
                st = vlib.trace_last_state(r.violations[0]["trace"])
                i = int(st.get("i", "0"))
                bad = {"inv": r.violations[0]["name"], "line": i, "event": ev[i - 1] if 0 < i <= len(ev) else None,
                       "context": ev[max(0, i - 6):i]}
            else:
                done = [o for t, o in r.prints if t == "TRACEDONE"]
                if not done or done[0]["lines"] != len(ev):
                    raise ToolError("TraceConc stopped early: %s of %d" % (done, len(ev)))
            out.append((ts, len(ev), r, bad))
    return events, out


def check(tier, seed):
    rep = Report("C27", tier, "model_checking", seed)
    # compile time: the assertions are in src/bin/concsync.rs
    r = cargo_build(["concdrv"])
    if r.returncode != 0:
        if "concsync" in r.stderr and ("Send" in r.stderr or "Sync" in r.stderr) and "E0277" in r.stderr:
            rep.violation("kind=not_send_sync", "a generated parser type is not Send + Sync: " + r.stderr[-600:],
                          {"engine": "conc", "what": "build"})
            rep.add(states=0, transitions=0, traces_validated_against_impl=0)
            rep.sample("cargo build -p concdrv")
            return rep.finish(rule="compile-time assertions failed")
        raise ToolError("cargo build failed:\n" + r.stderr[-4000:])
    p = subprocess.run([os.path.join(BIN, "concsync")], capture_output=True, text=True)
    if p.returncode != 0:
        raise ToolError("concsync failed")
    st = tr = 0
    # 1. the design: all interleavings, and the wrong design must be refuted
    for threads, inp in (("T3", "Inputs3x2"), ("T2", "Inputs2x3")):
        m = mc(threads, inp)
        if m.violations:
            raise ToolError("the design model violates %s (spec bug?)\n%s" % (m.violations[0]["name"], m.violations[0]["trace"][-1500:]))
        st += m.distinct
        tr += m.generated
    w = mc("T2", "Inputs2x2", shared=True)
    if not any(v["name"] == "ResultCorrect" for v in w.violations):
        raise ToolError("sanity net: the shared-cache design was not refuted by MCConc")
    # 2. replay of TLC's interleavings on real threads
    plan = [("T2", "Inputs2x1", None), ("T2", "Inputs2x2", None), ("T3", "Inputs3x1", 300 if tier == "quick" else None)]
    if tier != "quick":
        plan.append(("T2", "Inputs2x3", None))
    rng = random.Random(seed * 17 + 1)
    recs = []
    nsched = {}
    for threads, inp, limit in plan:
        m, s = schedules(threads, inp)
        st += m.distinct
        tr += m.generated
        nsched[inp] = len(s)
        if limit and len(s) > limit:
            s = rng.sample(s, limit)
        recs += make_replay_records(s, inp)
    wd = mkscratch("conc")
    try:
        res = run_replay(recs, wd)
        nbad = 0
        for rec, rs in zip(recs, res):
            rep.case({"inputs": rec["inputs"], "sched": rec["sched"], "grammar": rec["grammar"]})
            v = judge_replay(rec, rs)
            if v:
                nbad += 1
                rep.violation(v[0], v[1], {"engine": "conc", "what": "replay", "record": rec})
        # 3. free-running threads
        threads, parses = (16, 400) if tier == "quick" else (16, 2500)
        tf = free_run(threads, parses, seed, wd)
        events, parts = validate_trace(tf, threads, wd)
        nparse = len([e for e in events if e["ev"] == "B"])
        tstates = 0
        for ts, n, r2, bad in parts:
            tstates += r2.distinct
            if bad:
                rep.violation("kind=trace_rejected inv=%s ev=%s" % (bad["inv"], (bad["event"] or {}).get("ev")),
                              "event %s of threads %s is not a step of Concurrent.tla: %s (preceded by %s)" % (
                                  bad["line"], ts, json.dumps(bad["event"]), json.dumps(bad["context"])),
                              {"engine": "conc", "what": "free", "threads": threads, "parses": parses, "seed": seed})
        kinds = {}
        for e in events:
            if e["ev"] == "B":
                rep.case({"free": e["t"], "parse": e["parse"], "inp": e["inp"], "g": e["grammar"], "p": e["parser"]})
                k = "%s/%s" % (e["grammar"], e["parser"])
                kinds[k] = kinds.get(k, 0) + 1
        # interleaving actually observed: how often consecutive events come from different threads
        switches = sum(1 for a, b in zip(events, events[1:]) if a["t"] != b["t"])
    finally:
        rmtree(wd)
    rep.sample({"replayed_interleaving": recs[1]["sched"], "inputs": recs[1]["inputs"], "expected_results": recs[1]["expected"],
                "real_results": res[1]["results"]})
    rep.sample({"free_running_events": events[len(events) // 2: len(events) // 2 + 6]})
    rep.add(states=st, transitions=tr, traces_validated_against_impl=len(recs) + nparse,
            interleavings_enumerated=nsched, interleavings_replayed=len(recs), replay_mismatches=nbad,
            free_threads=threads, free_parses=nparse, free_events=len(events), free_thread_switches=switches,
            free_parses_by_parser=kinds, trace_states=tstates, send_sync_assertions=2, wrong_design_refuted=True)
    rep.assumptions = ["the schedule is imposed at action and token boundaries only (not inside regex-automata)",
                       "gates take the global sequence number while the schedule lock is held, so the observed order is the imposed one"]
    return rep.finish(
        rule="all interleavings TLC enumerates for 2 threads x 1 and 2 tokens (20 / 252), %s of the 1680 for 3 threads x 1 token%s, each "
             "replayed on real threads sharing one parser value for the extern-token parser and (projected on action steps) the "
             "built-in-lexer parser; plus %d free-running parses on %d threads validated against TraceConc; distinct = distinct "
             "(inputs, schedule, grammar)" % ("a seeded sample of 300" if tier == "quick" else "all",
                                               "" if tier == "quick" else ", all 3432 for 2 threads x 3 tokens", nparse, threads))


def replay(obj):
    cargo_build_or_die(["concdrv"])
    wd = mkscratch("conc")
    try:
        if obj["what"] == "replay":
            res = run_replay([obj["record"]], wd)
            v = judge_replay(obj["record"], res[0])
        elif obj["what"] == "free":
            tf = free_run(obj["threads"], obj["parses"], obj["seed"], wd)
            _, parts = validate_trace(tf, obj["threads"], wd)
            v = next((("trace", str(b)) for _, _, _, b in parts if b), None)
        else:
            r = cargo_build(["concdrv"])
            v = ("build", r.stderr[-500:]) if r.returncode != 0 else None
    finally:
        rmtree(wd)
    if v:
        print("REPRODUCED:", v[0], v[1][:400])
        return 1
    print("not reproduced (schedules are imposed; a free-running failure may need several runs)")
    return 0


def selftest():
    """binding: a corrupted expected result / a corrupted recorded event must be rejected"""
    cargo_build_or_die(["concdrv"])
    wd = mkscratch("conc")
    try:
        _, s = schedules("T2", "Inputs2x1")
        recs = make_replay_records(s[:3], "st")
        good = recs[0]
        bad = json.loads(json.dumps(good))
        bad["expected"][0] += 1
        res = run_replay([good, bad], wd)
        a = judge_replay(good, res[0]) is None and judge_replay(bad, res[1]) is not None
        # an impossible schedule (an action before its lookahead was read) must be reported as divergence
        imp = json.loads(json.dumps(good))
        d = next(k for k, e in enumerate(imp["sched"]) if e["ev"] == "D")
        l2 = next(k for k, e in enumerate(imp["sched"]) if e["ev"] == "L" and e["k"] == 2 and e["t"] == imp["sched"][d]["t"])
        imp["sched"][d], imp["sched"][l2] = imp["sched"][l2], imp["sched"][d]
        res2 = run_replay([imp], wd)
        b = judge_replay(imp, res2[0]) is not None
        # trace: corrupt one recorded event
        tf = free_run(4, 20, 5, wd)
        ev = [json.loads(l) for l in open(tf)]
        k = next(i for i, e in enumerate(ev) if e["ev"] == "R" and e["val"] > 0)
        ev[k]["val"] += 1
        cf = os.path.join(wd, "corrupt.ndjson")
        with open(cf, "w") as f:
            for e in ev:
                f.write(json.dumps(e) + "\n")
        _, parts_good = validate_trace(tf, 4, wd, groups=1)
        _, parts_bad = validate_trace(cf, 4, wd, groups=1)
        c = all(b_ is None for _, _, _, b_ in parts_good) and any(b_ is not None for _, _, _, b_ in parts_bad)
        # drop one event
        ev2 = [json.loads(l) for l in open(tf)]
        k2 = next(i for i, e in enumerate(ev2) if e["ev"] == "D")
        del ev2[k2]
        df = os.path.join(wd, "dropped.ndjson")
        with open(df, "w") as f:
            for e in ev2:
                f.write(json.dumps(e) + "\n")
        _, parts_drop = validate_trace(df, 4, wd, groups=1)
        d_ok = any(b_ is not None for _, _, _, b_ in parts_drop)
    finally:
        rmtree(wd)
    return ("conc: corrupted expected result / impossible schedule / corrupted and dropped trace events are rejected",
            a and b and c and d_ok, "replay=%s impossible=%s trace=%s dropped=%s" % (a, b, c, d_ok))
