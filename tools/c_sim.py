"""Checks built on the `sim` engine: C03 (verdicts) and the automaton level of
C01 (language equality via the product simulation)."""
import json
import os
import random

import eng_sim
import gen
import lp
import vlib
from vlib import Report, ToolError, cached, cargo_build_or_die, log, mkscratch, rmtree

ALL_MODES = ["lane", "lr1", "lalr"]
DEPS = ["spec/Grammar.tla", "spec/CanonLR.tla", "spec/Sim.tla", "spec/MCSim.cfg", "tools/eng_sim.py", "tools/c_sim.py",
        "tools/gen.py", "tools/lp.py", "tools/vlib.py", "harness/crates/lpdrv", "harness/Cargo.toml", "harness/.cargo"]


def population(tier, seed):
    ss = gen.small_scope()
    rng = random.Random(seed * 7919 + 13)
    fam_rng = random.Random(seed * 104729 + 7)
    fams = []
    for i in range(150 if tier == "quick" else 2500):
        g = gen.lr1_not_lalr(fam_rng, i)
        g["id"] = "xf%05d" % i
        fams.append(g)
    # grammars with the error terminal `!` (an ordinary terminal for the construction; conflicts on it count)
    import core
    recs = []
    for i in range(120 if tier == "quick" else 1500):
        r = fam_rng.random()
        if r < 0.35:
            g = gen.recovery_shapes(fam_rng, i)
        else:
            g = core.add_recovery(gen.random_grammar(fam_rng, i, max_nt=3, max_t=3, max_prods=6, max_rhs=3), fam_rng)
        if fam_rng.random() < 0.3:      # `!` where it competes with a reduction
            nt = fam_rng.choice(g["nts"])
            base = fam_rng.choice([p for p in g["prods"] if p["lhs"] == nt] or g["prods"])
            g["prods"] = g["prods"] + [{"lhs": base["lhs"], "rhs": list(base["rhs"]) + ["error"]}]
        g["id"] = "xr%05d" % i
        g.pop("recshape", None)
        recs.append(g)
    for i in range(30 if tier == "quick" else 300):
        # two nonterminals with a common prefix, one continues with `!`, the other is followed by `!`
        t, u = fam_rng.sample(gen.TS[:4], 2)
        real = fam_rng.random() < 0.6
        prods = [{"lhs": "S", "rhs": ["A"]}, {"lhs": "S", "rhs": ["B", "error"]},
                 {"lhs": "A", "rhs": [t, "error"] if real else [t, u, "error"]}, {"lhs": "B", "rhs": [t]}]
        if fam_rng.random() < 0.5:
            prods.append({"lhs": "S", "rhs": [u, "S", u]})
        g = {"id": "xe%05d" % i, "ts": [x for x in gen.TS if any(x in p["rhs"] for p in prods)], "nts": ["S", "A", "B"],
             "starts": ["S"], "prods": prods, "recovery": True}
        recs.append(g)
    fams += recs
    if tier == "quick":
        pop = list(ss)
        pop += gen.random_population(seed, 300)
        pop += fams
    else:
        pop = list(ss) + fams
        pop += gen.random_population(seed, 3000)
        pop += gen.random_population(seed + 1, 1500, max_nt=5, max_t=5, max_prods=12)
        # a sample of the next scope up (4 productions)
        big = gen.small_scope(max_prods=4)
        extra = [g for g in big if len(g["prods"]) == 4]
        rng.shuffle(extra)
        for k, g in enumerate(extra[:12000]):
            g["id"] = "s4%05d" % k
            pop.append(g)
    return pop


def productive(g):
    pr = set()
    ch = True
    while ch:
        ch = False
        for p in g["prods"]:
            if p["lhs"] not in pr and all(s in g["ts"] or s == "error" or s in pr for s in p["rhs"]):
                pr.add(p["lhs"])
                ch = True
    return pr


def analyse(pop, modes):
    """run LALRPOP + MCSim over a population; returns a JSON-able summary with
    every disagreement, keyed for the known-findings matcher"""
    wd = mkscratch("sim")
    try:
        res = eng_sim.run_lalrpop(pop, modes, wd)
        cases, other = eng_sim.make_cases(pop, res, modes)
        byid = {g["id"]: g for g in pop}
        # effect of a conflict verdict: Err, diagnostic, no output file
        effects = []
        for (gid, mode), r in res.items():
            rs = os.path.join(wd, "src", mode, gid + ".rs")
            if r["status"] == "err":
                if os.path.exists(rs):
                    effects.append((gid, mode, "output_left_after_error"))
                txt = r.get("stdout", "") + r.get("stderr", "")
                ex = r.get("export") or {}
                autos = ex.get("automata", [])
                # a conflict verdict comes with a diagnostic (its wording varies: "Conflict detected",
                # "Ambiguous grammar", "Multiple productions for the same reduction", ...)
                if autos and autos[-1]["verdict"] == "conflict" and len(txt.strip()) < 20:
                    effects.append((gid, mode, "conflict_without_diagnostic"))
            elif r["status"] == "ok" and not os.path.exists(rs):
                effects.append((gid, mode, "ok_without_output"))
        out = eng_sim.run_mcsim(cases)
        dis = []
        for name, cid, path in out["violations"]:
            gid, mode, start = cid.split("@")
            dis.append({"kind": "invariant", "inv": name, "gid": gid, "mode": mode, "start": start,
                        "path": path, "grammar": byid.get(gid)})
        for c in cases:
            gid, mode, start = c["id"].split("@")
            if mode in ("lane", "lr1"):
                spec_ok = c["id"] not in out["conflicts"]
            else:
                if c["id"] not in out["lalr"]:
                    raise ToolError("no LALR verdict from TLC for " + c["id"])
                spec_ok = out["lalr"][c["id"]]
            lal_ok = c["verdict"] == "ok"
            if spec_ok != lal_ok:
                g = byid.get(gid)
                unprod = bool(g and (set(g["nts"]) - productive(g)))
                dis.append({"kind": "false_conflict" if spec_ok else "missed_conflict", "gid": gid,
                            "mode": mode, "start": start, "unproductive_nt": unprod, "grammar": g})
        for gid, mode, kind, detail in other:
            dis.append({"kind": kind, "gid": gid, "mode": mode, "detail": detail[:300], "grammar": byid.get(gid)})
        for gid, mode, kind in effects:
            dis.append({"kind": kind, "gid": gid, "mode": mode, "grammar": byid.get(gid)})
        verdicts = {}
        for c in cases:
            k = "%s/%s" % (c["mode"], c["verdict"])
            verdicts[k] = verdicts.get(k, 0) + 1
        samples = []
        for c in cases[:: max(1, len(cases) // 4)][:4]:
            samples.append({"case": c["id"], "verdict": c["verdict"],
                            "productions": ["%s -> %s" % (p["lhs"], " ".join(p["rhs"]) or "ε") for p in c["G"]["prods"]],
                            "lalrpop_states": len(c["states"])})
        return {"grammars": len(pop), "cases": len(cases), "states": out["states"], "generated": out["generated"],
                "tlc_runs": out["runs"], "verdicts": verdicts, "disagreements": dis, "samples": samples,
                "canonical_conflict_cases": len(out["conflicts"])}
    finally:
        rmtree(wd)


def shared(tier, seed):
    """the sim run is shared by C01 and C03 (cached per repository state)"""
    cargo_build_or_die(["lpdrv"])
    key = "sim-%s-%s-%s-%d" % (vlib.repo_fingerprint(), vlib.verif_fingerprint(DEPS), tier, seed)

    def build(d):
        pop = population(tier, seed)
        log("sim: %d grammars x %d modes" % (len(pop), len(ALL_MODES)))
        s = analyse(pop, ALL_MODES)
        with open(os.path.join(d, "summary.json"), "w") as f:
            json.dump(s, f)

    d = cached(key, build)
    with open(os.path.join(d, "summary.json")) as f:
        return json.load(f)


def dis_key(d):
    k = "kind=%s mode=%s" % (d["kind"], d["mode"])
    if "inv" in d:
        k += " inv=%s" % d["inv"]
    if d.get("unproductive_nt") is not None and d["kind"] in ("false_conflict", "missed_conflict"):
        k += " unproductive_nt=%s" % ("yes" if d["unproductive_nt"] else "no")
    return k


def describe(d):
    g = d.get("grammar")
    gs = "; ".join("%s -> %s" % (p["lhs"], " ".join(p["rhs"]) or "ε") for p in g["prods"]) if g else "?"
    return "%s on grammar {%s} (%s, start %s)" % (d["kind"] + (":" + d["inv"] if "inv" in d else ""), gs,
                                                  d["mode"], d.get("start", "S"))


C03_KINDS = {"false_conflict", "missed_conflict", "error_not_conflict", "rejected_before_lr", "panic",
             "timeout", "abort", "output_left_after_error", "conflict_without_diagnostic", "ok_without_output",
             "ok_without_automaton", "normalisation_changed_productions"}


def check_C03(tier, seed):
    rep = Report("C03", tier, "model_checking", seed)
    s = shared(tier, seed)
    rep.add(states=s["states"], transitions=s["generated"], traces_validated_against_impl=s["cases"],
            programs=s["grammars"], verdict_counts=s["verdicts"], exhaustive=True,
            canonical_conflict_cases=s["canonical_conflict_cases"])
    rep.evaluations = s["cases"]
    rep._distinct = set(range(s["cases"]))
    for x in s["samples"]:
        rep.sample(x)
    for d in s["disagreements"]:
        if d["kind"] in C03_KINDS or (d["kind"] == "invariant" and d["inv"] == "AcceptedIsLR1"):
            rep.violation(dis_key(d), describe(d), {"engine": "sim", "grammar": d.get("grammar"), "mode": d["mode"]})
    rep.assumptions = ["TLC evaluates CanonLR.tla faithfully", "the hook export is the value handed to the code generators",
                       "LALR(1) criterion: canonical states merged by LR(0) core (constant-level in Sim.tla)"]
    return rep.finish(
        rule="every grammar of the small scope (<=2 nonterminals, <=2 terminals, <=3 productions, rhs<=2) plus seeded "
             "random grammars, each under lane-table / canonical LR(1) / LALR(1); one case per (grammar, mode, pub start); "
             "LALRPOP's verdict compared with reachability of a conflicting canonical item set (TLC, complete per grammar) "
             "resp. the merged-core LALR criterion; all cases are distinct by construction")


def check_C01_sim(rep, tier, seed):
    """automaton level of C01; adds to an existing report"""
    s = shared(tier, seed)
    rep.add(states=s["states"], transitions=s["generated"], sim_cases=s["cases"])
    for d in s["disagreements"]:
        if d["kind"] == "invariant" and d["inv"] in eng_sim.SIM_INVS:
            rep.violation(dis_key(d), describe(d), {"engine": "sim", "grammar": d.get("grammar"), "mode": d["mode"]})
    return s


def replay(obj):
    """re-run one grammar of a replay file through the sim engine; prints the disagreements"""
    cargo_build_or_die(["lpdrv"])
    g = obj["grammar"]
    s = analyse([g], [obj.get("mode", "lane")])
    for d in s["disagreements"]:
        print("REPRODUCED:", dis_key(d), describe(d))
    return 1 if s["disagreements"] else 0


REGISTRY = {"C03": check_C03}
REPLAY = {"sim": replay}
ENGINES = [{"name": "sim", "path": "tools/eng_sim.py, tools/c_sim.py, spec/Sim.tla, spec/CanonLR.tla, spec/Grammar.tla, harness/crates/lpdrv",
            "serves_properties": ["C01", "C03"],
            "kind_free_text": "TLC explores the product of the textbook canonical LR(1) construction (TLA+) with the automaton "
                              "LALRPOP built (hook export); complete per grammar"}]
MANIFEST = [{
    "property_id": "C03", "quick_cmd": "./check C03 --tier quick", "thorough_cmd": "./check C03 --tier thorough",
    "evidence_file": "evidence/C03.json", "replay_cmd_template": "./check C03 --replay {path}", "engine": "sim",
    "level_claimed": {"category": "model_checking", "design_ref": "DESIGN.md 4.2, 4.3, 5/C03",
                      "text": "For every grammar of an exhaustively enumerated small scope and seeded random grammars, under each "
                              "construction algorithm, TLC explores the whole canonical LR(1) item-set graph (textbook construction "
                              "written in TLA+) and LALRPOP's verdict is compared with reachability of a conflicting item set (LALR: "
                              "merged-core criterion); accepted grammars additionally satisfy the simulation invariants in every "
                              "product state."},
    "level_note": "Trusted: TLC's evaluation of CanonLR.tla; the cfg-guarded export hook (records the value handed to the code "
                  "generators). Bounded in grammar size, unbounded in input length per grammar.",
    "technique": "TLA+ spec of canonical LR(1) + TLC exhaustive exploration per grammar; conformance by comparing with the "
                 "exported automaton/verdict of the real generator",
}]
