"""Registry of the property checks (./check <ID>)."""
import json
import subprocess
import sys

import vlib


def setup():
    """MANIFEST.setup_cmd: build the harness against /repo (hooks on)."""
    vlib.cargo_build_or_die(None)
    # TLC sanity: the spec modules parse
    r = subprocess.run(["bash", "-c", "cd %s && for m in *.tla; do tla-sany $m >/dev/null 2>&1 || echo BAD $m; done" % vlib.SPEC],
                       capture_output=True, text=True)
    if "BAD" in r.stdout:
        print(r.stdout)
        return 2
    print("setup ok")
    return 0


def selftest():
    import selftests
    return selftests.run()


def replay(prop, path):
    with open(path) as f:
        obj = json.load(f)
    rp = obj.get("replay", obj)
    eng = rp.get("engine")
    if eng == "sim":
        import c_sim
        return c_sim.replay(rp)
    raise vlib.ToolError("no replay handler for engine %r" % eng)


def _c03(tier, seed):
    import c_sim
    return c_sim.check_C03(tier, seed)


REGISTRY = {
    "C03": _c03,
}
