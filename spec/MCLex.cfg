SPECIFICATION Spec
CONSTANT ZeroLenIsError = TRUE
CHECK_DEADLOCK FALSE
INVARIANT TypeOK
INVARIANT TokensOrdered
INVARIANT NoEmptyToken
INVARIANT NoTie
INVARIANT Report
PROPERTY LexProgress
