"""Engine `codescan` (C26, embedded Rust half): spec/CodeScan.tla + MCCodeScan.

TLC enumerates action bodies (sequences of Rust lexical items) and states, for
each, the text that belongs to the action and the Rust tokens it consists of.
 (A) the real LALRPOP alone is run on grammars that embed the body in front of
     every kind of terminator (`,` `}` `;`, and as a `use` item); the action
     text is read back from the generated `fn __actionN` bodies / `use` lines and
     must equal the specification's text;
 (B) a sample of bodies is compiled: the action is `toks!(BODY)`, a macro that
     lets rustc lex the text LALRPOP emitted; tokens and literal values must
     equal the specification's.
This file renders, runs and compares strings; every expected value is TLC's."""
import json
import os
import random
import re
import shutil
import subprocess

import lp
import vlib
from vlib import HARNESS, REPO, TARGET, Report, ToolError, cargo_build_or_die, log, mkscratch, rmtree, run_tlc

CFG = """SPECIFICATION Spec
CHECK_DEADLOCK FALSE
CONSTANT Items <- Catalogue
CONSTANT Cat <- %s
CONSTANT MaxLen = %d
INVARIANT BodyIsWhole
INVARIANT EndsAtTerminator
INVARIANT OpenNeverEnds
INVARIANT Report
"""

CONTEXTS = ("comma", "brace", "semi", "use")


# --------------------------------------------------------------------------
# TLC
# --------------------------------------------------------------------------
def tlc_bodies(runs):
    """runs: [(catalogue set name, max length)] -> (catalogue, bodies, states, transitions, wall)"""
    bodies = {}
    cat = None
    st = tr = 0
    wall = 0.0
    for name, n in runs:
        r = run_tlc("MCCodeScan", CFG % (name, n), workers=8, timeout=3000)
        if r.violations:
            raise ToolError("CodeScan.tla violates its own invariant %s (spec bug):\n%s" %
                            (r.violations[0]["name"], r.violations[0]["trace"][-1500:]))
        st += r.distinct
        tr += r.generated
        wall += r.wall
        for tag, o in r.prints:
            if tag == "CATALOGUE":
                cat = o
            elif tag == "BODY":
                bodies.setdefault(tuple(o["ids"]), o)
    if cat is None or not bodies:
        raise ToolError("MCCodeScan printed nothing")
    return cat, [bodies[k] for k in sorted(bodies)], st, tr, wall


# --------------------------------------------------------------------------
# (A) LALRPOP alone
# --------------------------------------------------------------------------
def make_units(bodies, contexts, modes=("spaced", "tight")):
    units = []
    for b in bodies:
        for m in modes:
            if m == "tight" and b["tight"] == b["spaced"]:
                continue
            for c in contexts:
                units.append({"ids": b["ids"], "mode": m, "ctx": c, "text": b[m], "nl": b["nl"]})
    return units


def render_grammar(units):
    """one grammar embedding every unit; unit k is identified by its type name K<k>"""
    uses, items, names = [], [], []
    for k, u in enumerate(units):
        g = " " if u["mode"] == "spaced" else ""
        tail = "\n" if u["nl"] else g
        t = u["text"]
        if u["ctx"] == "use":
            uses.append("use %s%s;\nuse __s%d;\n" % (t, tail, k))
            continue
        names.append("N%d" % k)
        if u["ctx"] == "comma":
            items.append('N%d: K%d = { "k%d" =>%s%s%s, };\n' % (k, k, k, g, t, tail))
        elif u["ctx"] == "brace":
            items.append('N%d: K%d = { "k%d" =>%s%s%s};\n' % (k, k, k, g, t, tail))
        elif u["ctx"] == "semi":
            items.append('N%d: K%d = "k%d" =>%s%s%s;\n' % (k, k, k, g, t, tail))
        else:
            raise ToolError("context " + u["ctx"])
    if not names:
        names, items = ["N"], ['N: K = "k" => 0;\n']
    return "".join(uses) + "grammar;\npub S: K = { %s };\n" % ", ".join(names) + "".join(items)


_HDR = re.compile(r"\n(?:#\[allow\(unused_variables\)\]\n)?#\[allow\(clippy::too_many_arguments[^\n]*\]\n"
                  r"fn __action(\d+)<\n(?:[^\n]*\n)*?\) -> ([^\n]*)\n\{\n")
_TAIL = "\n#[allow(clippy::type_complexity, dead_code)]\npub trait __ToTriple"


def extract_actions(rs):
    """{return type: action text} read back from the generated `fn __actionN` items"""
    out = {}
    ms = list(_HDR.finditer(rs))
    for i, m in enumerate(ms):
        end = ms[i + 1].start() if i + 1 < len(ms) else rs.find(_TAIL, m.end())
        if end < 0:
            raise ToolError("cannot find the end of the action functions in the generated file")
        region = rs[m.end():end]
        if region == "}\n":
            body = "()"  # LALRPOP writes nothing for the unit action `()`
        elif region.endswith("\n}\n"):
            body = region[:-3]
        else:
            raise ToolError("unexpected shape of generated action fn: %r" % region[-80:])
        out.setdefault(m.group(2), []).append(body)
    return out


def extract_uses(rs):
    """texts of the `use` items at the top of the generated file, split at the sentinels"""
    lines = rs.split("\n", 2)
    if len(lines) < 3:
        return {}
    rest = lines[2]
    stop = rest.find("#[allow(unused_extern_crates)]\nextern crate lalrpop_util")
    if stop < 0:
        raise ToolError("cannot find the end of the use section")
    sec = rest[:stop]
    out = {}
    pos = 0
    for m in re.finditer(r"use __s(\d+);\n", sec):
        out[int(m.group(1))] = sec[pos:m.start()]
        pos = m.end()
    return out


def run_batches(batches, wd, tag):
    """batches: list of lists of units -> per batch (lpdrv result, {k: captured text or None})"""
    jobs = []
    for bi, us in enumerate(batches):
        d = os.path.join(wd, "%s%d" % (tag, bi // 500))
        os.makedirs(d, exist_ok=True)
        path = os.path.join(d, "%s%d.lalrpop" % (tag, bi))
        with open(path, "w") as f:
            f.write(render_grammar(us))
        jobs.append({"id": "%s%d" % (tag, bi), "file": path, "emit_whitespace": False, "timeout_s": 60})
    res = lp.run_jobs(jobs, wd)
    out = []
    for bi, us in enumerate(batches):
        r = res["%s%d" % (tag, bi)]
        cap = {}
        rs_path = os.path.join(wd, "%s%d" % (tag, bi // 500), "%s%d.rs" % (tag, bi))
        if r["status"] == "ok":
            if not os.path.exists(rs_path):
                raise ToolError("lalrpop reported success without writing " + rs_path)
            rs = open(rs_path).read()
            acts = extract_actions(rs)
            uses = extract_uses(rs)
            for k, u in enumerate(us):
                if u["ctx"] == "use":
                    t = uses.get(k)
                    if t is not None:
                        if not (t.startswith("use ") and t.endswith(";\n")):
                            t = "<<" + t + ">>"
                        else:
                            t = t[4:-2]
                    cap[k] = t
                else:
                    v = acts.get("K%d" % k)
                    cap[k] = v[0] if v and len(v) == 1 else None
        out.append((r, cap))
        for p in (rs_path,):
            if os.path.exists(p):
                os.remove(p)
    return out


def diag(r):
    txt = (r.get("stdout", "") + "\n" + r.get("stderr", "") + "\n" + r.get("message", "")).strip()
    m = re.search(r"error: ([^\n]*)", txt)
    return (m.group(1) if m else r.get("message", "") or txt[:120]).strip()


def scan_replay(units, wd, sizes=(48, 6, 1)):
    """run every unit through the real LALRPOP; a unit's verdict is taken from a
    batch only when the whole batch succeeded and its text matched, otherwise it
    is re-run in smaller batches, finally alone.  -> list of verdict dicts"""
    verdict = [None] * len(units)
    pending = list(range(len(units)))
    rng = random.Random(12345)
    runs = 0
    for rnd, size in enumerate(sizes):
        if not pending:
            break
        if size > 1:
            # keep bodies with the same literal classes together so that a defect
            # that rejects one class does not drag every batch down
            pending.sort(key=lambda i: (tuple(sorted(set(units[i]["ids"]) - set(range(1, 9)))), i))
        batches = [pending[i:i + size] for i in range(0, len(pending), size)]
        res = run_batches([[units[i] for i in b] for b in batches], wd, "r%d_" % rnd)
        runs += len(batches)
        nxt = []
        for b, (r, cap) in zip(batches, res):
            for k, i in enumerate(b):
                u = units[i]
                if r["status"] == "ok" and cap.get(k) == u["text"]:
                    verdict[i] = {"ok": True}
                elif size == 1:
                    if r["status"] == "ok":
                        verdict[i] = {"ok": False, "mode": "altered", "got": cap.get(k), "diag": ""}
                    else:
                        verdict[i] = {"ok": False, "mode": "rejected" if r["status"] == "err" else r["status"],
                                      "got": None, "diag": diag(r)}
                else:
                    nxt.append(i)
        pending = nxt
    return verdict, runs


# --------------------------------------------------------------------------
# classification of failing units (keys for the known-findings matcher)
# --------------------------------------------------------------------------
def classify(units, verdict, cat):
    """-> list of (key, what, replay) for failing units.  A failing body is
    blamed on the literal class of an item that also fails when it stands alone;
    if the body still fails with those items replaced by `x`, it is reported
    under its own key as well."""
    by = {}
    for u, v in zip(units, verdict):
        by[(tuple(u["ids"]), u["mode"], u["ctx"])] = v
    alone_bad = set()
    for (ids, mode, ctx), v in by.items():
        if len(ids) == 1 and not v["ok"]:
            alone_bad.add(ids[0])
    X = next(i + 1 for i, c in enumerate(cat) if c["t"] == "x")
    out = []
    for u, v in zip(units, verdict):
        if v["ok"]:
            continue
        ids = tuple(u["ids"])
        bad = [i for i in ids if i in alone_bad]
        facts = []
        if bad:
            sub = tuple(X if i in alone_bad else i for i in ids)
            sv = by.get((sub, u["mode"], u["ctx"])) or by.get((sub, "spaced", u["ctx"]))
            independent = sv is not None and not sv["ok"]
            for i in sorted(set(bad)):
                facts.append(item_facts(cat[i - 1]))
            if independent:
                facts.append("item=combination also_fails_without_blamed_items=yes")
        else:
            facts.append("item=combination classes=%s" % "+".join(sorted({cat[i - 1]["c"] for i in ids})))
        for f in facts:
            key = "kind=code_scan %s mode=%s ctx=%s" % (f, v["mode"], u["ctx"])
            what = "action code `%s` (%s, before %s): specification says the action is exactly this text; LALRPOP %s" % (
                u["text"].replace("\n", "\\n"), u["mode"],
                {"comma": "`,`", "brace": "`}`", "semi": "`;`", "use": "`;` of a use item"}[u["ctx"]],
                ("rejects the grammar: " + v["diag"]) if v["mode"] != "altered" else
                ("emits `%s`" % (v["got"] or "<nothing>").replace("\n", "\\n")))
            out.append((key, what, {"engine": "codescan", "unit": u}))
    return out


def item_facts(it):
    f = "item=%s" % it["c"]
    t = it["t"]
    if it["c"] in ("raw_string", "raw_byte_string"):
        f += " hashes=%d" % (len(t) - len(t.lstrip("br").lstrip("#")) if False else t.split('"')[0].count("#"))
        f += " inner_quote=%s" % ("yes" if '"' in it["v"] else "no")
        f += " backslash_before_quote=%s" % ("yes" if it["v"].endswith("\\") else "no")
    if "<>" in it["v"]:
        f += " has_angle_pair=yes"
    return f


# --------------------------------------------------------------------------
# (B) compile and evaluate: rustc lexes the text LALRPOP emitted
# --------------------------------------------------------------------------
EVAL_CARGO = """[package]
name = "codeeval"
version = "0.0.0"
edition = "2021"

[dependencies]
lalrpop-util = { path = "%s/lalrpop-util", features = ["lexer", "unicode"] }

[profile.dev]
opt-level = 0
debug = 0
incremental = false

[workspace]
"""

EVAL_MAIN = r'''// generated by tools/sm_code.py: evaluates `toks!(BODY)` actions
#![allow(unused_parens, unused_braces, unused_macros, dead_code, clippy::all)]
#[derive(Debug, Clone)]
pub struct Tk { pub t: String, pub k: &'static str, pub v: String }
pub fn tk(t: &str, k: &'static str, v: String) -> Tk { Tk { t: t.to_string(), k, v } }
pub trait V { fn v(&self) -> String; }
impl V for &str { fn v(&self) -> String { self.to_string() } }
impl V for char { fn v(&self) -> String { self.to_string() } }
impl V for u8 { fn v(&self) -> String { (*self as char).to_string() } }
impl V for i32 { fn v(&self) -> String { self.to_string() } }
impl<const N: usize> V for &[u8; N] { fn v(&self) -> String { String::from_utf8_lossy(&self[..]).to_string() } }
macro_rules! flat {
    ($v:ident;) => {};
    ($v:ident; ( $($i:tt)* ) $($r:tt)*) => { $v.push($crate::tk("(", "open", String::new())); flat!($v; $($i)*); $v.push($crate::tk(")", "close", String::new())); flat!($v; $($r)*); };
    ($v:ident; [ $($i:tt)* ] $($r:tt)*) => { $v.push($crate::tk("[", "open", String::new())); flat!($v; $($i)*); $v.push($crate::tk("]", "close", String::new())); flat!($v; $($r)*); };
    ($v:ident; { $($i:tt)* } $($r:tt)*) => { $v.push($crate::tk("{", "open", String::new())); flat!($v; $($i)*); $v.push($crate::tk("}", "close", String::new())); flat!($v; $($r)*); };
    ($v:ident; , $($r:tt)*) => { $v.push($crate::tk(",", "comma", String::new())); flat!($v; $($r)*); };
    ($v:ident; ; $($r:tt)*) => { $v.push($crate::tk(";", "semi", String::new())); flat!($v; $($r)*); };
    ($v:ident; $l:lifetime $($r:tt)*) => { $v.push($crate::tk(stringify!($l), "life", String::new())); flat!($v; $($r)*); };
    ($v:ident; $l:literal $($r:tt)*) => { $v.push($crate::tk(stringify!($l), "lit", $crate::V::v(&$l))); flat!($v; $($r)*); };
    ($v:ident; $t:tt $($r:tt)*) => { $v.push($crate::tk(stringify!($t), "other", String::new())); flat!($v; $($r)*); };
}
macro_rules! toks { ($($t:tt)*) => {{ #[allow(unused_mut)] let mut v: Vec<$crate::Tk> = Vec::new(); flat!(v; $($t)*); v }} }

MODS

fn esc(s: &str) -> String {
    let mut o = String::from("\"");
    for c in s.chars() {
        match c {
            '"' => o.push_str("\\\""),
            '\\' => o.push_str("\\\\"),
            '\n' => o.push_str("\\n"),
            c if (c as u32) < 0x20 => o.push_str(&format!("\\u{:04x}", c as u32)),
            c => o.push(c),
        }
    }
    o.push('"');
    o
}

fn show(m: usize, j: usize, r: Result<Vec<Tk>, String>) {
    match r {
        Ok(v) => {
            let items: Vec<String> = v.iter().map(|t| format!("{{\"t\":{},\"k\":{},\"v\":{}}}", esc(&t.t), esc(t.k), esc(&t.v))).collect();
            println!("{{\"m\":{},\"j\":{},\"toks\":[{}]}}", m, j, items.join(","));
        }
        Err(e) => println!("{{\"m\":{},\"j\":{},\"error\":{}}}", m, j, esc(&e)),
    }
}

fn main() {
RUNS
}
'''


def eval_bodies(cases, wd, per_module=250):
    """cases: [{text, toks}] -> (list of (case, got toks | error string), lalrpop failures)"""
    crate = os.path.join(wd, "codeeval")
    src = os.path.join(crate, "src")
    os.makedirs(src, exist_ok=True)
    with open(os.path.join(crate, "Cargo.toml"), "w") as f:
        f.write(EVAL_CARGO % REPO)
    shutil.copy(os.path.join(HARNESS, "Cargo.lock"), os.path.join(crate, "Cargo.lock"))
    def gen(mods_, tag):
        jobs = []
        for m, cs in enumerate(mods_):
            g = "grammar;\npub S: Vec<crate::Tk> = {\n"
            for j, c in enumerate(cs):
                g += '  "k%d" => toks!(%s%s),\n' % (j, c["text"], "\n" if c["nl"] else "")
            g += "};\n"
            p = os.path.join(src, "%s%d.lalrpop" % (tag, m))
            with open(p, "w") as f:
                f.write(g)
            jobs.append({"id": "%s%d" % (tag, m), "file": p, "timeout_s": 120})
        return lp.run_jobs(jobs, wd)

    mods = [cases[i:i + per_module] for i in range(0, len(cases), per_module)]
    res = gen(mods, "q")
    failed = []      # (case, lpdrv result) of bodies LALRPOP does not take inside toks!( )
    keep = []
    for m, cs in enumerate(mods):
        if res["q%d" % m]["status"] == "ok":
            keep += cs
            continue
        singles = gen([[c] for c in cs], "s%d_" % m)
        for j, c in enumerate(cs):
            r1 = singles["s%d_%d" % (m, j)]
            if r1["status"] == "ok":
                keep.append(c)
            else:
                failed.append((c, r1))
    for f in os.listdir(src):
        os.remove(os.path.join(src, f))
    mods = [keep[i:i + per_module] for i in range(0, len(keep), per_module)]
    res = gen(mods, "p")
    okmods = []
    for m, cs in enumerate(mods):
        r = res["p%d" % m]
        if r["status"] != "ok":
            # every body is accepted alone but the batch is not: report the batch as a whole
            failed.append(({"ids": [], "mode": "batch", "text": "<%d bodies>" % len(cs), "batch": cs}, r))
        else:
            okmods.append(m)
    main = EVAL_MAIN.replace("MODS", "\n".join(
        "#[allow(warnings)] mod p%d { include!(\"p%d.rs\"); }" % (m, m) for m in okmods))
    runs = []
    for m in okmods:
        runs.append("    { let p = p%d::SParser::new(); for j in 0..%d { show(%d, j, p.parse(&format!(\"k{}\", j)).map_err(|e| format!(\"{:?}\", e))); } }"
                    % (m, len(mods[m]), m))
    main = main.replace("RUNS", "\n".join(runs))
    with open(os.path.join(src, "main.rs"), "w") as f:
        f.write(main)
    env = vlib.cargo_env()
    env["CARGO_TARGET_DIR"] = os.path.join(TARGET, "evalcrates")
    with vlib.FileLock("cargo-evalcrates"):
        p = subprocess.run(["cargo", "build", "--offline", "-q"], cwd=crate, env=env, capture_output=True, text=True,
                           timeout=3000)
        if p.returncode != 0:
            return None, failed, p.stderr
        exe = os.path.join(wd, "codeeval-bin")
        shutil.copy(os.path.join(TARGET, "evalcrates", "debug", "codeeval"), exe)
    q = subprocess.run([exe], capture_output=True, text=True, timeout=600)
    if q.returncode != 0:
        raise ToolError("codeeval crashed: " + q.stderr[-1500:])
    out = []
    for line in q.stdout.splitlines():
        o = json.loads(line)
        c = mods[o["m"]][o["j"]]
        out.append((c, o.get("toks") if "toks" in o else "error: " + o["error"]))
    return out, failed, ""


# --------------------------------------------------------------------------
# the check
# --------------------------------------------------------------------------
TIER = {
    "quick": {"runs": [("FullSet", 2), ("CoreSet", 4)], "all_ctx_len": 4, "rest_ctx": ("comma", "semi"), "eval": 700},
    "thorough": {"runs": [("FullSet", 3), ("CoreSet", 5)], "all_ctx_len": 2, "rest_ctx": ("comma",), "eval": 6000},
}


def check(tier, seed):
    import sm_layout
    rep = Report("C26", tier, "model_checking", seed)
    cargo_build_or_die(["lpdrv"])
    T = TIER[tier]
    cat, bodies, st, tr, wall = tlc_bodies(T["runs"])
    log("codescan: %d bodies from TLC (%.0fs)" % (len(bodies), wall))
    core = set(range(1, 14))
    units = []
    for b in bodies:
        allctx = len(b["ids"]) <= T["all_ctx_len"] or set(b["ids"]) <= core
        units += make_units([b], CONTEXTS if allctx else T["rest_ctx"])
    wd = mkscratch("codescan")
    try:
        verdict, runs = scan_replay(units, wd)
        log("codescan: %d units in %d LALRPOP runs" % (len(units), runs))
        for u in units:
            rep.case({"ids": u["ids"], "mode": u["mode"], "ctx": u["ctx"]})
        viol = classify(units, verdict, cat)
        for key, what, rp in viol:
            rep.violation(key, what, rp)
        # (B) rustc lexes what LALRPOP emitted: a seeded sample of the bodies LALRPOP handled correctly
        okb = {}
        for u, v in zip(units, verdict):
            okb.setdefault((tuple(u["ids"]), u["mode"]), []).append(v["ok"])
        good = [k for k, vs in okb.items() if all(vs)]
        rng = random.Random(seed * 31 + 7)
        good.sort()
        rng.shuffle(good)
        # prefer bodies that contain literals or comments
        good.sort(key=lambda k: -len([i for i in k[0] if cat[i - 1]["k"] in ("lit", "life", "lcomment", "bcomment")]))
        bymap = {tuple(b["ids"]): b for b in bodies}
        cases = [{"ids": list(k[0]), "mode": k[1], "text": bymap[k[0]][k[1]], "nl": bymap[k[0]]["nl"],
                  "toks": bymap[k[0]]["toks"]} for k in good[:T["eval"]]]
        out, failed, err = eval_bodies(cases, wd)
        if out is None:
            # rustc rejects text that the specification says is a sequence of Rust tokens: the
            # catalogue (spec) or the harness template is wrong -- not a verdict about LALRPOP
            raise ToolError("codeeval does not compile:\n" + err[-3000:])
        alone_bad = {u["ids"][0] for u, v in zip(units, verdict) if len(u["ids"]) == 1 and not v["ok"]}
        for c, r in failed:
            blamed = sorted({i for i in c["ids"] if i in alone_bad})
            facts = [item_facts(cat[i - 1]) for i in blamed] or [
                "item=combination classes=%s" % "+".join(sorted({cat[i - 1]["c"] for i in c["ids"]}))]
            for f in facts:
                rep.violation("kind=code_scan %s mode=%s ctx=macro_arguments" % (f, "rejected" if r["status"] == "err" else r["status"]),
                              "action code `toks!(%s)`: the specification says the macro arguments are exactly this text; LALRPOP "
                              "rejects the grammar: %s" % (c["text"], diag(r)),
                              {"engine": "codeeval", "cases": c.get("batch") or [c]})
        nbad = 0
        for c, got in out:
            rep.case({"eval": c["ids"], "mode": c["mode"]})
            if got != c["toks"]:
                nbad += 1
                rep.violation("kind=code_tokens classes=%s" % "+".join(sorted({cat[i - 1]["c"] for i in c["ids"]})),
                              "action code `%s`: rustc sees %s in the generated parser, the specification says %s" % (
                                  c["text"], json.dumps(got), json.dumps(c["toks"])), {"engine": "codeeval", "cases": [c]})
    finally:
        rmtree(wd)
    lay = sm_layout.layout_half(rep, tier, seed)
    bad = [(u, v) for u, v in zip(units, verdict) if not v["ok"]]
    for u in (units[0], units[len(units) // 3], units[2 * len(units) // 3]):
        rep.sample({"action_code": u["text"], "rendering": u["mode"], "terminator": u["ctx"],
                    "items": [cat[i - 1]["t"] for i in u["ids"]]})
    if out:
        c, got = out[0]
        rep.sample({"compiled_action": "toks!(%s)" % c["text"], "rustc_tokens": got})
    rep.add(states=st + lay["states"], transitions=tr + lay["transitions"],
            traces_validated_against_impl=len(units) + len(out) + lay["variants"],
            bodies=len(bodies), scan_units=len(units), scan_units_failing=len(bad), lalrpop_runs=runs,
            compiled_and_evaluated=len(out), compiled_mismatches=nbad, layout_variants=lay["variants"],
            layout_variants_failing=lay["violating"], tlc_wall_s=round(wall + lay["tlc_wall_s"], 1),
            exhaustive=True)
    rep.assumptions = [
        "item boundaries of the catalogue are Rust's: cross-checked by rustc on every compiled body (tokens and literal values)",
        "the generated `fn __actionN` bodies and `use` lines are the text LALRPOP hands to rustc (read back from the .rs file)",
        "layout half: white space and comments are insignificant to rustc, so an action text that differs from the base only by "
        "the separators the specification puts next to it has the same meaning",
    ]
    return rep.finish(
        rule="(A) every action body TLC builds from the item catalogue (%s), rendered spaced and tight, in front of `,` `}` `;` and "
             "as a `use` path, run through the real LALRPOP; one case per (body, rendering, terminator), distinct by construction; "
             "(B) a seeded sample of those bodies compiled as toks!(BODY) and evaluated; (C) every single-gap / uniform%s / seeded "
             "random separator assignment of %d base grammars; non-trivial = any variant other than the base rendering" % (
                 ", ".join("%s up to length %d" % r for r in T["runs"]), " / adjacent-pair" if tier != "quick" else "",
                 len(sm_layout.BASES)))


def replay(obj):
    cargo_build_or_die(["lpdrv"])
    wd = mkscratch("codescan")
    try:
        if obj["engine"] == "codeeval":
            out, failed, err = eval_bodies(obj["cases"], wd)
            bad = failed or out is None or any(got != c["toks"] for c, got in out)
            print("REPRODUCED" if bad else "not reproduced", err[-500:])
            return 1 if bad else 0
        verdict, _ = scan_replay([obj["unit"]], wd, sizes=(1,))
    finally:
        rmtree(wd)
    if not verdict[0]["ok"]:
        print("REPRODUCED:", json.dumps(verdict[0]))
        return 1
    print("not reproduced")
    return 0


def selftest():
    """binding: an expected action text that is off by one item must be rejected"""
    cargo_build_or_die(["lpdrv"])
    good = {"ids": [1, 9, 7, 10, 2], "mode": "spaced", "ctx": "comma", "text": "( \"}\" , '(' )", "nl": False}
    bad = dict(good, text="( \"}\"")  # as if the action ended at the comma inside the parentheses
    bad2 = dict(good, ctx="semi", text="( \"}\" , '(' ) ;")
    wd = mkscratch("codescan")
    try:
        v, _ = scan_replay([good, bad, bad2], wd, sizes=(1,))
    finally:
        rmtree(wd)
    got = [x["ok"] for x in v]
    return ("codescan: corrupted expected action texts are rejected, the intact one accepted", got == [True, False, False], str(got))
