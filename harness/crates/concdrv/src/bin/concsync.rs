// compile-time part of C27: the generated parser types can be shared between threads
fn assert_send_sync<T: Send + Sync>() {}
fn main() {
    assert_send_sync::<concdrv::intern::LParser>();
    assert_send_sync::<concdrv::ext::LParser>();
    println!("Send + Sync: intern::LParser, ext::LParser");
}
