------------------------------- MODULE Build -------------------------------
(***************************************************************************)
(* The build protocol of LALRPOP (machine M4 of DESIGN.md, section 4.7 and *)
(* Appendix C): what `Configuration::process_file / process_dir` do to the *)
(* file system, one action per file-system operation of                    *)
(* `build/mod.rs:process_file_into`, together with everything a user (or a *)
(* crash) can do between two builds.                                       *)
(*                                                                         *)
(* Abstract file system                                                    *)
(*   src[f]   the text of grammar f: "A", "B" (two valid grammars) or "Bad" *)
(*            (a grammar LALRPOP must reject)                               *)
(*   out[f]   the generated file of f, tmp[f] its temporary sibling        *)
(*            (only used by the repaired protocol):                        *)
(*              ex    does the file exist                                  *)
(*              ver   first line:  "cur" the header of this LALRPOP,       *)
(*                    "old" anything else, "none" no byte                  *)
(*              hash  second line: "A"/"B"/"Bad" the hash line of that     *)
(*                    text, "junk" anything else, "none" no byte           *)
(*              body  the rest: "A"/"B" exactly what LALRPOP generates for *)
(*                    that text, "part" a proper non-empty prefix of such  *)
(*                    a body, "none" no byte                               *)
(*   touched[f]  set by every step of the running build that removes,      *)
(*            creates, writes or replaces out[f] (stand-in for inode/mtime)*)
(* The running build: pc (program counter, "idle" when no build runs,      *)
(* "done" when the call has returned and its result can be observed),      *)
(* queue (files still to process, in directory-walk order; its head is the *)
(* file being processed), force, visited (files processed successfully),   *)
(* failed (the file whose grammar was rejected), fresh0 (files that were   *)
(* current when the build started).                                        *)
(*                                                                         *)
(* Protocol = "header_first": create the output, write the version line,   *)
(*   the hash line, then the body, in place (the code as it is).           *)
(* Protocol = "temp_rename":  the same writes go to a temporary sibling    *)
(*   which is renamed over the output at the end (the repair).             *)
(* Faults = TRUE enables Crash (at every pc) and failing writes.           *)
(*                                                                         *)
(* Properties                                                              *)
(*   Fresh            (C21)  evaluated with Faults = FALSE                 *)
(*   CrashSafe        (C22)  the same requirement with Faults = TRUE       *)
(*   OutputFunctional (C20/C24) what is generated depends on the text only *)
(***************************************************************************)
EXTENDS Naturals, Sequences, FiniteSets, TLC

CONSTANTS NFiles,    \* number of grammar files: "f1", "f2", ...
          Protocol,  \* "header_first" | "temp_rename"
          Faults     \* BOOLEAN

ASSUME Protocol \in {"header_first", "temp_rename"}
ASSUME Faults \in BOOLEAN

ASSUME NFiles \in Nat \ {0}

(* the file names in directory-walk (sorted) order *)
Order == [i \in 1..NFiles |-> "f" \o ToString(i)]
Files == {Order[i] : i \in DOMAIN Order}
Texts == {"A", "B", "Bad"}
Valid == {"A", "B"}

(* The generator as a function: the body LALRPOP emits for a text.  Bodies
   are named by the text they come from -- this naming *is* the statement
   that the output depends on the text alone (C20; C24 when bodies are
   compared as token streams).  The binding decides which body a real file
   holds by comparing it with reference forced builds. *)
Gen(t) == t
HashOf(t) == t

Absent  == [ex |-> FALSE, ver |-> "none", hash |-> "none", body |-> "none"]
Empty   == [ex |-> TRUE,  ver |-> "none", hash |-> "none", body |-> "none"]
Good(t) == [ex |-> TRUE,  ver |-> "cur",  hash |-> HashOf(t), body |-> Gen(t)]

FileStates == [ex : BOOLEAN, ver : {"cur", "old", "none"},
               hash : Texts \cup {"junk", "none"}, body : Valid \cup {"part", "none"}]

Steps == {"check", "read", "mkdirs", "remove", "generate", "create", "ver", "hash", "body", "rename", "finish"}

VARIABLES src, out, tmp, touched, pc, queue, force, visited, failed, fresh0, act

fs    == <<src, out, tmp>>
build == <<touched, pc, queue, force, visited, failed, fresh0>>
vars  == <<src, out, tmp, touched, pc, queue, force, visited, failed, fresh0, act>>
View  == <<src, out, tmp, touched, pc, queue, force, visited, failed, fresh0>>

NoFile == "none"
cur == Head(queue)
AllFalse == [f \in Files |-> FALSE]
AllAbsent == [f \in Files |-> Absent]

(* label of the step just taken: n name, f file ("" if none), a arguments *)
Lbl(n, f, a) == act' = [n |-> n, f |-> f, a |-> a]

TypeOK == /\ src \in [Files -> Texts]
          /\ out \in [Files -> FileStates]
          /\ tmp \in [Files -> FileStates]
          /\ touched \in [Files -> BOOLEAN]
          /\ pc \in Steps \cup {"idle", "done"}
          /\ visited \subseteq Files
          /\ failed \in Files \cup {NoFile}
          /\ fresh0 \subseteq Files

Init == /\ src \in [Files -> Texts]
        /\ out = AllAbsent
        /\ tmp = AllAbsent
        /\ touched = AllFalse
        /\ pc = "idle"
        /\ queue = <<>>
        /\ force = FALSE
        /\ visited = {}
        /\ failed = NoFile
        /\ fresh0 = {}
        /\ act = [n |-> "Init", f |-> "", a |-> <<>>]

(* ------------------------- what happens between builds ------------------------- *)
Edit(f, t) == /\ pc = "idle" /\ t # src[f]
              /\ src' = [src EXCEPT ![f] = t]
              /\ UNCHANGED <<out, tmp, build>>
              /\ Lbl("Edit", f, <<t>>)

(* rewrite the grammar with the same text (new mtime): nothing abstract changes *)
Touch(f) == /\ pc = "idle"
            /\ UNCHANGED <<fs, build>>
            /\ Lbl("Touch", f, <<>>)

DeleteOut(f) == /\ pc = "idle" /\ out[f].ex
                /\ out' = [out EXCEPT ![f] = Absent]
                /\ UNCHANGED <<src, tmp, build>>
                /\ Lbl("DeleteOut", f, <<>>)

(* the output was produced by another LALRPOP version *)
AlterVer(f) == /\ pc = "idle" /\ out[f].ex /\ out[f].ver = "cur"
               /\ out' = [out EXCEPT ![f].ver = "old"]
               /\ UNCHANGED <<src, tmp, build>>
               /\ Lbl("AlterVer", f, <<>>)

(* the hash line is corrupted (not forged into the hash of another text) *)
AlterHash(f) == /\ pc = "idle" /\ out[f].ex /\ out[f].hash \in Texts
                /\ out' = [out EXCEPT ![f].hash = "junk"]
                /\ UNCHANGED <<src, tmp, build>>
                /\ Lbl("AlterHash", f, <<>>)

(* ------------------------------- a build ------------------------------- *)
Restrict(S) == SelectSeq(Order, LAMBDA f : f \in S)
IsCurrent(f) == out[f] = Good(src[f])

StartBuild(fo, S) ==
    /\ pc = "idle" /\ S # {} /\ S \subseteq Files
    /\ pc' = "check"
    /\ queue' = Restrict(S)
    /\ force' = fo
    /\ visited' = {}
    /\ failed' = NoFile
    /\ touched' = AllFalse
    /\ fresh0' = {f \in S : IsCurrent(f)}
    /\ UNCHANGED fs
    /\ Lbl("StartBuild", IF fo THEN "force" ELSE "plain", Restrict(S))

(* the file is finished: go to the next one, or return Ok *)
NextFile == /\ visited' = visited \cup {cur}
            /\ queue' = Tail(queue)
            /\ pc' = IF Tail(queue) = <<>> THEN "done" ELSE "check"
            /\ UNCHANGED <<force, failed, fresh0>>

(* `force_build || needs_rebuild(..)`: the output is opened, its first two
   lines are compared with this version's header and the grammar's hash *)
UpToDate(f) == out[f].ex /\ out[f].ver = "cur" /\ out[f].hash = HashOf(src[f])

Check == /\ pc = "check"
         /\ IF ~force /\ UpToDate(cur)
              THEN NextFile
              ELSE pc' = "read" /\ UNCHANGED <<queue, force, visited, failed, fresh0>>
         /\ UNCHANGED <<fs, touched>>
         /\ Lbl("Check", cur, <<>>)

Read == /\ pc = "read" /\ pc' = "mkdirs"
        /\ UNCHANGED <<fs, touched, queue, force, visited, failed, fresh0>>
        /\ Lbl("Read", cur, <<>>)

Mkdirs == /\ pc = "mkdirs" /\ pc' = "remove"
          /\ UNCHANGED <<fs, touched, queue, force, visited, failed, fresh0>>
          /\ Lbl("Mkdirs", cur, <<>>)

Remove == /\ pc = "remove" /\ pc' = "generate"
          /\ out' = [out EXCEPT ![cur] = Absent]
          /\ touched' = [touched EXCEPT ![cur] = @ \/ out[cur].ex]
          /\ UNCHANGED <<src, tmp, queue, force, visited, failed, fresh0>>
          /\ Lbl("Remove", cur, <<>>)

(* parse, normalise, build the automaton, emit into a buffer *)
Generate == /\ pc = "generate"
            /\ IF src[cur] \in Valid
                 THEN pc' = "create" /\ failed' = failed
                 ELSE pc' = "done" /\ failed' = cur     \* the call returns Err
            /\ UNCHANGED <<fs, touched, queue, force, visited, fresh0>>
            /\ Lbl("Generate", cur, <<>>)

(* the file the writes go to *)
InPlace == Protocol = "header_first"
Target(f) == IF InPlace THEN out[f] ELSE tmp[f]
SetTarget(f, v) == IF InPlace
                     THEN /\ out' = [out EXCEPT ![f] = v]
                          /\ touched' = [touched EXCEPT ![f] = TRUE]
                          /\ UNCHANGED <<src, tmp>>
                     ELSE /\ tmp' = [tmp EXCEPT ![f] = v]
                          /\ UNCHANGED <<src, out, touched>>

Create == /\ pc = "create" /\ pc' = "ver"
          /\ SetTarget(cur, Empty)
          /\ UNCHANGED <<queue, force, visited, failed, fresh0>>
          /\ Lbl("Create", cur, <<>>)

WriteVer == /\ pc = "ver" /\ pc' = "hash"
            /\ SetTarget(cur, [Target(cur) EXCEPT !.ver = "cur"])
            /\ UNCHANGED <<queue, force, visited, failed, fresh0>>
            /\ Lbl("WriteVer", cur, <<>>)

WriteHash == /\ pc = "hash" /\ pc' = "body"
             /\ SetTarget(cur, [Target(cur) EXCEPT !.hash = HashOf(src[cur])])
             /\ UNCHANGED <<queue, force, visited, failed, fresh0>>
             /\ Lbl("WriteHash", cur, <<>>)

WriteBody == /\ pc = "body" /\ pc' = IF InPlace THEN "finish" ELSE "rename"
             /\ SetTarget(cur, [Target(cur) EXCEPT !.body = Gen(src[cur])])
             /\ UNCHANGED <<queue, force, visited, failed, fresh0>>
             /\ Lbl("WriteBody", cur, <<>>)

Rename == /\ pc = "rename" /\ ~InPlace /\ pc' = "finish"
          /\ out' = [out EXCEPT ![cur] = tmp[cur]]
          /\ tmp' = [tmp EXCEPT ![cur] = Absent]
          /\ touched' = [touched EXCEPT ![cur] = TRUE]
          /\ UNCHANGED <<src, queue, force, visited, failed, fresh0>>
          /\ Lbl("Rename", cur, <<>>)

(* the output file is closed; on to the next grammar *)
Finish == /\ pc = "finish"
          /\ NextFile
          /\ UNCHANGED <<fs, touched>>
          /\ Lbl("Finish", cur, <<>>)

(* the call has returned; its result has been observed *)
Return == /\ pc = "done" /\ pc' = "idle"
          /\ queue' = <<>> /\ force' = FALSE /\ visited' = {} /\ failed' = NoFile
          /\ touched' = AllFalse /\ fresh0' = {}
          /\ UNCHANGED fs
          /\ Lbl("Return", "", <<>>)

(* ------------------------------- faults ------------------------------- *)
(* the process is gone (or the call has returned an I/O error): the files
   stay as they are, nothing of the build survives *)
Gone == /\ pc' = "idle" /\ queue' = <<>> /\ force' = FALSE /\ visited' = {}
        /\ failed' = NoFile /\ touched' = AllFalse /\ fresh0' = {}

(* killed between two file operations: pc names the operation not yet done *)
Crash == /\ Faults /\ pc \in Steps
         /\ Gone /\ UNCHANGED fs
         /\ Lbl("Crash", cur, <<pc>>)

(* a failing write leaves a prefix of what was to be written; a protocol
   that writes to a temporary may also clean it up *)
Leaves(f, v) == IF InPlace
                  THEN out' = [out EXCEPT ![f] = v] /\ UNCHANGED <<src, tmp>>
                  ELSE (tmp' = [tmp EXCEPT ![f] = v] \/ tmp' = [tmp EXCEPT ![f] = Absent])
                       /\ UNCHANGED <<src, out>>

(* the report (written during generation) cannot be written *)
FailGenerate == /\ Faults /\ pc = "generate" /\ src[cur] \in Valid
                /\ Gone /\ UNCHANGED fs
                /\ Lbl("FailGenerate", cur, <<>>)

(* prefix of the version line: nothing, some of it, all of it but the newline *)
FailVer == /\ Faults /\ pc = "ver"
           /\ \E v \in {"none", "old", "cur"} :
                 /\ Leaves(cur, [Target(cur) EXCEPT !.ver = v])
                 /\ Lbl("FailVer", cur, <<v>>)
           /\ Gone

FailHash == /\ Faults /\ pc = "hash"
            /\ \E h \in {"none", "junk", HashOf(src[cur])} :
                  /\ Leaves(cur, [Target(cur) EXCEPT !.hash = h])
                  /\ Lbl("FailHash", cur, <<h>>)
            /\ Gone

(* a proper non-empty prefix of the body *)
PartialBody == /\ Faults /\ pc = "body"
               /\ Leaves(cur, [Target(cur) EXCEPT !.body = "part"])
               /\ Gone
               /\ Lbl("PartialBody", cur, <<>>)

(* ------------------------------- the machine ------------------------------- *)
Env == \E f \in Files : \/ \E t \in Texts : Edit(f, t)
                        \/ Touch(f) \/ DeleteOut(f) \/ AlterVer(f) \/ AlterHash(f)
Start == \E fo \in BOOLEAN, S \in SUBSET Files : StartBuild(fo, S)
Step == Check \/ Read \/ Mkdirs \/ Remove \/ Generate \/ Create \/ WriteVer \/ WriteHash
           \/ WriteBody \/ Rename \/ Finish
Fault == Crash \/ FailGenerate \/ FailVer \/ FailHash \/ PartialBody

Next == Env \/ Start \/ Step \/ Return \/ Fault
Spec == Init /\ [][Next]_vars

(* ------------------------------- properties ------------------------------- *)
(* When a build returns: every file it processed has exactly the output a
   forced build of its present text gives; the file whose grammar was
   rejected has no output (files after it in the walk were not reached and
   are not constrained by this call); a non-forced build has not touched
   what was already current. *)
Returned ==
    /\ \A f \in visited : src[f] \in Valid /\ out[f] = Good(src[f])
    /\ failed # NoFile => (src[failed] = "Bad" /\ out[failed] = Absent)
    /\ ~force => \A f \in visited \cap fresh0 : ~touched[f]

Fresh     == pc = "done" => Returned       \* C21 (model with Faults = FALSE)
CrashSafe == pc = "done" => Returned       \* C22 (model with Faults = TRUE)

(* No file ever claims, by an intact header, to be the output of a text
   while holding something else: this is the invariant the up-to-date test
   relies on, and the reason CrashSafe fails for header_first. *)
HeaderImpliesBody ==
    \A f \in Files : (pc = "idle" /\ out[f].ex /\ out[f].ver = "cur" /\ out[f].hash \in Valid)
                        => out[f].body = Gen(out[f].hash)

(* C20/C24: whatever complete body is on disk is the value of Gen at a valid
   text, and an intact header names that same text. *)
OutputFunctional ==
    \A f \in Files : \A x \in {out[f], tmp[f]} :
        /\ x.body \in Valid \cup {"part", "none"}
        /\ (x.body \in Valid /\ x.hash \in Texts) => x.body = Gen(x.hash)

=============================================================================
