SPECIFICATION TraceSpec
CHECK_DEADLOCK FALSE
INVARIANT StackShape
INVARIANT TraceAccepted
INVARIANT Stuck
INVARIANT TreeIsDerivation
INVARIANT TokensSubsequence
INVARIANT OtherTokensCovered
INVARIANT ErrorSpansOrdered
INVARIANT DroppedInOrder
