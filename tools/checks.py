"""Registry of the property checks (./check <ID>).

Every module tools/c_*.py may define
  REGISTRY = {"C21": fn(tier, seed) -> exit code, ...}
  REPLAY   = {"engine name": fn(replay_obj) -> exit code}
  MANIFEST = [check entries for MANIFEST.json], ENGINES = [engine entries]
  SELFTESTS = [fn() -> (name, ok, detail)]
They are discovered here; tools/mkmanifest.py assembles MANIFEST.json.
"""
import glob
import importlib
import json
import os
import subprocess

import vlib


def modules():
    out = []
    for p in sorted(glob.glob(os.path.join(os.path.dirname(__file__), "c_*.py"))):
        out.append(importlib.import_module(os.path.basename(p)[:-3]))
    return out


class _Lazy(dict):
    def _load(self):
        if not self:
            for m in modules():
                for k, v in getattr(m, "REGISTRY", {}).items():
                    dict.__setitem__(self, k, v)

    def get(self, k, d=None):
        self._load()
        return dict.get(self, k, d)


REGISTRY = _Lazy()


def setup():
    """MANIFEST.setup_cmd: build the harness against /repo (hooks on)."""
    vlib.cargo_build_or_die(None)
    r = subprocess.run(["bash", "-c", "cd %s && for m in *.tla; do tla-sany $m >/dev/null 2>&1 || echo BAD $m; done" % vlib.SPEC],
                       capture_output=True, text=True)
    if "BAD" in r.stdout:
        print(r.stdout)
        return 2
    print("setup ok")
    return 0


def selftest():
    bad = 0
    for m in modules():
        for fn in getattr(m, "SELFTESTS", []):
            name, ok, detail = fn()
            print("%s %s %s" % ("ok  " if ok else "FAIL", name, detail))
            bad += 0 if ok else 1
    return 2 if bad else 0


def replay(prop, path):
    with open(path) as f:
        obj = json.load(f)
    rp = obj.get("replay", obj)
    eng = rp.get("engine")
    for m in modules():
        fn = getattr(m, "REPLAY", {}).get(eng)
        if fn:
            return fn(rp)
    raise vlib.ToolError("no replay handler for engine %r" % eng)
