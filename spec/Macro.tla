------------------------------- MODULE Macro -------------------------------
(***************************************************************************)
(* Macros, repetitions, options, groups and conditional alternatives       *)
(* (book: tutorial chapter "Macros"; cheat sheet; property C13).           *)
(*                                                                         *)
(* A raw case with a field `sugar` carries no G/P of its own: they are     *)
(* what this module derives.  sugar = [items |-> Seq(item)],               *)
(*   item = [name, params : Seq(name), alts : Seq(alt)]                    *)
(*          (params = <<>> for an ordinary nonterminal)                    *)
(*   alt  = [cond, rhs : Seq(expr), P]   P as in Sem.tla, its `syms`       *)
(*          indexing positions of rhs                                      *)
(*   cond = [on |-> FALSE] | [on |-> TRUE, lhs |-> param, op, rhs, pat]    *)
(*          op in "==", "!=", "~~", "!~"; for the match operators `pat` is *)
(*          [k |-> "exact", s] (the regex ^s$), [k |-> "class", set] (the  *)
(*          regex ^[..]$ over one-character names) or [k |-> "contains",   *)
(*          chars] (the unanchored regex that is that plain text)          *)
(*   expr = [k |-> "t" | "nt" | "param", n, sel]                           *)
(*        | [k |-> "macro", n, args : Seq(expr), sel]                      *)
(*        | [k |-> "rep", op : "*" | "+" | "?", s : expr, sel]             *)
(*        | [k |-> "group", syms : Seq(expr), sel]                         *)
(*                                                                         *)
(* Meaning (substitution): every use of a macro, repetition, option or     *)
(* group denotes a fresh nonterminal named after the use itself, defined   *)
(* by substituting the arguments:                                          *)
(*   M<a..>  the alternatives of M whose condition holds for the arguments *)
(*   X+      X => [x]            |  X+ X => push                           *)
(*   X*      (nothing) => []     |  X+                                     *)
(*   X?      X => Some(x)        |  (nothing) => None                      *)
(*   (..)    one alternative with the default action: the selected         *)
(*           symbols' values, else all; one value alone, several as tuple  *)
(* Two uses denote the same nonterminal iff they are written alike (same   *)
(* name after substitution), so distinct instantiations never interfere.   *)
(***************************************************************************)
EXTENDS Grammar, TLC

HasSugar(raw) == "sugar" \in DOMAIN raw

RECURSIVE Name(_), JoinNames(_, _), JoinSel(_, _)
Name(e) ==
  CASE e.k = "macro" -> e.n \o "<" \o JoinNames(e.args, 1) \o ">"
    [] e.k = "rep"   -> Name(e.s) \o e.op
    [] e.k = "group" -> "(" \o JoinSel(e.syms, 1) \o ")"
    [] OTHER         -> e.n
JoinNames(es, i) == IF i > Len(es) THEN ""
                    ELSE Name(es[i]) \o (IF i < Len(es) THEN "," ELSE "") \o JoinNames(es, i + 1)
JoinSel(es, i) == IF i > Len(es) THEN ""
                  ELSE (IF es[i].sel THEN "<" \o Name(es[i]) \o ">" ELSE Name(es[i]))
                       \o (IF i < Len(es) THEN " " ELSE "") \o JoinSel(es, i + 1)

Lookup(env, n) == env[CHOOSE i \in DOMAIN env : env[i][1] = n][2]

RECURSIVE Subst(_, _)
Subst(e, env) ==
  CASE e.k = "param" -> [Lookup(env, e.n) EXCEPT !.sel = e.sel]
    [] e.k = "macro" -> [e EXCEPT !.args = [i \in DOMAIN e.args |-> Subst(e.args[i], env)]]
    [] e.k = "rep"   -> [e EXCEPT !.s = Subst(e.s, env)]
    [] e.k = "group" -> [e EXCEPT !.syms = [i \in DOMAIN e.syms |-> Subst(e.syms[i], env)]]
    [] OTHER         -> e

(* `~~` is a regex *search* in the text of the argument (unanchored unless the pattern says so).  Patterns:
   exact  ^s$ ; class  ^[..]$ over one-character names ; contains  the plain text pat.chars anywhere in the
   argument (tchars gives the characters of every terminal's text, TLC cannot index strings) *)
CharsOf(tchars, s) == tchars[CHOOSE i \in DOMAIN tchars : tchars[i].n = s].cs
Contains(cs, pc) == \E i \in 0..(Len(cs) - Len(pc)) : SubSeq(cs, i + 1, i + Len(pc)) = pc
PatMatch(tchars, pat, s) ==
  IF pat.k = "exact" THEN s = pat.s
  ELSE IF pat.k = "contains" THEN Contains(CharsOf(tchars, s), pat.chars)
  ELSE \E i \in DOMAIN pat.set : pat.set[i] = s
CondHolds(tchars, cond, env) ==
  IF ~cond.on THEN TRUE
  ELSE LET s == Lookup(env, cond.lhs).n IN     \* the argument must be a quoted terminal
       CASE cond.op = "==" -> s = cond.rhs
         [] cond.op = "!=" -> s # cond.rhs
         [] cond.op = "~~" -> PatMatch(tchars, cond.pat, s)
         [] cond.op = "!~" -> ~PatMatch(tchars, cond.pat, s)

(***************************************************************************)
(* Precedence annotations on an ordinary nonterminal whose alternatives    *)
(* use sugar (property C12 for recursive occurrences that sit inside macro *)
(* arguments, repetitions and groups).  Such an item carries               *)
(*   prec = TRUE, lev, assoc : per alternative, as written (-1 / "" when   *)
(*   absent)                                                               *)
(* and means its tiers (Prec.tla's rule), where "the recursive             *)
(* occurrences" of an alternative are all the places its name is written   *)
(* in it, however deeply nested, counted left to right.                    *)
(***************************************************************************)
IsPrecItem(it) == "prec" \in DOMAIN it /\ it.prec

RECURSIVE OccE(_, _), OccSeq(_, _, _)
OccE(e, nt) == CASE e.k = "nt"    -> IF e.n = nt THEN 1 ELSE 0
                 [] e.k = "macro" -> OccSeq(e.args, nt, 1)
                 [] e.k = "rep"   -> OccE(e.s, nt)
                 [] e.k = "group" -> OccSeq(e.syms, nt, 1)
                 [] OTHER         -> 0
OccSeq(es, nt, i) == IF i > Len(es) THEN 0 ELSE OccE(es[i], nt) + OccSeq(es, nt, i + 1)
OccBefore(es, nt, i) == OccSeq(SubSeq(es, 1, i - 1), nt, 1)

(* rename the occurrences of nt in e; k0 of them come before e; f[k] names the k-th *)
RECURSIVE SubE(_, _, _, _)
SubE(e, nt, k0, f) ==
  CASE e.k = "nt"    -> IF e.n = nt THEN [e EXCEPT !.n = f[k0 + 1]] ELSE e
    [] e.k = "macro" -> [e EXCEPT !.args = [i \in DOMAIN e.args |-> SubE(e.args[i], nt, k0 + OccBefore(e.args, nt, i), f)]]
    [] e.k = "rep"   -> [e EXCEPT !.s = SubE(e.s, nt, k0, f)]
    [] e.k = "group" -> [e EXCEPT !.syms = [i \in DOMAIN e.syms |-> SubE(e.syms[i], nt, k0 + OccBefore(e.syms, nt, i), f)]]
    [] OTHER         -> e

RECURSIVE ItEffLevel(_, _), ItEffAssoc(_, _)
ItEffLevel(it, j) == IF it.lev[j] >= 0 THEN it.lev[j] ELSE ItEffLevel(it, j - 1)
ItEffAssoc(it, j) == IF it.assoc[j] # "" THEN it.assoc[j]
                     ELSE IF it.lev[j] >= 0 THEN "all" ELSE ItEffAssoc(it, j - 1)
ItLevels(it) == {ItEffLevel(it, j) : j \in DOMAIN it.alts}
ItRank(it, l) == Cardinality({x \in ItLevels(it) : x <= l})
ItTier(it, i) == IF i = Cardinality(ItLevels(it)) THEN it.name ELSE it.name \o "@" \o ToString(i)

TierAlt(it, j) ==
  LET a == it.alts[j]
      i == ItRank(it, ItEffLevel(it, j))
      as == ItEffAssoc(it, j)
      n == OccSeq(a.rhs, it.name, 1)
      cur == ItTier(it, i)
      prev == IF i > 1 THEN ItTier(it, i - 1) ELSE cur
      f == [k \in 1..n |-> IF as = "all" THEN cur
                           ELSE IF as = "none" THEN prev
                           ELSE IF as = "left" THEN (IF k = 1 THEN cur ELSE prev)
                           ELSE (IF k = n THEN cur ELSE prev)]
  IN [a EXCEPT !.rhs = [m \in DOMAIN a.rhs |-> SubE(a.rhs[m], it.name, OccBefore(a.rhs, it.name, m), f)]]

TierItems(it) ==
  LET n == Cardinality(ItLevels(it))
      pass(i) == [cond |-> [on |-> FALSE], rhs |-> << [k |-> "nt", n |-> ItTier(it, i - 1), sel |-> FALSE] >>,
                  P |-> [tag |-> 0, form |-> "none", esym |-> 0, exact |-> FALSE, unit |-> FALSE,
                         syms |-> << [k |-> "sym", i |-> 1, sel |-> FALSE] >>,
                         fail |-> [on |-> FALSE, s |-> 1, m |-> 1, r |-> 0]]]
      own(i) == LET J == SelectSeq([j \in DOMAIN it.alts |-> j], LAMBDA j : ItRank(it, ItEffLevel(it, j)) = i)
                IN [x \in DOMAIN J |-> TierAlt(it, J[x])]
  IN [i \in 1..n |-> [name |-> ItTier(it, i), params |-> <<>>, kind |-> it.kind,
                      alts |-> own(i) \o (IF i > 1 THEN <<pass(i)>> ELSE <<>>)]]

RECURSIVE TierAll(_, _)
TierAll(items, i) == IF i > Len(items) THEN <<>>
                     ELSE (IF IsPrecItem(items[i]) THEN TierItems(items[i]) ELSE <<items[i]>>) \o TierAll(items, i + 1)
Tiered(sugar) == [sugar EXCEPT !.items = TierAll(sugar.items, 1)]

ItemOf(sugar, n) == sugar.items[CHOOSE i \in DOMAIN sugar.items : sugar.items[i].name = n]

NoFail == [on |-> FALSE, s |-> 1, m |-> 1, r |-> 0]
SynP(form, syms) == [tag |-> 0, form |-> form, esym |-> 0, exact |-> FALSE, unit |-> FALSE, syms |-> syms, fail |-> NoFail]
Plain(i) == [k |-> "sym", i |-> i, sel |-> FALSE]

(* the defining alternatives of the nonterminal a use denotes *)
Def(sugar, e) ==
  LET me == Name(e) IN
  CASE e.k = "macro" ->
         LET it == ItemOf(sugar, e.n)
             env == [i \in DOMAIN it.params |-> <<it.params[i], e.args[i]>>]
             keep == SelectSeq(it.alts, LAMBDA a : CondHolds(sugar.tchars, a.cond, env))
         IN [j \in DOMAIN keep |-> [lhs |-> me, rhs |-> [i \in DOMAIN keep[j].rhs |-> Subst(keep[j].rhs[i], env)],
                                    P |-> keep[j].P, kind |-> it.kind]]
    [] e.k = "rep" /\ e.op = "+" ->
         << [lhs |-> me, rhs |-> << [e.s EXCEPT !.sel = FALSE] >>, P |-> SynP("vec1", <<Plain(1)>>)],
            [lhs |-> me, rhs |-> << [e EXCEPT !.sel = FALSE], [e.s EXCEPT !.sel = FALSE] >>,
             P |-> SynP("vecpush", <<Plain(1), Plain(2)>>)] >>
    [] e.k = "rep" /\ e.op = "*" ->
         << [lhs |-> me, rhs |-> <<>>, P |-> SynP("vec0", <<>>)],
            [lhs |-> me, rhs |-> << [e EXCEPT !.op = "+", !.sel = FALSE] >>, P |-> SynP("none", <<Plain(1)>>)] >>
    [] e.k = "rep" /\ e.op = "?" ->
         << [lhs |-> me, rhs |-> << [e.s EXCEPT !.sel = FALSE] >>, P |-> SynP("some", <<Plain(1)>>)],
            [lhs |-> me, rhs |-> <<>>, P |-> SynP("noneo", <<>>)] >>
    [] e.k = "group" ->
         << [lhs |-> me, rhs |-> e.syms,
             P |-> SynP("none", [i \in DOMAIN e.syms |-> [k |-> "sym", i |-> i, sel |-> e.syms[i].sel]])] >>

Needs(e) == e.k \in {"macro", "rep", "group"}

RECURSIVE RhsOf(_, _)
RhsOf(defs, i) == IF i > Len(defs) THEN <<>> ELSE defs[i].rhs \o RhsOf(defs, i + 1)

(* all the alternatives reachable from the ordinary nonterminals; `fuel`
   bounds runaway recursive instantiation (then `ok` is FALSE) *)
RECURSIVE Collect(_, _, _, _, _)
Collect(sugar, todo, done, acc, fuel) ==
  IF todo = <<>> THEN [ok |-> TRUE, alts |-> acc]
  ELSE IF fuel = 0 THEN [ok |-> FALSE, alts |-> acc]
  ELSE LET e == Head(todo) IN
       IF ~Needs(e) \/ Name(e) \in done THEN Collect(sugar, Tail(todo), done, acc, fuel)
       ELSE LET d == Def(sugar, e)
            IN Collect(sugar, Tail(todo) \o RhsOf(d, 1), done \cup {Name(e)}, acc \o d, fuel - 1)

BaseAlts(sugar) ==
  LET plain == SelectSeq(sugar.items, LAMBDA it : it.params = <<>>)
      F[i \in 0..Len(plain)] ==
        IF i = 0 THEN <<>>
        ELSE F[i - 1] \o [j \in DOMAIN plain[i].alts |->
                            [lhs |-> plain[i].name, rhs |-> plain[i].alts[j].rhs, P |-> plain[i].alts[j].P,
                             kind |-> plain[i].kind]]
  IN F[Len(plain)]

Expansion(raw) == LET sg == Tiered(raw.sugar)
                      b == BaseAlts(sg)
                  IN Collect(sg, RhsOf(b, 1), {}, b, 200)

RECURSIVE Dedup(_, _)
Dedup(s, seen) == IF s = <<>> THEN <<>>
                  ELSE IF Head(s) \in seen THEN Dedup(Tail(s), seen)
                  ELSE <<Head(s)>> \o Dedup(Tail(s), seen \cup {Head(s)})

KindOfName(raw, alts, n) ==
  LET S == {i \in DOMAIN alts : alts[i].lhs = n} 
      i0 == CHOOSE i \in S : TRUE
  IN IF "kind" \in DOMAIN alts[i0] THEN alts[i0].kind ELSE "infer"

MacroOk(raw) == Expansion(raw).ok

ApplyMacro(raw) ==
  LET alts == Expansion(raw).alts
      startp == [lhs |-> "__" \o raw.start, rhs |-> <<raw.start>>]
      prods == [i \in DOMAIN alts |-> [lhs |-> alts[i].lhs, rhs |-> [j \in DOMAIN alts[i].rhs |-> Name(alts[i].rhs[j])]]]
      nts == Dedup([i \in DOMAIN alts |-> alts[i].lhs], {})
  IN [id |-> raw.id,
      G |-> [ts |-> raw.ts, nts |-> nts \o <<startp.lhs>>, prods |-> Append(prods, startp)],
      sp |-> Len(alts) + 1, n |-> raw.n, inject |-> raw.inject,
      P |-> Append([i \in DOMAIN alts |-> alts[i].P], SynP("start", <<Plain(1)>>)),
      inl |-> <<>>,
      kinds |-> [i \in DOMAIN nts |-> KindOfName(raw, alts, nts[i])] \o <<"V">>]
=============================================================================
