SPECIFICATION Spec
CHECK_DEADLOCK FALSE
INVARIANT Accepted
INVARIANT Complete
INVARIANT CompleteAtEnd
INVARIANT Done
