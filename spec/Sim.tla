-------------------------------- MODULE Sim --------------------------------
(***************************************************************************)
(* Product of the canonical LR(1) construction (CanonLR) with the          *)
(* automaton LALRPOP built for the same grammar (exported by the hook,     *)
(* i.e. the value handed to the code generators).                          *)
(*                                                                         *)
(* A case is [id, G, sp, mode, verdict, states] where                      *)
(*   G       the normalised grammar as exported,                           *)
(*   sp      index of the augmented production `__S = S`,                  *)
(*   mode    "lane" | "lr1" | "lalr"  (construction algorithm used),       *)
(*   verdict "ok" | "conflict"        (what LALRPOP said),                 *)
(*   states  (verdict ok) sequence of                                      *)
(*             [items : Seq([p, d, la]), shifts : [terminal -> index],     *)
(*              gotos : [nonterminal -> index], reds : Seq([p, la])]       *)
(*           with 0-based state indices, state 0 initial.                  *)
(*                                                                         *)
(* The product state is (c, I, s): case, canonical item set, index of the  *)
(* LALRPOP state reached by the same symbol path.  TLC explores the whole  *)
(* (finite) product; the invariants below, holding in every product state, *)
(* give by the standard argument (DESIGN 4.3) that the LALRPOP automaton   *)
(* accepts exactly L(G), reduces only handles, and reports an error on the *)
(* same token as the canonical parser -- for inputs of every length.       *)
(***************************************************************************)
EXTENDS CanonLR, TLC, Json, IOUtils

Cases == JsonDeserialize(IOEnv.SIM_CASES)
NC == Len(Cases)

(* constant-level data, computed once per case *)
PreOf == [c \in 1..NC |-> Pre(Cases[c].G)]

VARIABLES c, I, s, path
vars == <<c, I, s, path>>
View == <<c, I, s>>

GC  == Cases[c].G
Ok  == Cases[c].verdict = "ok"
St  == Cases[c].states[s + 1]

Fn(r, x) == IF x \in DOMAIN r THEN r[x] ELSE -1
ATrans(st, X) == IF X \in TSet(GC) THEN Fn(st.shifts, X) ELSE Fn(st.gotos, X)
ARedProds(st) == {st.reds[i].p : i \in DOMAIN st.reds}
ARedLook(st, p) == UNION {Range(st.reds[i].la) : i \in {j \in DOMAIN st.reds : st.reds[j].p = p}}

Init == /\ c \in 1..NC
        /\ I = InitSet(Cases[c].G, PreOf[c], Cases[c].sp)
        /\ s = 0
        /\ path = <<>>

Step(X) == LET J == Goto(GC, PreOf[c], I, X) IN
           /\ J # {}
           /\ (Ok => ATrans(St, X) # -1)
           /\ I' = J
           /\ s' = IF Ok THEN ATrans(St, X) ELSE -1
           /\ path' = Append(path, X)
           /\ c' = c

Next == \E X \in Symbols(GC) : Step(X)
Spec == Init /\ [][Next]_vars

(* ------------------------------ invariants ------------------------------ *)
(* A production that mentions a nonterminal deriving no terminal string can
   never be reduced ("dead").  LALRPOP propagates lookahead *sets* and so
   keeps dead items the single-lookahead textbook construction does not have
   (for A -> A b with no other A-production, [A -> . A b, {}] spawns
   [A -> . A b, {b}]).  No input ever exercises them; the simulation is
   therefore exact on live productions and a containment on dead ones.
   Whether such items make LALRPOP report a conflict the canonical automaton
   does not have is decided separately by the verdict comparison (C03). *)
DeadOf == [k \in 1..NC |->
             LET G == Cases[k].G  pr == Productive(G) IN
             {p \in PIdx(G) : \E i \in 1..Len(Rhs(G, p)) : Rhs(G, p)[i] \in NtSet(G) \ pr}]
Live(pd) == pd[1] \notin DeadOf[c]

AAll(st)  == {<<st.items[i].p, st.items[i].d>> : i \in DOMAIN st.items}
AItemLook(st, p, d) == UNION {Range(st.items[i].la) :
                               i \in {j \in DOMAIN st.items : st.items[j].p = p /\ st.items[j].d = d}}

SimCore == Ok => /\ Core(I) \subseteq AAll(St)
                 /\ {pd \in AAll(St) : Live(pd)} \subseteq Core(I)

(* every canonical item's lookahead is among A's lookaheads for that item *)
SimItemLook == Ok => \A it \in I : it[3] \in AItemLook(St, it[1], it[2])

SimTrans == Ok => \A X \in Symbols(GC) :
                     /\ (\E it \in I : AfterDot(GC, it) = X) => (ATrans(St, X) # -1)
                     /\ (ATrans(St, X) # -1) =>
                          \E pd \in AAll(St) : AfterDot(GC, <<pd[1], pd[2], EOF>>) = X

(* every canonical lookahead of a complete item is a lookahead of the
   corresponding reduction in A; equality when A is meant to be canonical *)
SimLook == Ok => \A it \in Complete(GC, I) :
                    /\ it[3] \in ARedLook(St, it[1])
                    /\ (Cases[c].mode = "lr1" /\ Live(it)) =>
                         ARedLook(St, it[1]) = {j[3] : j \in {k \in Complete(GC, I) : k[1] = it[1]}}

SimRedDomain == Ok => /\ {it[1] : it \in Complete(GC, I)} \subseteq ARedProds(St)
                      /\ {p \in ARedProds(St) : p \notin DeadOf[c]} \subseteq {it[1] : it \in Complete(GC, I)}

(* A never has two actions for one token *)
ADeterministic ==
  Ok => /\ \A i, j \in DOMAIN St.reds :
             i # j => Range(St.reds[i].la) \cap Range(St.reds[j].la) = {}
        /\ \A i \in DOMAIN St.reds : Range(St.reds[i].la) \cap DOMAIN St.shifts = {}

AcceptOnEof == (Ok /\ <<Cases[c].sp, 1, EOF>> \in I) => ARedLook(St, Cases[c].sp) = {EOF}

(* an accepted grammar has no canonical LR(1) conflict (C03, soundness) *)
AcceptedIsLR1 == Ok => ~HasConflict(GC, I)

(* Reporting predicate (always TRUE): a reachable canonical conflict.  For
   cases LALRPOP rejected, the orchestrator requires one such line (C03,
   completeness: never a conflict report for an LR(1) grammar). *)
ReportConflict == HasConflict(GC, I) =>
                    PrintT("@@CONFLICT " \o ToJson([id |-> Cases[c].id, path |-> path,
                                                       on |-> ConflictTokens(GC, I)]))

(* The LALR(1) criterion is constant level: evaluated once per LALR case. *)
ASSUME \A k \in 1..NC :
         Cases[k].mode = "lalr" =>
           PrintT("@@LALR " \o ToJson([id |-> Cases[k].id,
                                         lalr1 |-> IsLALR1(Cases[k].G, PreOf[k], Cases[k].sp)]))
=============================================================================
