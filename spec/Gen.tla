-------------------------------- MODULE Gen --------------------------------
(***************************************************************************)
(* The language of a grammar by derivation, bounded in length: the least   *)
(* fixed point of  L(A) = U { L(X1) . ... . L(Xn) : A -> X1 ... Xn }.      *)
(* Independent of the LR construction; used as the sanity net of the       *)
(* canonical oracle (Sem.tla: GenAgree) -- a disagreement is a defect of   *)
(* the specification, not of LALRPOP.                                      *)
(***************************************************************************)
EXTENDS Grammar

RECURSIVE SeqLang(_, _, _, _)
SeqLang(G, n, L, w) ==
  IF w = <<>> THEN {<<>>}
  ELSE LET x == Head(w)
           lx == IF x \in DOMAIN L THEN L[x]
                 ELSE IF x = "error" THEN {}          \* `!` never occurs in an input
                 ELSE {<<x>>}
       IN {u \in {a \o b : a \in lx, b \in SeqLang(G, n, L, Tail(w))} : Len(u) <= n}

RECURSIVE LangFix(_, _, _)
LangFix(G, n, L) ==
  LET L2 == [A \in NtSet(G) |-> L[A] \cup UNION {SeqLang(G, n, L, Rhs(G, p)) : p \in ProdsOf(G, A)}]
  IN IF L2 = L THEN L ELSE LangFix(G, n, L2)

(* all sentences of nonterminal S of length <= n *)
Sentences(G, S, n) == LangFix(G, n, [A \in NtSet(G) |-> {}])[S]

IsPrefixOf(p, s) == Len(p) <= Len(s) /\ SubSeq(s, 1, Len(p)) = p
=============================================================================
