\* C20/C24: observations (TRACE=<file.ndjson>) judged by OutputFunctional; -workers 1 -continue
SPECIFICATION Spec
CHECK_DEADLOCK FALSE
INVARIANT OutputFunctional
POSTCONDITION Accepted
