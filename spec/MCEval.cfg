SPECIFICATION Spec
CHECK_DEADLOCK FALSE
INVARIANT TypeOK
INVARIANT Emit
