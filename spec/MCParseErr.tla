----------------------------- MODULE MCParseErr -----------------------------
(***************************************************************************)
(* Model instance of ParseErr for C28: TLC enumerates every ParseError     *)
(* value of the domain (initial states), then every operation on it (one   *)
(* step), checks the spec's own laws on every value and prints one JSON    *)
(* line per (value, operation) with the expected result.  The harness      *)
(* (perrdrv) builds the same value with the real lalrpop_util, applies the *)
(* real function with the same maps and compares.                          *)
(*                                                                         *)
(* Maps (chosen so that a swapped, skipped or doubly mapped field shows):  *)
(*   location l -> 10*l + 3      token t -> [w |-> t]     error x -> [we |-> x] *)
(***************************************************************************)
EXTENDS ParseErr, Json

LocMap(l) == 10 * l + 3
TokMap(t) == [w |-> t]
ErrMap(x) == [we |-> x]

(* `expected` names are "taken from the grammar": quoted literals, identifiers, regexes *)
Names2 == {"ID", "\"+\""}
Names3 == {"ID", "\"+\"", "r#\"[a-z]+ x\"#"}

DispL(l) == ToString(l)
DispT(t) == t
DispE(x) == x

Ops == {"map_location", "map_token", "map_error", "display", "display_mapped_location"}

VARIABLES e, op
vars == <<e, op>>

Init == e \in Values /\ op = "new"
Next == /\ op = "new"
        /\ op' \in Ops
        /\ e' = e
Spec == Init /\ [][Next]_vars

Result(o, x) ==
    CASE o = "map_location" -> MapLocation(x, LocMap)
      [] o = "map_token"    -> MapToken(x, TokMap)
      [] o = "map_error"    -> MapError(x, ErrMap)
      [] o = "display"      -> Display(x, DispL, DispT, DispE)
      [] o = "display_mapped_location" -> Display(MapLocation(x, LocMap), DispL, DispT, DispE)

(* the arguments the user's closure is applied to *)
Calls(o, x) ==
    CASE o = "map_location" -> Locations(x)
      [] o = "map_token"    -> Tokens(x)
      [] o = "map_error"    -> UserErrors(x)
      [] OTHER              -> <<>>

Laws == LawsFor(e, LocMap, TokMap, ErrMap)

(* reporting predicate, always TRUE *)
Report == op # "new" =>
            PrintT("@@PERR " \o ToJson([op |-> op, in |-> e, out |-> Result(op, e), calls |-> Calls(op, e)]))

(* From<E> is constant level *)
ASSUME \A x \in Errs : PrintT("@@PERR " \o ToJson([op |-> "from", in |-> [error |-> x],
                                                     out |-> FromError(x), calls |-> <<>>]))
=============================================================================
