----------------------------- MODULE MCLexTab ------------------------------
(***************************************************************************)
(* C10.  The language of every literal / regex terminal of every lexer     *)
(* definition, tabulated for every string w up to the definition's bound:  *)
(* one @@TAB line per (terminal, w) with w in the language.  The state      *)
(* (c, p, w, d) carries d = the derivative of the terminal's regex by w;    *)
(* Consistent checks in EVERY state that the derivative semantics and the   *)
(* denotational semantics Matches of Regex.tla agree (the specification is  *)
(* checked before it judges).                                                *)
(***************************************************************************)
EXTENDS Regex, Json, IOUtils

Defs == JsonDeserialize(IOEnv.LEX_CASES)
NC   == Len(Defs)
PatsOf == [k \in 1..NC |-> Pats(Defs[k])]

VARIABLES c, p, w, d
vars == <<c, p, w, d>>

Init == /\ c \in 1..NC
        /\ p \in {q \in DOMAIN PatsOf[c] : PatsOf[c][q].e # "ws"}
        /\ w = <<>>
        /\ d = PatsOf[c][p].re

Next == /\ Len(w) < Defs[c].N
        /\ \E a \in 1..Defs[c].K : w' = Append(w, a) /\ d' = Deriv(d, a)
        /\ UNCHANGED <<c, p>>

Spec == Init /\ [][Next]_vars

Consistent == Nullable(d) = Matches(PatsOf[c][p].src, w)

Report == /\ Len(w) = 0 => PrintT("@@TABROW " \o ToJson([c |-> Defs[c].id, e |-> PatsOf[c][p].e]))
          /\ Nullable(d) => PrintT("@@TAB " \o ToJson([c |-> Defs[c].id, e |-> PatsOf[c][p].e, w |-> w]))
=============================================================================
