----------------------------- MODULE Concurrent -----------------------------
(***************************************************************************)
(* Several threads parse at the same time with ONE parser value (C27).     *)
(*                                                                         *)
(* The design (lalrpop_util::lexer, lr1/codegen/base): the parser value    *)
(* holds only immutable data -- the parse tables (statics) and the lexer's *)
(* compiled DFA inside `MatcherBuilder` -- and every call of `parse` makes *)
(* its own matcher with its OWN lazily filled cache, its own stacks and    *)
(* its own lookahead.  The model: shared constants `Dfa` and `Val`; per    *)
(* thread the number of tokens pulled, the number of tokens folded into    *)
(* the result by the driver, the accumulator, the private cache.           *)
(*                                                                         *)
(* One parse of the token sequence inp (length n) is, as for any LR(1)     *)
(* driver, the step sequence                                               *)
(*      Lex 1, Lex 2, Drive 1, Lex 3, Drive 2, ..., Lex n+1 (= end of      *)
(*      input), Drive n, Finish                                            *)
(* (the reduction that consumes token j needs token j+1 as lookahead).     *)
(* Lex k looks the raw symbol up in the thread's cache, filling the cache  *)
(* from the shared DFA on a miss; Drive j folds token j into the           *)
(* accumulator with the shared table Val: acc' = 3*acc + Val[kind].        *)
(*                                                                         *)
(* SharedCache = TRUE is a deliberately WRONG design used as a sanity net  *)
(* (a single cache filled in two steps by whoever misses first): TLC must  *)
(* find an interleaving that returns a wrong result for it.                *)
(***************************************************************************)
EXTENDS Integers, Sequences, TLC

CONSTANTS Threads,       \* set of thread ids
          Input,         \* Input[t]: sequence of raw symbols
          SharedCache    \* FALSE: the real design

Raw == {"1", "z"}
Dfa == [r \in Raw |-> IF r = "1" THEN "a" ELSE "b"]        \* shared, immutable: raw symbol -> token kind
Val == [a |-> 1, b |-> 2, junk |-> 0]                      \* shared, immutable: the "parse table"

Fold(acc, kind) == 3 * acc + Val[kind]
RECURSIVE SeqFrom(_, _, _)
SeqFrom(inp, k, acc) == IF k > Len(inp) THEN acc ELSE SeqFrom(inp, k + 1, Fold(acc, Dfa[inp[k]]))
(* what a fresh parser returns for this input alone *)
Sequential(inp) == SeqFrom(inp, 1, 0)

VARIABLES pulled,   \* pulled[t]: tokens the lexer has produced (n+1 = it has reported the end of input)
          driven,   \* driven[t]: tokens folded into acc[t]
          toks,     \* toks[t]: kinds of the tokens pulled so far
          acc, result,
          cache,    \* cache[t]: raw -> kind | "none" | "filling"   (own cache; index "shared" when SharedCache)
          filling   \* filling[t]: raw symbol thread t is in the middle of inserting (SharedCache only)
vars == <<pulled, driven, toks, acc, result, cache, filling>>

CacheOf(t) == IF SharedCache THEN "shared" ELSE t
CacheIds == IF SharedCache THEN {"shared"} ELSE Threads

Init == /\ pulled = [t \in Threads |-> 0]
        /\ driven = [t \in Threads |-> 0]
        /\ toks = [t \in Threads |-> <<>>]
        /\ acc = [t \in Threads |-> 0]
        /\ result = [t \in Threads |-> -1]
        /\ cache = [c \in CacheIds |-> [r \in Raw |-> "none"]]
        /\ filling = [t \in Threads |-> "none"]

Max(a, b) == IF a > b THEN a ELSE b

(* The steps of thread t parsing the input `inp` (a parameter, so that the  *)
(* trace specification can use the same actions with recorded inputs).      *)
LexEnabled(t, inp) == pulled[t] <= Len(inp) /\ driven[t] = Max(0, pulled[t] - 1) /\ result[t] = -1

(* the lexer produces token number pulled[t]+1 (or the end of input) *)
LexOn(t, inp) ==
    /\ LexEnabled(t, inp) /\ filling[t] = "none"
    /\ IF pulled[t] = Len(inp)
       THEN /\ pulled' = [pulled EXCEPT ![t] = @ + 1]          \* end of input
            /\ UNCHANGED <<toks, cache, filling>>
       ELSE LET r == inp[pulled[t] + 1]  c == CacheOf(t) IN
            IF cache[c][r] = "none"
            THEN IF SharedCache
                 THEN /\ cache' = [cache EXCEPT ![c][r] = "filling"]      \* wrong design: visible half-way
                      /\ filling' = [filling EXCEPT ![t] = r]
                      /\ UNCHANGED <<pulled, toks>>
                 ELSE /\ cache' = [cache EXCEPT ![c][r] = Dfa[r]]         \* own cache: nobody else can look
                      /\ toks' = [toks EXCEPT ![t] = Append(@, Dfa[r])]
                      /\ pulled' = [pulled EXCEPT ![t] = @ + 1]
                      /\ UNCHANGED filling
            ELSE /\ toks' = [toks EXCEPT ![t] = Append(@, IF cache[c][r] = "filling" THEN "junk" ELSE cache[c][r])]
                 /\ pulled' = [pulled EXCEPT ![t] = @ + 1]
                 /\ UNCHANGED <<cache, filling>>
    /\ UNCHANGED <<driven, acc, result>>

(* second half of a shared-cache insertion *)
LexFill(t) ==
    /\ filling[t] # "none"
    /\ cache' = [cache EXCEPT !["shared"][filling[t]] = Dfa[filling[t]]]
    /\ toks' = [toks EXCEPT ![t] = Append(@, Dfa[filling[t]])]
    /\ pulled' = [pulled EXCEPT ![t] = @ + 1]
    /\ filling' = [filling EXCEPT ![t] = "none"]
    /\ UNCHANGED <<driven, acc, result>>

(* the driver folds token driven[t]+1; it has seen its lookahead *)
DriveOn(t, inp) ==
    /\ driven[t] < Len(inp) /\ pulled[t] = driven[t] + 2 /\ result[t] = -1
    /\ acc' = [acc EXCEPT ![t] = Fold(@, toks[t][driven[t] + 1])]
    /\ driven' = [driven EXCEPT ![t] = @ + 1]
    /\ UNCHANGED <<pulled, toks, result, cache, filling>>

FinishOn(t, inp) ==
    /\ pulled[t] = Len(inp) + 1 /\ driven[t] = Len(inp) /\ result[t] = -1
    /\ result' = [result EXCEPT ![t] = acc[t]]
    /\ UNCHANGED <<pulled, driven, toks, acc, cache, filling>>

N(t) == Len(Input[t])
Lex(t) == LexOn(t, Input[t])
Drive(t) == DriveOn(t, Input[t])
Finish(t) == FinishOn(t, Input[t])

Step(t) == Lex(t) \/ LexFill(t) \/ Drive(t) \/ Finish(t)
Next == \E t \in Threads : Step(t)
Spec == Init /\ [][Next]_vars /\ WF_vars(Next)

(* ------------------------------ properties ------------------------------ *)
ResultCorrect == \A t \in Threads : result[t] # -1 => result[t] = Sequential(Input[t])
(* a thread's state is a function of its own input and progress only *)
Independent == \A t \in Threads :
    /\ acc[t] = SeqFrom(SubSeq(Input[t], 1, driven[t]), 1, 0)
    /\ Len(toks[t]) = IF pulled[t] > N(t) THEN N(t) ELSE pulled[t]
AllDone == \A t \in Threads : result[t] # -1
Termination == <>AllDone
=============================================================================
