SPECIFICATION Spec
VIEW View
CHECK_DEADLOCK FALSE
INVARIANT SimCore
INVARIANT SimTrans
INVARIANT SimItemLook
INVARIANT SimLook
INVARIANT SimRedDomain
INVARIANT ADeterministic
INVARIANT AcceptOnEof
INVARIANT AcceptedIsLR1
INVARIANT ReportConflict
