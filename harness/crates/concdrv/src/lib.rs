//! concdrv: real threads sharing generated parser values (property C27).
//!
//! Gates: `gate('L')` is called by the token iterator (extern-token grammar) each time
//! it hands out a token or the end of input, `gate('D')` by the action code that folds a
//! token.  In replay mode a gate blocks until the schedule (an interleaving TLC
//! enumerated from spec/MCConc.tla) says it is this thread's turn; in free mode it only
//! records the event with a global atomic sequence number.
use std::cell::{Cell, RefCell};
use std::sync::atomic::{AtomicBool, AtomicU64, Ordering};
use std::sync::{Condvar, Mutex};
use std::time::Duration;

use lalrpop_util::lalrpop_mod;

lalrpop_mod!(#[allow(clippy::all)] pub intern);
lalrpop_mod!(#[allow(clippy::all)] pub ext);

#[derive(Clone, Debug, PartialEq)]
pub enum Tok {
    A,
    B,
}

#[derive(Clone, Debug)]
pub struct Event {
    pub seq: u64,
    pub t: usize,
    pub parse: u64,
    pub ev: char,
    pub k: usize,
}

pub struct Sched {
    pub order: Vec<(usize, char, usize)>,
    pub pos: usize,
    pub failed: Option<String>,
}

pub static REPLAY: AtomicBool = AtomicBool::new(false);
pub static SEQ: AtomicU64 = AtomicU64::new(0);
pub static SCHED: Mutex<Option<Sched>> = Mutex::new(None);
pub static CV: Condvar = Condvar::new();

thread_local! {
    pub static ME: Cell<usize> = const { Cell::new(0) };
    pub static PARSE: Cell<u64> = const { Cell::new(0) };
    pub static NL: Cell<usize> = const { Cell::new(0) };
    pub static ND: Cell<usize> = const { Cell::new(0) };
    pub static GATED: Cell<bool> = const { Cell::new(true) };
    pub static LOG: RefCell<Vec<Event>> = const { RefCell::new(Vec::new()) };
}

pub fn begin_parse(parse: u64) {
    PARSE.with(|p| p.set(parse));
    NL.with(|c| c.set(0));
    ND.with(|c| c.set(0));
}

/// called from action code ('D') and from the token iterator ('L')
pub fn gate(kind: char) {
    let me = ME.with(|m| m.get());
    let k = if kind == 'L' {
        NL.with(|c| {
            c.set(c.get() + 1);
            c.get()
        })
    } else {
        ND.with(|c| {
            c.set(c.get() + 1);
            c.get()
        })
    };
    let parse = PARSE.with(|p| p.get());
    if REPLAY.load(Ordering::SeqCst) && GATED.with(|g| g.get()) {
        let mut g = SCHED.lock().unwrap();
        loop {
            let s = g.as_mut().expect("schedule");
            if s.failed.is_some() {
                break;
            }
            if s.pos < s.order.len() && s.order[s.pos] == (me, kind, k) {
                break;
            }
            if s.pos >= s.order.len() || s.order[s.pos].0 == me {
                s.failed = Some(format!(
                    "thread {me} reaches step {kind}{k} but the schedule expects {:?} at position {}",
                    s.order.get(s.pos),
                    s.pos
                ));
                CV.notify_all();
                break;
            }
            let (g2, to) = CV.wait_timeout(g, Duration::from_secs(5)).unwrap();
            g = g2;
            if to.timed_out() {
                let s = g.as_mut().unwrap();
                if s.failed.is_none() {
                    s.failed = Some(format!("thread {me} blocked at step {kind}{k}, schedule position {}", s.pos));
                }
                CV.notify_all();
                break;
            }
        }
        // the sequence number is taken while the schedule lock is held
        let seq = SEQ.fetch_add(1, Ordering::SeqCst);
        LOG.with(|l| l.borrow_mut().push(Event { seq, t: me, parse, ev: kind, k }));
        if let Some(s) = g.as_mut() {
            s.pos += 1;
        }
        CV.notify_all();
    } else {
        // free mode: give the other threads a chance right at the step boundary now and then
        if (parse + k as u64 + me as u64) % 3 == 0 {
            std::thread::yield_now();
        }
        let seq = SEQ.fetch_add(1, Ordering::SeqCst);
        LOG.with(|l| l.borrow_mut().push(Event { seq, t: me, parse, ev: kind, k }));
    }
}

pub fn mark(ev: char, k: usize) -> u64 {
    let me = ME.with(|m| m.get());
    let parse = PARSE.with(|p| p.get());
    let seq = SEQ.fetch_add(1, Ordering::SeqCst);
    LOG.with(|l| l.borrow_mut().push(Event { seq, t: me, parse, ev, k }));
    seq
}

/// the harness's token iterator for the extern-token grammar
pub struct GateIter {
    pub toks: Vec<Tok>,
    pub pos: usize,
    pub done: bool,
}

impl Iterator for GateIter {
    type Item = Result<(usize, Tok, usize), String>;
    fn next(&mut self) -> Option<Self::Item> {
        if self.done {
            return None;
        }
        gate('L');
        if self.pos < self.toks.len() {
            let t = self.toks[self.pos].clone();
            self.pos += 1;
            // gapped, asymmetric spans
            Some(Ok((10 * self.pos + 3, t, 10 * self.pos + 7)))
        } else {
            self.done = true;
            None
        }
    }
}

pub fn raw_to_tok(r: &str) -> Tok {
    if r == "1" {
        Tok::A
    } else {
        Tok::B
    }
}
