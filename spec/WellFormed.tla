----------------------------- MODULE WellFormed -----------------------------
(***************************************************************************)
(* A small abstract syntax of `.lalrpop` grammars and the well-formedness  *)
(* rules the LALRPOP book and the reference of the attributes state        *)
(* (property C18 uses it to produce NEAR-VALID grammars: every single and  *)
(* double mutation of a few well-formed base grammars, each labelled with  *)
(* the rules it breaks).                                                   *)
(*                                                                         *)
(*  grammar = [gattrs : Seq(STRING),          #[LALR] ... before `grammar` *)
(*             lexer  : "intern"|"extern"|"match",                         *)
(*             both   : BOOLEAN,      a match block AND an extern enum     *)
(*             loc    : BOOLEAN,      extern declares `type Location`      *)
(*             toks   : Seq([lit, re (BOOLEAN), name]),  match / extern    *)
(*                                     entries: literal or regex => name   *)
(*             items  : Seq(item)]                                         *)
(*  item    = [name, pub : BOOLEAN, attrs : Seq(attr), params : Seq(STRING)*)
(*             ty : STRING ("" = not annotated), alts : Seq(alt)]          *)
(*  attr    = [id, arg, val]          #[id(arg = "val")], arg = "" : #[id] *)
(*  alt     = [attrs : Seq(attr), syms : Seq(sym),                         *)
(*             action : "none" | "user" | "fallible"]                      *)
(*  sym     = [k : "t" literal | "re" regex | "nt" | "macro" | "err" (!)   *)
(*                 | "L" (@L) | "R" (@R),                                  *)
(*             n  : text of the literal / regex, or the name,              *)
(*             bind : "" | "<>" (anonymous selection <X>) | x (<x:X>),     *)
(*             op : "" | "*" | "+" | "?",                                  *)
(*             args : Seq(STRING)]    macro arguments (symbol texts)       *)
(***************************************************************************)
EXTENDS Integers, Sequences, FiniteSets, TLC

Range(s) == {s[i] : i \in DOMAIN s}
RECURSIVE SeqSum(_)
SeqSum(s) == IF s = <<>> THEN 0 ELSE Head(s) + SeqSum(Tail(s))

(* -------- tabulated lexical facts (the spec does not look into strings) -------- *)
Digits == {"0", "1", "2", "3", "4", "5", "6", "7", "8", "9", "10", "4294967295"}   \* parse as u32
Sides  == {"left", "right", "none", "all"}
GrammarAttrs == {"LALR", "table_driven", "recursive_ascent", "test_all"}
(* regular expressions used by bases and mutations, with "is it a regex the built-in
   lexer supports" (regex-syntax grammar minus look-around, anchors, named groups) *)
GoodRegex == {"[0-9]+", "[a-z]+", "[a-z][a-z0-9]*", "a|b", "x{2,3}"}
BadRegex  == {"(", "[a", "[z-a]", "a{2,1}", "\\b", "^a", "a$", "(?P<n>a)", "\\p{Foo}", "(?=a)", "\\1"}

(* ------------------------------- the rules ------------------------------ *)
Items(g)  == g.items
ItemIdx(g) == DOMAIN g.items
IsMacro(it) == it.params # <<>>
Names(g) == {g.items[i].name : i \in ItemIdx(g)}
HasAttr(attrs, id) == \E k \in DOMAIN attrs : attrs[k].id = id
AttrsOf(attrs, id) == SelectSeq(attrs, LAMBDA a : a.id = id)
Count(attrs, id) == Len(AttrsOf(attrs, id))

R_GrammarAttrs(g) == \A k \in DOMAIN g.gattrs : g.gattrs[k] \in GrammarAttrs

R_ItemAttrs(g) == \A i \in ItemIdx(g) : LET it == g.items[i] IN
    /\ \A k \in DOMAIN it.attrs : it.attrs[k].id \in {"inline", "cfg"}
    /\ Count(it.attrs, "inline") <= 1 /\ Count(it.attrs, "cfg") <= 1
    /\ ~(HasAttr(it.attrs, "inline") /\ it.pub)          \* public items cannot be inlined
    /\ ~(it.pub /\ IsMacro(it))                          \* macros cannot be public

R_AltAttrs(g) == \A i \in ItemIdx(g) : \A a \in DOMAIN g.items[i].alts :
    \A k \in DOMAIN g.items[i].alts[a].attrs :
       g.items[i].alts[a].attrs[k].id \in {"precedence", "assoc", "cfg"}

(* precedence: the first alternative carries a level; levels are integers; sides
   are left/right/none/all; an alternative without attributes continues the
   level and associativity of the one before it (a new level resets the
   associativity); the first (lowest) level has nothing below it to refer to,
   so no alternative of that level may have an associativity *)
UsesPrec(it) == \E a \in DOMAIN it.alts : HasAttr(it.alts[a].attrs, "precedence") \/ HasAttr(it.alts[a].attrs, "assoc")
PrecAttrOk(at) == at.arg = "level" /\ at.val \in Digits
AssocAttrOk(at) == at.arg = "side" /\ at.val \in Sides
Num(v) == CASE v = "0" -> 0 [] v = "1" -> 1 [] v = "2" -> 2 [] v = "3" -> 3 [] v = "4" -> 4 [] v = "5" -> 5
            [] v = "6" -> 6 [] v = "7" -> 7 [] v = "8" -> 8 [] v = "9" -> 9 [] v = "10" -> 10 [] OTHER -> 1000
RECURSIVE Effective(_, _, _, _)
(* sequence of <<level, has associativity>> per alternative *)
Effective(alts, a, lvl, assoc) ==
    IF a > Len(alts) THEN <<>>
    ELSE LET at == alts[a].attrs
             l2 == IF HasAttr(at, "precedence") THEN Num(AttrsOf(at, "precedence")[1].val) ELSE lvl
             as0 == IF HasAttr(at, "precedence") THEN FALSE ELSE assoc
             as2 == IF HasAttr(at, "assoc") THEN AttrsOf(at, "assoc")[1].val # "all" ELSE as0
         IN <<(<<l2, as2>>)>> \o Effective(alts, a + 1, l2, as2)
R_PrecShape(it) ==
    UsesPrec(it) =>
       /\ it.alts # <<>> /\ HasAttr(it.alts[1].attrs, "precedence")
       /\ \A a \in DOMAIN it.alts : \A k \in DOMAIN it.alts[a].attrs :
             LET at == it.alts[a].attrs[k] IN
             /\ at.id = "precedence" => PrecAttrOk(at)
             /\ at.id = "assoc" => AssocAttrOk(at)
       /\ \A a \in DOMAIN it.alts : Count(it.alts[a].attrs, "precedence") <= 1 /\ Count(it.alts[a].attrs, "assoc") <= 1
R_PrecFirstLevel(it) ==
    (UsesPrec(it) /\ R_PrecShape(it)) =>
       LET e == Effective(it.alts, 1, 0, FALSE)
           m == CHOOSE x \in {e[a][1] : a \in DOMAIN e} : \A y \in {e[a][1] : a \in DOMAIN e} : x <= y
       IN \A a \in DOMAIN e : e[a][1] = m => ~e[a][2]
R_Precedence(g) == \A i \in ItemIdx(g) : R_PrecShape(g.items[i]) /\ R_PrecFirstLevel(g.items[i])

(* names *)
R_UniqueNames(g) == \A i, j \in ItemIdx(g) : i # j => g.items[i].name # g.items[j].name
MacroNamed(g, n) == {i \in ItemIdx(g) : g.items[i].name = n /\ IsMacro(g.items[i])}
PlainNamed(g, n) == {i \in ItemIdx(g) : g.items[i].name = n /\ ~IsMacro(g.items[i])}
DeclaredTerminals(g) == {g.toks[k].name : k \in DOMAIN g.toks} \cup {g.toks[k].lit : k \in DOMAIN g.toks}
SymOk(g, it, s) ==
    CASE s.k = "nt"    -> s.n \in Range(it.params) \/ PlainNamed(g, s.n) # {}
                          \/ (g.lexer = "match" /\ s.n \in DeclaredTerminals(g))
      [] s.k = "macro" -> /\ s.args # <<>>
                          /\ \E i \in MacroNamed(g, s.n) : Len(g.items[i].params) = Len(s.args)
      [] s.k = "t"     -> g.lexer = "intern" \/ (g.lexer = "match" /\ ~g.both) \/ s.n \in DeclaredTerminals(g)
      [] s.k = "re"    -> /\ s.n \in GoodRegex
                          /\ (g.lexer = "intern" \/ (g.lexer = "match" /\ ~g.both))
      [] s.k = "L"     -> g.lexer # "extern" \/ g.loc
      [] s.k = "R"     -> g.lexer # "extern" \/ g.loc
      [] OTHER         -> TRUE
R_Symbols(g) == \A i \in ItemIdx(g) : \A a \in DOMAIN g.items[i].alts : \A k \in DOMAIN g.items[i].alts[a].syms :
                   SymOk(g, g.items[i], g.items[i].alts[a].syms[k])

(* selections: named symbols need an action; named and anonymous do not mix; names are unique *)
Named(alt) == {k \in DOMAIN alt.syms : alt.syms[k].bind \notin {"", "<>"}}
Anon(alt)  == {k \in DOMAIN alt.syms : alt.syms[k].bind = "<>"}
R_Selections(g) == \A i \in ItemIdx(g) : \A a \in DOMAIN g.items[i].alts : LET alt == g.items[i].alts[a] IN
    /\ (Named(alt) # {} => alt.action # "none")
    /\ ~(Named(alt) # {} /\ Anon(alt) # {})
    /\ \A k, l \in Named(alt) : k # l => alt.syms[k].bind # alt.syms[l].bind

R_Lexer(g) == /\ ~g.both                                   \* match and extern enum exclude each other
              /\ \A k \in DOMAIN g.toks : g.toks[k].re => g.toks[k].lit \in GoodRegex
              /\ g.lexer = "match" => \A k, l \in DOMAIN g.toks : k # l => g.toks[k].lit # g.toks[l].lit

R_HasStart(g) == \E i \in ItemIdx(g) : g.items[i].pub

(* error recovery (`!`) exists only in the table-driven parsers *)
UsesBang(g) == \E i \in ItemIdx(g) : \E a \in DOMAIN g.items[i].alts : \E k \in DOMAIN g.items[i].alts[a].syms :
                  g.items[i].alts[a].syms[k].k = "err"
R_Bang(g) == ~(UsesBang(g) /\ "recursive_ascent" \in Range(g.gattrs))

(* inlining must end: no inlined nonterminal reaches itself through inlined ones *)
InlineIdx(g) == {i \in ItemIdx(g) : HasAttr(g.items[i].attrs, "inline")}
Refs(g, i) == {j \in ItemIdx(g) : \E a \in DOMAIN g.items[i].alts : \E k \in DOMAIN g.items[i].alts[a].syms :
                  LET s == g.items[i].alts[a].syms[k] IN s.k \in {"nt", "macro"} /\ s.n = g.items[j].name}
RECURSIVE Reach(_, _, _)
Reach(g, frontier, seen) ==
    LET nxt == (UNION {Refs(g, i) \cap InlineIdx(g) : i \in frontier}) \ seen IN
    IF nxt = {} THEN seen ELSE Reach(g, nxt, seen \cup nxt)
R_InlineAcyclic(g) == \A i \in InlineIdx(g) : i \notin Reach(g, {i}, {})

(* a macro may not be instantiated with ever-growing arguments *)
GrowingArgs == {"Comma<T>", "Comma<Comma<T>>"}        \* argument texts that nest the macro in itself
GrowingArg(it, s) == s.k = "macro" /\ s.n = it.name /\ \E k \in DOMAIN s.args : s.args[k] \in GrowingArgs
R_MacroTerminates(g) == \A i \in ItemIdx(g) : IsMacro(g.items[i]) =>
    \A a \in DOMAIN g.items[i].alts : \A k \in DOMAIN g.items[i].alts[a].syms :
       ~GrowingArg(g.items[i], g.items[i].alts[a].syms[k])

(* types: a nonterminal without annotation gets its type from its alternatives;
   an alternative without action that consists of the nonterminal itself gives none *)
R_Types(g) == \A i \in ItemIdx(g) : LET it == g.items[i] IN
    it.ty = "" => \E a \in DOMAIN it.alts :
                     ~(it.alts[a].action = "none" /\
                       \E k \in DOMAIN it.alts[a].syms : it.alts[a].syms[k].k = "nt" /\ it.alts[a].syms[k].n = it.name)

Rules == <<"GrammarAttrs", "ItemAttrs", "AltAttrs", "Precedence", "UniqueNames", "Symbols", "Selections",
           "Lexer", "HasStart", "Bang", "InlineAcyclic", "MacroTerminates", "Types">>
Holds(g, r) ==
    CASE r = "GrammarAttrs" -> R_GrammarAttrs(g)  [] r = "ItemAttrs" -> R_ItemAttrs(g)
      [] r = "AltAttrs" -> R_AltAttrs(g)          [] r = "Precedence" -> R_Precedence(g)
      [] r = "UniqueNames" -> R_UniqueNames(g)    [] r = "Symbols" -> R_Symbols(g)
      [] r = "Selections" -> R_Selections(g)      [] r = "Lexer" -> R_Lexer(g)
      [] r = "HasStart" -> R_HasStart(g)          [] r = "Bang" -> R_Bang(g)
      [] r = "InlineAcyclic" -> R_InlineAcyclic(g) [] r = "MacroTerminates" -> R_MacroTerminates(g)
      [] r = "Types" -> R_Types(g)
Broken(g) == SelectSeq(Rules, LAMBDA r : ~Holds(g, r))
WellFormedGrammar(g) == Broken(g) = <<>>
=============================================================================
