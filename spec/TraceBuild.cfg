\* trace validation; run with -workers 1 and TRACE=<file.ndjson> in the environment
SPECIFICATION TraceSpec
CONSTANT NFiles = 1
CONSTANT Protocol = "header_first"
CONSTANT Faults = TRUE
CONSTANT Generic = FALSE
CHECK_DEADLOCK FALSE
CONSTRAINT Consumed
POSTCONDITION TraceAccepted
INVARIANT ReportState
INVARIANT TypeOK
INVARIANT ReportCrashSafe
INVARIANT OutputFunctional
