"""Feature batches on the compiled route: one grammar rendered in several
variants that the documentation says are equivalent (C14 inlining, C15 cfg,
C25 renaming), or whose meaning Sem.tla defines by desugaring (C12, C13).
Every variant is compared with the behaviour Sem.tla prescribes for it."""
import copy
import itertools
import json
import os
import random

import c_core
import core
import gen
import vlib
from vlib import Report, cached, cargo_build_or_die, log

DEPS = c_core.DEPS + ["tools/c_feat.py", "tools/sugar.py"]


def _summary(kind, tier, seed, build_population, variants_fn, owner):
    cargo_build_or_die(["lpdrv", "runner"])
    key = "%s-%s-%s-%s-%d" % (kind, vlib.repo_fingerprint(), vlib.verif_fingerprint(DEPS), tier, seed)

    def build(d):
        cgs = build_population(tier, seed)
        log("%s: %d grammar variants" % (kind, len(cgs)))
        s = c_core.run_batch(cgs, tier, seed, variants_fn=variants_fn, owner=owner)
        with open(os.path.join(d, "summary.json"), "w") as f:
            json.dump(s, f)

    d = cached(key, build)
    with open(os.path.join(d, "summary.json")) as f:
        return json.load(f)


def _report(prop, tier, seed, s, rule, extra=None):
    rep = Report(prop, tier, "model_checking", seed)
    n = s["stats"]["C01"]
    rep.evaluations = n
    rep._distinct = set(range(n))
    rep.add(states=s["states"], transitions=s["generated"], traces_validated_against_impl=n,
            grammar_variants=s["grammars_lr1"], modules_compiled=s["modules"], spec_records=s["records"],
            record_kinds=s["record_kinds"], variants_rejected_by_lalrpop=s["rejected_by_lalrpop"])
    if extra:
        rep.add(**extra)
    for x in s["samples"]:
        rep.sample(x)
    for d in s["disagreements"]:
        if d["prop"] == prop:
            rep.violation(c_core.dkey(d), c_core.describe(d), c_core.replay_obj(d))
    rep.assumptions = ["TLC evaluates Sem.tla faithfully", "rustc and the harness runtime are correct",
                       "bounded inputs; small grammars"]
    return rep.finish(rule=rule)


# --------------------------------------------------------------------------
# C14: inlining
# --------------------------------------------------------------------------
def _nullable(cg):
    nul = set()
    ch = True
    while ch:
        ch = False
        for p in cg["prods"]:
            if p["lhs"] not in nul and all(x in nul for x in p["rhs"]):
                nul.add(p["lhs"])
                ch = True
    return nul


def _inline_shape(rng, i):
    """an #[inline] candidate I with a fallible alternative followed by plain ones, used twice in one
    alternative whose own action is infallible, with locations between the uses"""
    ts = ["a", "b", "c"]
    t1, t2 = rng.sample(ts, 2)
    prods = [{"lhs": "S", "rhs": ["I", t1, "I"]}, {"lhs": "S", "rhs": [t2, "I"]},
             {"lhs": "I", "rhs": [t2, t1]}, {"lhs": "I", "rhs": [t1]}, {"lhs": "I", "rhs": [t2, t2, "A"]},
             {"lhs": "A", "rhs": [t1]}]
    if rng.random() < 0.5:
        prods.append({"lhs": "S", "rhs": ["S", "c" if "c" not in (t1, t2) else t2, "I", "I"]})
    g = {"id": "r%05d" % i, "ts": [t for t in ts if any(t in p["rhs"] for p in prods)], "nts": ["S", "I", "A"],
         "starts": ["S"], "prods": prods}
    cg = core.annotate(g, rng, p_loc=0.6, p_fallible=0.0)
    cg["kinds"] = {"S": "V", "I": "V", "A": "V"}
    first = True
    for p in cg["prods"]:
        if p["form"] in ("none", "useru"):
            p["form"] = "user"
        for s_ in p["syms"]:
            s_["sel"] = True
        if p["lhs"] == "I" and first:
            first = False
            p["form"] = "fallible"
            j = [k for k, s_ in enumerate(p["syms"]) if s_["k"] == "sym"][0]
            p["fail"] = {"on": True, "s": j + 1, "m": 3, "r": rng.randrange(3)}
        elif p["form"] == "fallible":
            p["form"] = "user"
            p["fail"] = {"on": False}
    return cg


def inline_population(tier, seed):
    rng = random.Random(seed * 7 + 1401)
    n_ast = 70 if tier == "quick" else 400
    out = []
    i = 0
    tries = 0
    while len([1 for cg in out if cg["id"].endswith("v0")]) < n_ast and tries < n_ast * 20:
        tries += 1
        r = rng.random()
        if r < 0.12:
            cg = _inline_shape(rng, i)
        else:
            g = gen.random_grammar(rng, i, max_nt=4, max_t=3, max_prods=8, max_rhs=3,
                                   shape=rng.choice(["layered", "lists", "plain", "layered"]))
            if rng.random() < 0.3:
                g = core.add_markers(g, rng)
            # locations are compared too, except next to inlined nonterminals that can be empty (the property
            # excludes those): grammars with @L/@R only inline nonterminals that derive at least one token
            with_loc = rng.random() < 0.5
            cg = core.annotate(g, rng, p_loc=0.35 if with_loc else 0.0, p_fallible=0.25)
        has_loc = any(s_["k"] in ("L", "R") for p in cg["prods"] for s_ in p["syms"])
        cand = core.inlinable(cg)
        # only nonterminals that are actually used somewhere are interesting
        cand = [nt for nt in cand if any(nt in p["rhs"] for p in cg["prods"])]
        if has_loc:
            nul = _nullable(cg)
            cand = [nt for nt in cand if nt not in nul]
        if not cand:
            continue
        subsets = [()]
        allsub = [c for r_ in range(1, len(cand) + 1) for c in itertools.combinations(cand, r_)]
        rng.shuffle(allsub)
        subsets += allsub[: (3 if tier == "quick" else 7)]
        for v, sub in enumerate(subsets):
            x = copy.deepcopy(cg)
            x["id"] = "i%04dv%d" % (i, v)
            x["inline"] = list(sub)
            out.append(x)
        i += 1
    return out


def _inline_variants(cg, idx):
    v = [("lane", "table"), ("lane", "ascent")]
    if idx % 4 == 0:
        v.append(("lr1", "table"))
    return v


def check_C14(tier, seed):
    def owner(cg, prop):
        return "C14" if cg.get("inline") and prop in ("C01", "C02", "C04", "C06", "C07", "C17", "C19", "C08") else prop + "@base"

    s = _summary("inline", tier, seed, inline_population, _inline_variants, owner)
    base_dis = [d for d in s["disagreements"] if d["prop"].endswith("@base") and not d["prop"].startswith("C05")]
    if base_dis:
        # a disagreement on the un-inlined rendering is not about inlining: other checks own it; say so
        log("C14: %d disagreement(s) on un-inlined variants (owned by C01/C02/...)" % len(base_dis))
    return _report("C14", tier, seed, s,
                   "random annotated grammars (fallible actions, all binding forms, mid-rule markers; @L/@R in half of them, then "
                   "only nonterminals that cannot be empty are inlined) and shapes with an inline nonterminal used twice in one "
                   "alternative; for each, the un-inlined rendering "
                   "and several subsets of its non-recursive non-pub nonterminals marked #[inline]; Sem.tla parses the grammar as "
                   "written and defers the actions of inlined nonterminals to their host (left to right, first failure wins); "
                   "each accepted variant is run on every input up to the bound: accept/reject, value, user error, action order",
                   extra={"un_inlined_disagreements": len(base_dis)})


# --------------------------------------------------------------------------
# C25: hygiene -- consistent renaming changes nothing
# --------------------------------------------------------------------------
NT_POOL = ["__0", "__action0", "__Foo", "__parse__S", "__lookahead", "__sym0", "__nt", "Token", "__ToTriple", "Variant0",
           "v", "e", "__Symbol", "__StateMachine", "__state", "__symbols", "__tokens", "__result", "__intern_token",
           "Parser", "SParser", "__S", "__reduce", "__goto", "__ACTION", "__Nonterminal", "Nonterminal", "__start", "__end",
           "input", "__lalrpop_util", "__state0", "__custom0", "__reduce0", "__pop_Variant0", "__lookbehind", "__Action",
           "ParseError", "__accepts", "__TERMINAL", "alloc", "core", "Tok2", "__1", "__Variant0", "Expr1", "Nt1"]
BIND_POOL = ["__0", "__1", "__lookahead", "__sym0", "__tokens", "__nt", "__state", "__symbols", "__start", "__end",
             "__result", "__lookbehind", "__states", "__action", "__sym1", "__2", "__token", "__integer", "__location",
             "v", "e", "__lookahead_start", "__err", "__symbol", "__next_state", "__pop_states", "__nonterminal"]
PARAM_POOL = ["__tokens", "__states", "__symbols", "__lookahead", "__0", "input", "__sym0", "__lookbehind", "__action",
              "__error_state", "__phantom", "__nt", "tokens0"]


def rename_population(tier, seed):
    rng = random.Random(seed * 11 + 2503)
    n_ast = 40 if tier == "quick" else 250
    k = 3 if tier == "quick" else 6
    out = []
    for i in range(n_ast * 3):
        if len(out) >= n_ast * (k + 1):
            break
        g = gen.random_grammar(rng, i, max_nt=4, max_t=3, max_prods=8, max_rhs=3,
                               starts=(2 if rng.random() < 0.3 else 1))
        cg = core.annotate(g, rng, p_loc=0.3, p_fallible=0.15)
        for v in range(k + 1):
            x = copy.deepcopy(cg)
            x["id"] = "h%04dv%d" % (i, v)
            x["no_machine"] = True
            if v > 0:
                names = rng.sample(NT_POOL, len(cg["nts"]))
                x["names"] = dict(zip(cg["nts"], names))
                # a nonterminal named like what LALRPOP derives from the (renamed) pub nonterminal: its synthetic start
                # symbol, its parser struct, its parse module
                inner = [n_ for n_ in cg["nts"] if n_ not in cg["starts"]]
                if inner and rng.random() < 0.4:
                    derived = rng.choice(["__%s", "__%s", "%sParser", "__parse__%s", "___%s"]) % x["names"][cg["starts"][0]]
                    if derived not in x["names"].values():
                        x["names"][rng.choice(inner)] = derived
                        names = list(x["names"].values())
                pool = list(BIND_POOL)
                if rng.random() < 0.3:   # bindings named like the (renamed) nonterminals
                    pool = names + pool
                rng.shuffle(pool)
                x["bind_names"] = list(dict.fromkeys(pool))   # injective: no name twice
                if rng.random() < 0.5:
                    x["grammar_param"] = rng.choice([p for p in PARAM_POOL if p not in pool[:12] and p not in names])
            out.append(x)
    # annotated operator nonterminals next to nonterminals whose names look like tier names
    n_prec = 14 if tier == "quick" else 80
    for i in range(n_prec):
        cg = core.prec_grammar(rng, 5000 + i, helper=True)
        cg["bound"] = (4, 5)
        lv = [l for l in cg["levels"][:-1]]
        variants = [None,
                    {"S": "Start", "E": "Expr", "H": "Helper"},
                    {"S": "S", "E": "Expr", "H": "Expr%d" % rng.choice(lv)},
                    {"S": "S", "E": "E", "H": "E%d" % rng.choice(lv)},
                    {"S": "__S", "E": "__0", "H": "__0%d" % rng.choice(lv)}]
        for v, names in enumerate(variants):
            x = copy.deepcopy(cg)
            x["id"] = "h%04dv%d" % (5000 + i, v)
            if names:
                x["names"] = names
                x["prec"] = dict(cg["prec"])
            out.append(x)
    return out


def _tier_facts(cg):
    """does a renamed nonterminal carry the name LALRPOP gives a precedence tier (`Name<level>`)?"""
    if not cg or not cg.get("prec") or not cg.get("names"):
        return []
    e = cg["names"].get(cg["prec"]["nt"], cg["prec"]["nt"])
    tiers = {"%s%d" % (e, l) for l in cg.get("levels", [])[:-1]}
    others = {v for k, v in cg["names"].items() if k != cg["prec"]["nt"]}
    return ["tier_name_collision=yes"] if tiers & others else []


def check_C25(tier, seed):
    def owner(cg, prop):
        return "C25" if cg.get("names") and prop in ("C01", "C02", "C04", "C06", "C07", "C17", "C19", "C08") else prop + "@base"

    s = _summary("rename", tier, seed, rename_population, _inline_variants, owner)
    # verdict stability: a renaming is accepted by LALRPOP iff the base rendering is
    acc = set(s["accepted_modules"])
    rej = {m: msg for m, msg in s["rejected"]}
    extra_dis = []
    bycg = {cg["id"]: cg for cg in rename_population(tier, seed)}
    for m in sorted(acc | set(rej)):
        gid, algo, backend = m.split("_")
        if gid.endswith("v0"):
            continue
        base = "%sv0_%s_%s" % (gid[:gid.index("v")], algo, backend)
        if (m in acc) != (base in acc) and (base in acc or base in rej):
            extra_dis.append({"prop": "C25", "kind": "renaming_changes_verdict", "backend": backend, "algo": algo, "gid": gid,
                              "start": "-", "input": [], "detail": "base %s, renamed %s: %s" % (
                                  "accepted" if base in acc else "rejected", "accepted" if m in acc else "rejected",
                                  rej.get(m, rej.get(base, ""))), "facts": _tier_facts(bycg.get(gid)), "cg": bycg.get(gid)})
    s["disagreements"] += extra_dis
    return _report("C25", tier, seed, s,
                   "random annotated grammars, each rendered once with plain names and several times under injective renamings of "
                   "nonterminals, bindings and a grammar parameter into identifiers that look like LALRPOP-internal names (`__0`, "
                   "`__sym0`, `__lookahead`, `__tokens`, `Token`, `Variant0`, ...; never keywords, prelude names); every rendering "
                   "must get the same verdict, compile, and match the same Sem.tla records on every input up to the bound")


# --------------------------------------------------------------------------
# C15: conditional compilation
# --------------------------------------------------------------------------
FEATS = ["fa", "fb", "fc"]


def rand_pred(rng, depth=0):
    r = rng.random()
    if depth >= 2 or r < 0.45:
        return {"k": "feature", "n": rng.choice(FEATS)}
    if r < 0.65:
        return {"k": "not", "a": rand_pred(rng, depth + 1)}
    k = "all" if r < 0.83 else "any"
    return {"k": k, "args": [rand_pred(rng, depth + 1) for _ in range(rng.choice([1, 2, 2, 3]))]}


def cfg_population(tier, seed):
    rng = random.Random(seed * 13 + 3301)
    n_ast = 22 if tier == "quick" else 150
    out = []
    i = 0
    while i < n_ast:
        g = gen.random_grammar(rng, i, max_nt=4, max_t=4, max_prods=9, max_rhs=3,
                               shape=rng.choice(["layered", "lists", "plain"]))
        cg = core.annotate(g, rng, p_loc=0.2, p_fallible=0.1)
        cfg = {"nt": {}, "alt": {}, "t": {}}
        for t in cg["ts"][1:]:
            if rng.random() < 0.3:
                cfg["t"][t] = [rand_pred(rng) for _ in range(rng.choice([1, 1, 2]))]
        for nt in cg["nts"]:
            if nt not in cg["starts"] and cg["kinds"][nt] != "infer" and rng.random() < 0.35:
                cfg["nt"][nt] = [rand_pred(rng) for _ in range(rng.choice([1, 1, 2]))]
        for j, p in enumerate(cg["prods"]):
            preds = []
            # (an alternative with no symbols at all cannot carry attributes: LALRPOP's syntax has none there)
            if rng.random() < 0.3 and cg["kinds"][p["lhs"]] != "infer" and p["syms"]:
                preds.append(rand_pred(rng))
            for x in p["rhs"]:
                src = cfg["t"].get(x) or cfg["nt"].get(x)
                if src and rng.random() < 0.9 and cg["kinds"][p["lhs"]] != "infer":
                    preds += [q for q in src if q not in preds]
            if preds:
                cfg["alt"][str(j)] = preds
        if rng.random() < 0.4 and len(cg["ts"]) <= 6:
            # one terminal with two conversions under complementary predicates (different token kinds)
            t = rng.choice([x for x in cg["ts"] if x not in cfg["t"]] or cg["ts"][:1])
            if t not in cfg["t"]:
                cg["conv2"] = {t: {"pred": rand_pred(rng), "kind": 7}}
        if not (cfg["t"] or cfg["nt"] or cfg["alt"] or cg.get("conv2")):
            continue
        cg["cfg"] = cfg
        for v in range(8):
            x = copy.deepcopy(cg)
            x["id"] = "f%04dv%d" % (i, v)
            x["features"] = [f for b, f in enumerate(FEATS) if v >> b & 1]
            x["no_machine"] = True
            out.append(x)
        i += 1
    return out


def _cfg_variants(cg, idx):
    return [("lane", "table"), ("lane", "ascent")] if idx % 2 == 0 else [("lane", "table")]


def _cargo_env_agreement(tier, seed, rep):
    """features given through CARGO_FEATURE_* (process_dir) produce byte-identical output to set_features"""
    import lp
    from vlib import mkscratch, rmtree
    rng = random.Random(seed + 77)
    pop = cfg_population(tier, seed)
    sample = rng.sample(pop, min(len(pop), 24 if tier == "quick" else 120))
    wd = mkscratch("cfgenv")
    try:
        jobs = []
        for cg in sample:
            for via in ("set_features", "cargo_env", "explicit_over_env"):
                d = os.path.join(wd, via, cg["id"])
                os.makedirs(os.path.join(d, "out"))
                path = os.path.join(d, "g.lalrpop")
                with open(path, "w") as f:
                    f.write(core.render(cg))
                job = {"id": "%s@%s" % (cg["id"], via), "file": path, "features": cg["features"], "via": via,
                       "out_dir": os.path.join(d, "out")}
                if via == "explicit_over_env":
                    # the environment names exactly the features that are NOT in the explicit set
                    job["env_features"] = [f for f in FEATS if f not in cg["features"]]
                jobs.append(job)
        res = lp.run_jobs(jobs, wd, procs=1)   # the environment is process-wide: one process, sequential
        n = 0
        for cg in sample:
            a = res["%s@set_features" % cg["id"]]
            fa = os.path.join(wd, "set_features", cg["id"], "out", "g.rs")
            for via, kind in (("cargo_env", "cargo_feature_env_differs"), ("explicit_over_env", "explicit_features_overridden_by_env")):
                b = res["%s@%s" % (cg["id"], via)]
                n += 1
                fb = os.path.join(wd, via, cg["id"], "out", "g.rs")
                same = (a["status"] == b["status"]) and (os.path.exists(fa) == os.path.exists(fb)) and \
                    (not os.path.exists(fa) or open(fa, "rb").read() == open(fb, "rb").read())
                rep.case({"grammar": cg["id"], "features": cg["features"], "status": a["status"], "via": via})
                if not same:
                    rep.violation("kind=%s" % kind, "features %s given %s give a different result than set_features alone "
                                  "(%s vs %s)" % (cg["features"], "through CARGO_FEATURE_*" if via == "cargo_env" else
                                                  "explicitly while CARGO_FEATURE_* names the other features",
                                                  b["status"], a["status"]),
                                  {"engine": "core", "cg": cg, "prop": "C15", "algo": "lane", "backend": "table",
                                   "start": cg["starts"][0], "input": []})
        rep.add(cargo_env_comparisons=n)
    finally:
        rmtree(wd)


def check_C15(tier, seed):
    def owner(cg, prop):
        return "C15" if prop in ("C01", "C02", "C04", "C06", "C07", "C17", "C19", "C08") else prop + "@base"

    s = _summary("cfg", tier, seed, cfg_population, _cfg_variants, owner)
    rep = Report("C15", tier, "model_checking", seed)
    n = s["stats"]["C01"]
    rep.evaluations = n
    rep._distinct = set(range(n))
    rep.add(states=s["states"], transitions=s["generated"], traces_validated_against_impl=n,
            grammar_variants=s["grammars_lr1"], modules_compiled=s["modules"], spec_records=s["records"],
            record_kinds=s["record_kinds"], variants_rejected_by_lalrpop=s["rejected_by_lalrpop"])
    for x in s["samples"]:
        rep.sample(x)
    for d in s["disagreements"]:
        if d["prop"] == "C15":
            rep.violation(c_core.dkey(d), c_core.describe(d), c_core.replay_obj(d))
    # a (grammar, feature set) the spec can evaluate must be accepted by LALRPOP
    for m, msg in s["rejected"]:
        gid, algo, backend = m.split("_")
        rep.violation("kind=rejected_under_features algo=%s backend=%s" % (algo, backend),
                      "LALRPOP rejects %s although the grammar that remains after deleting inactive declarations is "
                      "self-contained and LR(1): %s" % (m, msg), {"engine": "core", "prop": "C15", "module": m})
    _cargo_env_agreement(tier, seed, rep)
    rep.assumptions = ["TLC evaluates Cfg.tla / Sem.tla faithfully", "feature names without `_` (Cargo's encoding of feature names "
                       "in CARGO_FEATURE_* is not invertible otherwise)"]
    return rep.finish(rule="random annotated grammars with random cfg predicates (feature / not / all / any, nested to depth 3, "
                           "several attributes per item) on nonterminals, alternatives and extern conversions; every subset of 3 "
                           "features; Cfg.tla deletes the inactive declarations and Sem.tla evaluates what remains (only "
                           "self-contained LR(1) remainders are compared); the parser LALRPOP generates from the annotated text "
                           "under that feature set must match on every input up to the bound; CARGO_FEATURE_* must give "
                           "byte-identical output to set_features")


# --------------------------------------------------------------------------
# C12: precedence / associativity annotations
# --------------------------------------------------------------------------
def prec_population(tier, seed):
    rng = random.Random(seed * 17 + 4409)
    n = 90 if tier == "quick" else 600
    return [core.prec_grammar(rng, i) for i in range(n)]


def _prec_variants(cg, idx):
    return [("lane", "table"), ("lane", "ascent")] if idx % 3 == 0 else [("lane", "table")]


def check_C12(tier, seed):
    def owner(cg, prop):
        return "C12" if prop in ("C01", "C02", "C04", "C06", "C07", "C17", "C19", "C08") else prop + "@base"

    s = _summary("prec", tier, seed, prec_population, _prec_variants, owner)
    # annotated nonterminals whose recursive occurrences sit inside macro arguments, groups (Macro.tla's Tiered)
    s2 = _summary("precmac", tier, seed, precmac_population, _prec_variants, owner)
    s = dict(s)
    s["rejected"] = list(s["rejected"]) + list(s2["rejected"])
    s["disagreements"] = list(s["disagreements"]) + list(s2["disagreements"])
    s["stats"] = dict(s["stats"], C01=s["stats"]["C01"] + s2["stats"]["C01"])
    for k in ("states", "generated", "grammars_lr1", "modules", "records", "rejected_by_lalrpop"):
        s[k] = s[k] + s2[k]
    rep_extra = {"sugared_operator_variants": s2["grammars_lr1"], "sugared_operator_parses": s2["stats"]["C01"]}
    # the tiered grammar is LR(1) (spec) but LALRPOP rejects the annotated one: the expansions differ
    viol = []
    for m, msg in s["rejected"]:
        gid, algo, backend = m.split("_")
        viol.append({"prop": "C12", "kind": "annotated_grammar_rejected", "backend": backend, "algo": algo, "gid": gid,
                     "start": "S", "input": [], "detail": msg, "facts": []})
    s["disagreements"] += viol
    return _report("C12", tier, seed, s,
                   "random operator nonterminals: atoms, prefix, postfix, binary and ternary alternatives over 2-4 levels with "
                   "arbitrary level numbers, interleaved order, inherited levels and associativities; Prec.tla builds the "
                   "documented tiered grammar, Sem.tla evaluates every operator/operand sequence up to the bound (only LR(1) tiered "
                   "grammars are compared); the parser LALRPOP generates from the annotated grammar must accept the same "
                   "sequences with the same trees; a second population annotates a nonterminal whose recursive occurrences "
                   "also sit inside macro arguments, nested macro uses and groups (tiers by Macro.tla's Tiered)", extra=rep_extra)


# --------------------------------------------------------------------------
# C13: macros, repetitions, options, groups, conditional alternatives
# --------------------------------------------------------------------------
def macro_population(tier, seed):
    import sugar
    rng = random.Random(seed * 19 + 5501)
    n = 110 if tier == "quick" else 700
    out = []
    for i in range(n):
        sg = sugar.macro_grammar(rng, i)
        sg["bound"] = (4, 5)
        out.append(sg)
    return out


def precmac_population(tier, seed):
    import sugar
    rng = random.Random(seed * 23 + 7703)
    n = 40 if tier == "quick" else 120
    out = []
    for i in range(n):
        sg = sugar.precmac_grammar(rng, i)
        sg["bound"] = (5, 6)
        out.append(sg)
    return out


def _macro_owner(cg, prop):
    # a value that differs only in location numbers is C06's (its population includes @L/@R inside macro bodies)
    if prop == "C06":
        return "C06"
    return "C13" if prop in ("C01", "C02", "C04", "C07", "C17", "C19", "C08") else prop + "@base"


def macro_summary(tier, seed):
    return _summary("macro", tier, seed, macro_population, _prec_variants, _macro_owner)


def check_C13(tier, seed):
    s = macro_summary(tier, seed)
    viol = []
    for m, msg in s["rejected"]:
        gid, algo, backend = m.split("_")
        # the un-inlined expansion is LR(1) (spec); LALRPOP works on the inlined one, which then is LR(1) as well
        viol.append({"prop": "C13", "kind": "sugared_grammar_rejected", "backend": backend, "algo": algo, "gid": gid,
                     "start": "S", "input": [], "detail": msg, "facts": []})
    s["disagreements"] += viol
    return _report("C13", tier, seed, s,
                   "random grammars built from macro templates (lists with separators, pairs, options, conditional alternatives "
                   "with == != ~~ !~, recursive tiers, one-or-more) instantiated with terminals, nonterminals and nested macro "
                   "uses, plus direct X* X+ X? and groups with and without selections; Macro.tla expands by substitution (a fresh "
                   "nonterminal per distinct use), Sem.tla evaluates every input up to the bound on the expansion (only LR(1) "
                   "expansions are compared); the parser LALRPOP generates from the sugared text must agree on acceptance, values "
                   "(Vec order, Option, tuples) and action order")


REGISTRY = {"C14": check_C14, "C25": check_C25, "C15": check_C15, "C12": check_C12, "C13": check_C13}


ENGINES = [{"name": "feat", "path": "tools/c_feat.py (on top of engine core), spec/Sem.tla (inline), spec/Cfg.tla",
            "serves_properties": ["C12", "C13", "C14", "C15", "C25"],
            "kind_free_text": "one grammar rendered in variants (inline subsets, feature sets, renamings); each variant's expected "
                              "behaviour from Sem.tla (+ Cfg.tla); replayed through the generated parsers"}]


def _entry(p, text, note):
    return {"property_id": p, "quick_cmd": "./check %s --tier quick" % p, "thorough_cmd": "./check %s --tier thorough" % p,
            "evidence_file": "evidence/%s.json" % p, "replay_cmd_template": "./check %s --replay {path}" % p, "engine": "feat",
            "level_claimed": {"category": "model_checking", "text": text, "design_ref": "DESIGN.md 4.5, 5/%s" % p},
            "level_note": note,
            "technique": "TLA+ specification of the feature's meaning (Sem.tla / Cfg.tla), behaviours enumerated by TLC for every "
                         "input up to a bound and replayed through the parsers LALRPOP generates for each variant"}


MANIFEST = [
    _entry("C13", "Macro.tla gives each macro use, repetition, option and group the nonterminal obtained by substituting the "
                  "arguments (conditions == != ~~ !~ evaluated on the argument), with the documented values (Vec in input order, "
                  "Option, tuple/single of the selected symbols); Sem.tla evaluates every input up to the bound on that expansion; "
                  "the parser generated from the sugared grammar must agree on acceptance, values and action order.",
           "Only sugared grammars whose un-inlined expansion is LR(1) are compared (the oracle parses the expansion as written, "
           "LALRPOP inlines X*, X?, groups); ~~ patterns are anchored literals/one-character classes; no @L/@R next to inlined "
           "empties. Trusted: TLC, rustc, harness runtime, the renderer sugar.py."),
    _entry("C14", "Sem.tla parses the grammar as written and defers the actions of #[inline] nonterminals to their host; TLC "
                  "enumerates every input up to the bound for each subset of inlinable nonterminals; the parser generated for each "
                  "variant must agree on accept/reject, value, user error and action order.",
           "Only variants whose un-inlined grammar is LR(1) can be evaluated (the oracle parses the grammar as written); locations "
           "are not part of these grammars (the property excludes them). Trusted: TLC, rustc, harness runtime."),
    _entry("C15", "Cfg.tla evaluates the predicates like Rust and deletes inactive nonterminals, alternatives and conversions; "
                  "Sem.tla gives the behaviour of what remains for every feature subset; the parser generated from the annotated "
                  "grammar under that feature set must match on every input up to the bound; CARGO_FEATURE_* vs set_features "
                  "byte-compared.",
           "Feature names without `_`; all()/any() with no argument and attributes on textually empty alternatives are not "
           "generated (LALRPOP's syntax rejects them with a diagnostic). Trusted: TLC, rustc, harness runtime."),
    _entry("C12", "Prec.tla builds the documented tiered grammar (levels sorted, inheritance of level/associativity, reset by a new "
                  "precedence, left/right/none/all substitution of recursive occurrences, pass-through alternatives, loosest tier "
                  "keeps the name); Sem.tla evaluates all operator/operand sequences up to the bound; the parser generated from "
                  "the annotated grammar must agree on acceptance and trees.",
           "Only annotated nonterminals whose tiered grammar is LR(1) are compared; recursive occurrences nested inside macro "
           "arguments/groups are not generated yet. Trusted: TLC, rustc, harness runtime."),
    _entry("C25", "The specification's records do not depend on identifiers; every injective renaming of nonterminals, bindings and "
                  "a grammar parameter into LALRPOP-internal-looking names must yield the same verdict, compile, and match the "
                  "same records.",
           "Renamings are drawn from a fixed adversarial pool (not all identifiers); precedence-tier names are covered by C12's "
           "population. Trusted: TLC, rustc, harness runtime."),
]
