------------------------------- MODULE Macro -------------------------------
(***************************************************************************)
(* Macros, repetitions, options, groups and conditional alternatives       *)
(* (book: tutorial chapter "Macros"; cheat sheet; property C13).           *)
(*                                                                         *)
(* A raw case with a field `sugar` carries no G/P of its own: they are     *)
(* what this module derives.  sugar = [items |-> Seq(item)],               *)
(*   item = [name, params : Seq(name), alts : Seq(alt)]                    *)
(*          (params = <<>> for an ordinary nonterminal)                    *)
(*   alt  = [cond, rhs : Seq(expr), P]   P as in Sem.tla, its `syms`       *)
(*          indexing positions of rhs                                      *)
(*   cond = [on |-> FALSE] | [on |-> TRUE, lhs |-> param, op, rhs, pat]    *)
(*          op in "==", "!=", "~~", "!~"; for the match operators `pat` is *)
(*          [k |-> "exact", s] (the regex ^s$), [k |-> "class", set] (the  *)
(*          regex ^[..]$ over one-character names) or [k |-> "contains",   *)
(*          chars] (the unanchored regex that is that plain text)          *)
(*   expr = [k |-> "t" | "nt" | "param", n, sel]                           *)
(*        | [k |-> "macro", n, args : Seq(expr), sel]                      *)
(*        | [k |-> "rep", op : "*" | "+" | "?", s : expr, sel]             *)
(*        | [k |-> "group", syms : Seq(expr), sel]                         *)
(*                                                                         *)
(* Meaning (substitution): every use of a macro, repetition, option or     *)
(* group denotes a fresh nonterminal named after the use itself, defined   *)
(* by substituting the arguments:                                          *)
(*   M<a..>  the alternatives of M whose condition holds for the arguments *)
(*   X+      X => [x]            |  X+ X => push                           *)
(*   X*      (nothing) => []     |  X+                                     *)
(*   X?      X => Some(x)        |  (nothing) => None                      *)
(*   (..)    one alternative with the default action: the selected         *)
(*           symbols' values, else all; one value alone, several as tuple  *)
(* Two uses denote the same nonterminal iff they are written alike (same   *)
(* name after substitution), so distinct instantiations never interfere.   *)
(***************************************************************************)
EXTENDS Grammar, TLC

HasSugar(raw) == "sugar" \in DOMAIN raw

RECURSIVE Name(_), JoinNames(_, _), JoinSel(_, _)
Name(e) ==
  CASE e.k = "macro" -> e.n \o "<" \o JoinNames(e.args, 1) \o ">"
    [] e.k = "rep"   -> Name(e.s) \o e.op
    [] e.k = "group" -> "(" \o JoinSel(e.syms, 1) \o ")"
    [] OTHER         -> e.n
JoinNames(es, i) == IF i > Len(es) THEN ""
                    ELSE Name(es[i]) \o (IF i < Len(es) THEN "," ELSE "") \o JoinNames(es, i + 1)
JoinSel(es, i) == IF i > Len(es) THEN ""
                  ELSE (IF es[i].sel THEN "<" \o Name(es[i]) \o ">" ELSE Name(es[i]))
                       \o (IF i < Len(es) THEN " " ELSE "") \o JoinSel(es, i + 1)

Lookup(env, n) == env[CHOOSE i \in DOMAIN env : env[i][1] = n][2]

RECURSIVE Subst(_, _)
Subst(e, env) ==
  CASE e.k = "param" -> [Lookup(env, e.n) EXCEPT !.sel = e.sel]
    [] e.k = "macro" -> [e EXCEPT !.args = [i \in DOMAIN e.args |-> Subst(e.args[i], env)]]
    [] e.k = "rep"   -> [e EXCEPT !.s = Subst(e.s, env)]
    [] e.k = "group" -> [e EXCEPT !.syms = [i \in DOMAIN e.syms |-> Subst(e.syms[i], env)]]
    [] OTHER         -> e

(* `~~` is a regex *search* in the text of the argument (unanchored unless the pattern says so).  Patterns:
   exact  ^s$ ; class  ^[..]$ over one-character names ; contains  the plain text pat.chars anywhere in the
   argument (tchars gives the characters of every terminal's text, TLC cannot index strings) *)
CharsOf(tchars, s) == tchars[CHOOSE i \in DOMAIN tchars : tchars[i].n = s].cs
Contains(cs, pc) == \E i \in 0..(Len(cs) - Len(pc)) : SubSeq(cs, i + 1, i + Len(pc)) = pc
PatMatch(tchars, pat, s) ==
  IF pat.k = "exact" THEN s = pat.s
  ELSE IF pat.k = "contains" THEN Contains(CharsOf(tchars, s), pat.chars)
  ELSE \E i \in DOMAIN pat.set : pat.set[i] = s
CondHolds(tchars, cond, env) ==
  IF ~cond.on THEN TRUE
  ELSE LET s == Lookup(env, cond.lhs).n IN     \* the argument must be a quoted terminal
       CASE cond.op = "==" -> s = cond.rhs
         [] cond.op = "!=" -> s # cond.rhs
         [] cond.op = "~~" -> PatMatch(tchars, cond.pat, s)
         [] cond.op = "!~" -> ~PatMatch(tchars, cond.pat, s)

ItemOf(sugar, n) == sugar.items[CHOOSE i \in DOMAIN sugar.items : sugar.items[i].name = n]

NoFail == [on |-> FALSE, s |-> 1, m |-> 1, r |-> 0]
SynP(form, syms) == [tag |-> 0, form |-> form, esym |-> 0, exact |-> FALSE, unit |-> FALSE, syms |-> syms, fail |-> NoFail]
Plain(i) == [k |-> "sym", i |-> i, sel |-> FALSE]

(* the defining alternatives of the nonterminal a use denotes *)
Def(sugar, e) ==
  LET me == Name(e) IN
  CASE e.k = "macro" ->
         LET it == ItemOf(sugar, e.n)
             env == [i \in DOMAIN it.params |-> <<it.params[i], e.args[i]>>]
             keep == SelectSeq(it.alts, LAMBDA a : CondHolds(sugar.tchars, a.cond, env))
         IN [j \in DOMAIN keep |-> [lhs |-> me, rhs |-> [i \in DOMAIN keep[j].rhs |-> Subst(keep[j].rhs[i], env)],
                                    P |-> keep[j].P, kind |-> it.kind]]
    [] e.k = "rep" /\ e.op = "+" ->
         << [lhs |-> me, rhs |-> << [e.s EXCEPT !.sel = FALSE] >>, P |-> SynP("vec1", <<Plain(1)>>)],
            [lhs |-> me, rhs |-> << [e EXCEPT !.sel = FALSE], [e.s EXCEPT !.sel = FALSE] >>,
             P |-> SynP("vecpush", <<Plain(1), Plain(2)>>)] >>
    [] e.k = "rep" /\ e.op = "*" ->
         << [lhs |-> me, rhs |-> <<>>, P |-> SynP("vec0", <<>>)],
            [lhs |-> me, rhs |-> << [e EXCEPT !.op = "+", !.sel = FALSE] >>, P |-> SynP("none", <<Plain(1)>>)] >>
    [] e.k = "rep" /\ e.op = "?" ->
         << [lhs |-> me, rhs |-> << [e.s EXCEPT !.sel = FALSE] >>, P |-> SynP("some", <<Plain(1)>>)],
            [lhs |-> me, rhs |-> <<>>, P |-> SynP("noneo", <<>>)] >>
    [] e.k = "group" ->
         << [lhs |-> me, rhs |-> e.syms,
             P |-> SynP("none", [i \in DOMAIN e.syms |-> [k |-> "sym", i |-> i, sel |-> e.syms[i].sel]])] >>

Needs(e) == e.k \in {"macro", "rep", "group"}

RECURSIVE RhsOf(_, _)
RhsOf(defs, i) == IF i > Len(defs) THEN <<>> ELSE defs[i].rhs \o RhsOf(defs, i + 1)

(* all the alternatives reachable from the ordinary nonterminals; `fuel`
   bounds runaway recursive instantiation (then `ok` is FALSE) *)
RECURSIVE Collect(_, _, _, _, _)
Collect(sugar, todo, done, acc, fuel) ==
  IF todo = <<>> THEN [ok |-> TRUE, alts |-> acc]
  ELSE IF fuel = 0 THEN [ok |-> FALSE, alts |-> acc]
  ELSE LET e == Head(todo) IN
       IF ~Needs(e) \/ Name(e) \in done THEN Collect(sugar, Tail(todo), done, acc, fuel)
       ELSE LET d == Def(sugar, e)
            IN Collect(sugar, Tail(todo) \o RhsOf(d, 1), done \cup {Name(e)}, acc \o d, fuel - 1)

BaseAlts(sugar) ==
  LET plain == SelectSeq(sugar.items, LAMBDA it : it.params = <<>>)
      F[i \in 0..Len(plain)] ==
        IF i = 0 THEN <<>>
        ELSE F[i - 1] \o [j \in DOMAIN plain[i].alts |->
                            [lhs |-> plain[i].name, rhs |-> plain[i].alts[j].rhs, P |-> plain[i].alts[j].P,
                             kind |-> plain[i].kind]]
  IN F[Len(plain)]

Expansion(raw) == LET b == BaseAlts(raw.sugar)
                  IN Collect(raw.sugar, RhsOf(b, 1), {}, b, 200)

RECURSIVE Dedup(_, _)
Dedup(s, seen) == IF s = <<>> THEN <<>>
                  ELSE IF Head(s) \in seen THEN Dedup(Tail(s), seen)
                  ELSE <<Head(s)>> \o Dedup(Tail(s), seen \cup {Head(s)})

KindOfName(raw, alts, n) ==
  LET S == {i \in DOMAIN alts : alts[i].lhs = n} 
      i0 == CHOOSE i \in S : TRUE
  IN IF "kind" \in DOMAIN alts[i0] THEN alts[i0].kind ELSE "infer"

MacroOk(raw) == Expansion(raw).ok

ApplyMacro(raw) ==
  LET alts == Expansion(raw).alts
      startp == [lhs |-> "__" \o raw.start, rhs |-> <<raw.start>>]
      prods == [i \in DOMAIN alts |-> [lhs |-> alts[i].lhs, rhs |-> [j \in DOMAIN alts[i].rhs |-> Name(alts[i].rhs[j])]]]
      nts == Dedup([i \in DOMAIN alts |-> alts[i].lhs], {})
  IN [id |-> raw.id,
      G |-> [ts |-> raw.ts, nts |-> nts \o <<startp.lhs>>, prods |-> Append(prods, startp)],
      sp |-> Len(alts) + 1, n |-> raw.n, inject |-> raw.inject,
      P |-> Append([i \in DOMAIN alts |-> alts[i].P], SynP("start", <<Plain(1)>>)),
      inl |-> <<>>,
      kinds |-> [i \in DOMAIN nts |-> KindOfName(raw, alts, nts[i])] \o <<"V">>]
=============================================================================
