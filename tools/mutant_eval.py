#!/usr/bin/env python3
"""Apply a seeded change to /repo, run some checks, undo it.

  tools/mutant_eval.py <patch.diff> <ID> [<ID> ...] [--tier quick|thorough]

Prints one line per check: `<ID> exit=<n> <first VIOLATION/KNOWN/what line>`.
The patch is always reverted (git -C /repo checkout -- . ; untracked files the
patch created are removed), even when a check crashes.
"""
import json
import os
import subprocess
import sys
import time

ROOT = os.path.dirname(os.path.dirname(os.path.abspath(__file__)))
REPO = "/repo"


def sh(cmd, **kw):
    return subprocess.run(cmd, shell=True, capture_output=True, text=True, **kw)


def main():
    args = sys.argv[1:]
    tier = "quick"
    if "--tier" in args:
        i = args.index("--tier")
        tier = args[i + 1]
        del args[i:i + 2]
    patch, ids = args[0], args[1:]
    st = sh("git -C %s status --porcelain" % REPO).stdout.strip()
    if st:
        print("refusing: /repo is not clean:\n" + st)
        return 2
    r = sh("git -C %s apply --whitespace=nowarn %s" % (REPO, patch))
    if r.returncode != 0:
        # the hooks may have moved the context lines since the worktree was made: retry with fuzz
        r = sh("cd %s && patch -p1 -F3 --no-backup-if-mismatch < %s" % (REPO, patch))
        if r.returncode != 0:
            print("patch does not apply:", r.stdout, r.stderr)
            sh("git -C %s checkout -- ." % REPO)
            return 2
    results = {}
    try:
        for pid in ids:
            t0 = time.time()
            p = sh("cd %s && ./check %s --tier %s" % (ROOT, pid, tier))
            lines = [l for l in (p.stdout + p.stderr).splitlines()
                     if l.startswith(("VIOLATION", "  what:", "KNOWN-FINDING", "TOOL-ERROR"))]
            results[pid] = {"exit": p.returncode, "lines": lines[:6], "wall": round(time.time() - t0)}
            print("%s exit=%d (%ds) %s" % (pid, p.returncode, time.time() - t0, " | ".join(x[:230] for x in lines[:3])), flush=True)
            if p.returncode == 2:
                print((p.stdout + p.stderr)[-1500:])
    finally:
        sh("git -C %s checkout -- ." % REPO)
        sh("git -C %s clean -fdq -- lalrpop lalrpop-util" % REPO)
        # drop cached artefacts of the mutated tree
        sys.path.insert(0, os.path.join(ROOT, "tools"))
        import vlib
        keep = vlib.repo_fingerprint()
        if os.path.isdir(vlib.CACHE):
            for e in os.listdir(vlib.CACHE):
                if keep not in e:
                    vlib.rmtree(os.path.join(vlib.CACHE, e))
    print(json.dumps(results))
    return 0


if __name__ == "__main__":
    sys.exit(main())
