\* C21: 2 file(s), the protocol of the code as it is, no faults; run: tlc -config MCBuild2.cfg MCBuild.tla
SPECIFICATION Spec
CONSTANT NFiles = 2
CONSTANT Protocol = "header_first"
CONSTANT Faults = FALSE
VIEW View
CHECK_DEADLOCK FALSE
INVARIANT TypeOK
INVARIANT ReportUnsafe
INVARIANT Fresh
INVARIANT OutputFunctional
