"""Engine `wf` (C18): LALRPOP never panics.

Population from the specification: spec/WellFormed.tla + MCWellFormed (all single
and double mutations of base grammars, each labelled with the well-formedness
rules it breaks), rendered to .lalrpop text here; plus a seeded byte-level
mutator over rendered grammars and the repository's own .lalrpop files.
Executed in-process (lpdrv: catch_unwind + watchdog) and, for a sample and for
non-UTF-8 input, through the CLI binary built from /repo (harness/crates/lpcli).  The oracle is the
property's: never a panic / abort / hang; Ok => parser written; Err => no
parser, a diagnostic, Err / exit status 1.  The recorded pipeline events of every
run are validated by TLC against spec/Pipeline.tla (TracePipeline)."""
import glob
import hashlib
import json
import os
import random
import re
import subprocess

import lp
import vlib
from vlib import HARNESS, REPO, TARGET, Report, ToolError, cargo_build_or_die, log, mkscratch, rmtree, run_tlc

CFG = """SPECIFICATION Spec
CHECK_DEADLOCK FALSE
CONSTANT UseBases = %s
CONSTANT Depth2Bases = %s
INVARIANT Report
"""


# --------------------------------------------------------------------------
# rendering the abstract syntax of WellFormed.tla
# --------------------------------------------------------------------------
def r_attr(a):
    if a["arg"] == "":
        return "#[%s]" % a["id"]
    return '#[%s(%s="%s")]' % (a["id"], a["arg"], a["val"])


def r_regex(n):
    return 'r"%s"' % n if '"' not in n else 'r#"%s"#' % n


def r_sym(s):
    k = s["k"]
    if k == "t":
        t = s["n"]
    elif k == "re":
        t = r_regex(s["n"])
    elif k == "nt":
        t = s["n"]
    elif k == "macro":
        t = "%s<%s>" % (s["n"], ", ".join(s["args"]))
    elif k == "err":
        t = "!"
    elif k == "L":
        t = "@L"
    elif k == "R":
        t = "@R"
    else:
        raise ToolError("symbol kind %r" % k)
    t += s["op"]
    if s["bind"] == "":
        return t
    if s["bind"] == "<>":
        return "<%s>" % t
    return "<%s:%s>" % (s["bind"], t)


def r_alt(a):
    parts = [r_attr(x) for x in a["attrs"]] + [r_sym(s) for s in a["syms"]]
    if a["action"] == "user":
        parts.append("=> Default::default()")
    elif a["action"] == "fallible":
        parts.append("=>? Ok(Default::default())")
    return " ".join(parts)


def render(ast):
    out = ["#[%s]" % a for a in ast["gattrs"]]
    out.append("grammar;")
    if ast["lexer"] == "extern" or ast["both"]:
        out.append("extern {")
        if ast["loc"]:
            out.append("    type Location = usize;")
        out.append("    type Error = String;")
        out.append("    enum Tok {")
        for t in ast["toks"]:
            out.append("        %s => %s," % (r_regex(t["lit"]) if t["re"] else t["lit"],
                                              t["name"] if "::" in t["name"] else "Tok::" + t["name"]))
        out.append("    }")
        out.append("}")
    if ast["lexer"] == "match" or (ast["both"] and ast["lexer"] != "extern"):
        out.append("match {")
        for t in ast["toks"]:
            out.append("    %s => %s," % (r_regex(t["lit"]) if t["re"] else t["lit"], t["name"].replace("Tok::", "T_")))
        out.append("} else { _ }")
    elif ast["both"]:
        out.append("match { %s } else { _ }" % ", ".join(t["lit"] for t in ast["toks"] if not t["re"]))
    for it in ast["items"]:
        head = " ".join(r_attr(a) for a in it["attrs"])
        head += (" " if head else "") + ("pub " if it["pub"] else "") + it["name"]
        if it["params"]:
            head += "<%s>" % ", ".join(it["params"])
        if it["ty"]:
            head += ": " + it["ty"]
        out.append("%s = {" % head)
        for a in it["alts"]:
            out.append("    %s," % r_alt(a))
        out.append("};")
    return "\n".join(out) + "\n"


def tlc_mutants(use, depth2):
    def tset(s):
        return "{%s}" % ", ".join(str(x) for x in sorted(s))
    r = run_tlc("MCWellFormed", CFG % (tset(use), tset(depth2)), workers=8, timeout=3000)
    ms = [o for t, o in r.prints if t == "MUTANT"]
    if not ms:
        raise ToolError("MCWellFormed printed nothing")
    return r, ms


# --------------------------------------------------------------------------
# byte-level mutator
# --------------------------------------------------------------------------
POOL = ["{", "}", "(", ")", "[", "]", "<", ">", '"', "'", "#", "!", "=>", "=>?", ",", ";", ":", "*", "+", "?", "@L", "@R",
        "\\", "/", "//", "/*", "*/", "r\"", "r#\"", "\"#", "#![", "#[", "]", "pub ", "grammar", "extern", "match", "enum", "use ",
        "=>@L", "<>", "..", "~~", "!~", "==", "`", "_", "if ", "else", "where ", "type ", "mut ", "'a", "\n", "\t", "\r\n", "\0",
        "é", "‮", "\U0001F600", "﻿", "r#", "##", "\"\\", "'\\", "'\\u{", "\\x", "0", "4294967296", "-1"]


def byte_mutants(corpus, n, seed):
    """corpus: [(name, text)] -> [(name, op, text)] seeded"""
    rng = random.Random(seed * 7907 + 5)
    out = []
    for k in range(n):
        name, text = corpus[k % len(corpus)]
        t = text
        ops = []
        for _ in range(rng.choice([1, 1, 1, 2, 3])):
            L = len(t)
            op = rng.choice(["delete", "insert", "duplicate", "truncate", "unbalance", "swap", "replace", "quote"])
            i = rng.randint(0, max(0, L - 1)) if L else 0
            j = min(L, i + rng.choice([1, 1, 2, 3, 5, 10, 40]))
            if op == "delete":
                t = t[:i] + t[j:]
            elif op == "insert":
                t = t[:i] + rng.choice(POOL) + t[i:]
            elif op == "duplicate":
                t = t[:j] + t[i:j] * rng.choice([1, 2, 4]) + t[j:]
            elif op == "truncate":
                t = t[:i]
            elif op == "unbalance":
                pos = [m.start() for m in re.finditer(r"[{}()\[\]<>\"']", t)]
                if pos:
                    p = rng.choice(pos)
                    t = t[:p] + t[p + 1:] if rng.random() < 0.5 else t[:p] + t[p] + t[p:]
            elif op == "swap":
                k2 = min(L, j + (j - i))
                t = t[:i] + t[j:k2] + t[i:j] + t[k2:]
            elif op == "replace":
                t = t[:i] + rng.choice(POOL) + t[i + 1:]
            elif op == "quote":
                t = t[:i] + rng.choice(['"', "'", 'r"', '\\"']) + t[i:]
            ops.append(op)
        out.append((name, "+".join(ops), t))
    return out


def repo_corpus():
    files = sorted(glob.glob(os.path.join(REPO, "lalrpop-test", "src", "*.lalrpop")))
    files += sorted(glob.glob(os.path.join(REPO, "doc", "**", "*.lalrpop"), recursive=True))
    out = []
    for f in files:
        try:
            out.append((os.path.relpath(f, REPO), open(f, encoding="utf-8").read()))
        except UnicodeDecodeError:
            pass
    return out


# --------------------------------------------------------------------------
# running and judging
# --------------------------------------------------------------------------
def panic_site(r):
    txt = r.get("stderr", "") + "\n" + r.get("message", "")
    m = re.search(r"@@PANIC panicked at ([^\n]*?):(\d+):(\d+):\n([^\n]*)", txt)
    if m:
        path = m.group(1)
        path = path[path.find("lalrpop"):] if "lalrpop" in path else path
        msg = re.sub(r"`[^`]*`|\d+|'[^']*'|\"[^\"]*\"", "_", m.group(4))
        msg = re.sub(r"[^A-Za-z_]+", "_", msg).strip("_")[:60]
        return path, msg
    return "?", re.sub(r"[^A-Za-z_]+", "_", r.get("message", ""))[:60]


def run_population(pop, wd, timeout_s=40):
    """pop: [{id, text, ...}] -> (results by id, trace events)"""
    jobs = []
    for k, p in enumerate(pop):
        d = os.path.join(wd, "g%d" % (k // 500))
        os.makedirs(d, exist_ok=True)
        path = os.path.join(d, "g%d.lalrpop" % k)
        with open(path, "w", encoding="utf-8", newline="") as f:
            f.write(p["text"])
        p["file"] = path
        jobs.append({"id": p["id"], "file": path, "timeout_s": timeout_s})
    res = lp.run_jobs(jobs, wd)
    return res


def judge(p, r):
    """-> (violation key, what) or None; only what the property states"""
    rs = p["file"][:-len(".lalrpop")] + ".rs"
    written = os.path.exists(rs) and os.path.getsize(rs) > 0
    st = r["status"]
    if st in ("panic", "timeout", "abort"):
        site, msg = panic_site(r)
        if st == "panic":
            return ("kind=panic site=%s msg=%s" % (site, msg), "LALRPOP panics at %s (%s)" % (site, r.get("message", "")[:200]))
        if st == "timeout":
            return ("kind=timeout budget_s=%s" % r.get("budget_s", "?"),
                    "LALRPOP does not end within %s s (run alone)" % r.get("budget_s", "?"))
        return ("kind=abort", "LALRPOP aborts the process")
    if st == "ok" and not written:
        return ("kind=ok_without_parser", "process_file returned Ok but no parser was written")
    if st == "err" and written:
        return ("kind=err_with_parser", "process_file returned Err but left a parser file behind")
    if st == "err":
        text = (r.get("stdout", "") + r.get("stderr", "") + r.get("message", "")).strip()
        if not text:
            return ("kind=err_without_diagnostic", "process_file returned Err without reporting anything")
    return None


def trace_of(p, r):
    rs = p["file"][:-len(".lalrpop")] + ".rs"
    ex = r.get("export") or {}
    ev = [{"ev": "reset", "id": p["id"]}]
    for s in ex.get("stages", []):
        ev.append({"ev": "stage", "name": s})
    if ex.get("normalized"):
        ev.append({"ev": "grammar"})
    for a in ex.get("automata", []):
        ev.append({"ev": "automaton", "verdict": a["verdict"]})
    ev.append({"ev": "result", "status": r["status"], "written": os.path.exists(rs)})
    return ev


def validate_traces(events, wd):
    """TLC: every run must be a behaviour of Pipeline.tla -> (TLC result, rejected run ids)"""
    tf = os.path.join(wd, "pipeline.ndjson")
    with open(tf, "w") as f:
        for e in events:
            f.write(json.dumps(e) + "\n")
    r = run_tlc("TracePipeline", "TracePipeline.cfg", env={"PIPE_TRACE": tf}, workers=1, cont=True, timeout=3000,
                java_opts=["-Dtlc2.tool.queue.IStateQueue=StateDeque"])
    done = [o for t, o in r.prints if t == "TRACEDONE"]
    if not done or done[0]["lines"] != len(events):
        raise ToolError("TracePipeline did not consume the whole trace (%s of %d lines)" % (done, len(events)))
    bad = []
    for v in r.violations:
        st = vlib.trace_last_state(v["trace"])
        bad.append((v["name"], st.get("run", "?").strip('"'), st.get("i")))
    return r, bad


# --------------------------------------------------------------------------
# CLI
# --------------------------------------------------------------------------
def build_cli():
    """the CLI: /repo/lalrpop/src/main.rs compiled against /repo/lalrpop (harness/crates/lpcli)"""
    cargo_build_or_die(["lpcli"])
    exe = os.path.join(vlib.BIN, "lalrpop-cli")
    if not os.path.exists(exe):
        raise ToolError("no CLI binary at " + exe)
    return exe


def run_cli(exe, items, wd):
    """items: [(id, bytes)] -> [(id, returncode, stderr tail, written)]"""
    out = []
    d = os.path.join(wd, "cli")
    os.makedirs(d, exist_ok=True)

    def one(t):
        k, (i, data) = t
        path = os.path.join(d, "c%d.lalrpop" % k)
        with open(path, "wb") as f:
            f.write(data)
        try:
            env = dict(os.environ, RUST_BACKTRACE="0")
            p = subprocess.run([exe, "-f", path], capture_output=True, timeout=60, env=env)
            full = (p.stderr + p.stdout).decode("utf-8", "replace")
            m = re.search(r"panicked at [^\n]*\n[^\n]*", full)
            rc, err = p.returncode, (m.group(0) + " ... " if m else "") + full[-300:]
        except subprocess.TimeoutExpired:
            rc, err = "timeout", ""
        return (i, rc, err, os.path.exists(path[:-8] + ".rs"))

    from concurrent.futures import ThreadPoolExecutor
    with ThreadPoolExecutor(max_workers=8) as ex:
        out = list(ex.map(one, enumerate(items)))
    return out


# --------------------------------------------------------------------------
# the check
# --------------------------------------------------------------------------
def check(tier, seed):
    import sm_layout
    rep = Report("C18", tier, "exploration", seed)
    cargo_build_or_die(["lpdrv"])
    rng = random.Random(seed * 101 + 3)
    if tier == "quick":
        r, ms = tlc_mutants({1, 2, 3, 4}, {1})
        singles = [m for m in ms if m["depth"] <= 1]
        doubles = [m for m in ms if m["depth"] == 2]
        rng.shuffle(doubles)
        used = singles + doubles[:12000]
        nbytes, ncli = 4000, 150
    else:
        r, ms = tlc_mutants({1, 2, 3, 4}, {1, 3})
        used = ms
        nbytes, ncli = 30000, 1000
    log("wf: %d mutants from TLC (%d used), %.0fs" % (len(ms), len(used), r.wall))
    pop = []
    for k, m in enumerate(used):
        pop.append({"id": "m%d" % k, "src": "spec", "text": render(m["ast"]), "mutant": m})
    rendered = [("spec:" + m["base"], render(m["ast"])) for m in ms if m["depth"] == 0]
    rendered += [("layout:" + b["id"], " ".join(t["t"] for t in b["toks"])) for b in sm_layout.bases()]
    corpus = rendered + repo_corpus()
    for k, (name, op, text) in enumerate(byte_mutants(corpus, nbytes, seed)):
        pop.append({"id": "b%d" % k, "src": "bytes", "text": text, "of": name, "op": op})
    wd = mkscratch("wf")
    try:
        import time
        t0 = time.time()
        res = run_population(pop, wd)
        log("wf: %d grammars through lpdrv in %.0fs" % (len(pop), time.time() - t0))
        # a run that exceeds the per-job budget is repeated alone with a much larger one: only a
        # run that still does not end is reported as "does not terminate within N s"
        budget = 150 if tier == "quick" else 900
        slow = [p for p in pop if res[p["id"]]["status"] == "timeout"]
        slow_done = []
        if slow:
            jobs = [{"id": p["id"], "file": p["file"], "timeout_s": budget} for p in slow[:16]]
            again = lp.run_jobs(jobs, wd, procs=len(jobs))
            for p in slow[:16]:
                res[p["id"]] = again[p["id"]]
                res[p["id"]]["budget_s"] = budget
                if again[p["id"]]["status"] != "timeout":
                    slow_done.append({"wall_ms": again[p["id"]].get("wall_ms"), "status": again[p["id"]]["status"],
                                      "text": p["text"][:200]})
            log("wf: %d slow run(s) repeated with %ds budget, %d ended" % (len(slow), budget, len(slow_done)))
        events = []
        matrix = {}
        accepted_illformed = []
        for p in pop:
            rr = res[p["id"]]
            v = judge(p, rr)
            h = hashlib.sha1(p["text"].encode("utf-8", "surrogatepass")).hexdigest()
            rep.case(h)
            if p["src"] == "spec":
                wf = "well_formed" if not p["mutant"]["broken"] else "ill_formed"
                matrix["%s/%s" % (wf, rr["status"])] = matrix.get("%s/%s" % (wf, rr["status"]), 0) + 1
                if p["mutant"]["broken"] and rr["status"] == "ok" and len(accepted_illformed) < 8:
                    accepted_illformed.append({"broken": p["mutant"]["broken"], "text": p["text"]})
            else:
                matrix["bytes/%s" % rr["status"]] = matrix.get("bytes/%s" % rr["status"], 0) + 1
            if v:
                key, what = v
                key += " src=%s" % p["src"]
                if p["src"] == "spec":
                    key += " broken=%s" % ("+".join(p["mutant"]["broken"]) or "none")
                rep.violation(key, "%s on\n%s" % (what, p["text"][:600]),
                              {"engine": "wf", "text": p["text"], "expect": "no panic", "timeout_s": rr.get("budget_s", 40)})
            if rr["status"] in ("ok", "err"):
                events += trace_of(p, rr)
        t0 = time.time()
        tr, bad = validate_traces(events, wd)
        log("wf: %d trace lines validated by TLC in %.0fs" % (len(events), time.time() - t0))
        byid = {p["id"]: p for p in pop}
        for name, run, line in bad:
            p = byid.get(run)
            rep.violation("kind=pipeline_trace inv=%s" % name,
                          "the recorded pipeline events of a run are not a behaviour of Pipeline.tla (%s, trace line %s): %s" % (
                              name, line, json.dumps(trace_of(p, res[run])) if p else run),
                          {"engine": "wf", "text": p["text"] if p else "", "expect": "pipeline"})
        # CLI: a sample of everything, plus non-UTF-8 variants
        t0 = time.time()
        exe = build_cli()
        log("wf: CLI build %.0fs" % (time.time() - t0))
        sample = rng.sample(pop, min(ncli, len(pop)))
        items = [(p["id"], p["text"].encode("utf-8", "surrogatepass")) for p in sample]
        for k, (name, text) in enumerate(corpus[: max(10, ncli // 5)]):
            b = bytearray(text.encode("utf-8"))
            for _ in range(rng.choice([1, 2, 5])):
                pos = rng.randint(0, max(0, len(b) - 1)) if b else 0
                b[pos:pos + rng.choice([0, 1])] = rng.choice([b"\xff", b"\xc3", b"\xe2\x28", b"\xf0\x9f", b"\x80", b"\xed\xa0\x80"])
            items.append(("nonutf8-%d" % k, bytes(b)))
        cli = run_cli(exe, items, wd)
        cli_codes = {}
        for (i, rc, err, written), (_, data) in zip(cli, items):
            cli_codes[str(rc)] = cli_codes.get(str(rc), 0) + 1
            rep.case("cli:" + hashlib.sha1(data).hexdigest())
            bad_rc = rc not in (0, 1)
            if bad_rc or (rc == 0 and not written) or (rc == 1 and written):
                site = re.search(r"panicked at ([^\n]*?):\d+:\d+", err)
                sp = site.group(1) if site else "?"
                sp = sp[sp.find("lalrpop"):] if "lalrpop" in sp else sp
                key = "kind=cli exit=%s site=%s" % (rc, sp) if bad_rc else "kind=cli exit=%s written=%s" % (rc, written)
                rep.violation(key + (" input=non_utf8" if str(i).startswith("nonutf8") else ""),
                              "the lalrpop CLI ends with status %s (%s)" % (rc, err[-300:].replace("\n", " | ")),
                              {"engine": "wf-cli", "bytes_hex": data.hex()})
    finally:
        rmtree(wd)
    for m in (used[1], used[len(used) // 2]):
        rep.sample({"mutant_of": m["base"], "depth": m["depth"], "rules_broken": m["broken"], "text": render(m["ast"])})
    bm = [p for p in pop if p["src"] == "bytes"]
    if bm:
        rep.sample({"byte_mutant_of": bm[0]["of"], "ops": bm[0]["op"], "text": bm[0]["text"][:300]})
    rep.add(tlc_states=r.distinct, tlc_mutants=len(ms), spec_mutants_run=len(used), byte_mutants_run=len(bm),
            outcome_matrix=matrix, slow_but_terminating=slow_done, cli_runs=len(cli), cli_exit_codes=cli_codes,
            pipeline_traces_validated=len([e for e in events if e["ev"] == "reset"]), pipeline_trace_states=tr.distinct,
            ill_formed_by_spec_but_accepted_examples=accepted_illformed)
    rep.assumptions = ["lpdrv's catch_unwind / watchdog report every panic and hang of the in-process run",
                       "WellFormed.tla labels mutants only; acceptance of a grammar the rules call ill-formed is listed, not flagged "
                       "(the property is about termination with Ok or Err)"]
    return rep.finish(
        rule="grammar texts: every single mutation of 4 base grammars and %s double mutations (TLC, MCWellFormed), rendered; plus "
             "seeded byte-level mutants (delete/insert/duplicate/swap spans, unbalanced delimiters, truncation, stray quotes, "
             "non-ASCII) of those, of the layout bases and of the %d .lalrpop files of the repository; CLI sample incl. non-UTF-8 "
             "bytes; distinct = distinct file contents (SHA-1); every case is non-trivial (a near-valid or invalid grammar)" % (
                 "a seeded sample of 12000 of the (base expr)" if tier == "quick" else "all (bases expr and extern)", len(repo_corpus())))


def replay(obj):
    cargo_build_or_die(["lpdrv"])
    wd = mkscratch("wf")
    try:
        if obj["engine"] == "wf-cli":
            exe = build_cli()
            out = run_cli(exe, [("x", bytes.fromhex(obj["bytes_hex"]))], wd)
            i, rc, err, written = out[0]
            bad = rc not in (0, 1) or (rc == 0 and not written) or (rc == 1 and written)
            print("REPRODUCED: exit %s %s" % (rc, err[-300:]) if bad else "not reproduced")
            return 1 if bad else 0
        pop = [{"id": "x", "src": "replay", "text": obj["text"]}]
        res = run_population(pop, wd, timeout_s=obj.get("timeout_s", 40))
        res["x"]["budget_s"] = obj.get("timeout_s", 40)
        v = judge(pop[0], res["x"])
        if not v and obj.get("expect") == "pipeline":
            _, bad = validate_traces(trace_of(pop[0], res["x"]), wd)
            v = ("pipeline", str(bad)) if bad else None
    finally:
        rmtree(wd)
    if v:
        print("REPRODUCED:", v[0], v[1][:300])
        return 1
    print("not reproduced")
    return 0


def selftest():
    """binding: a corrupted pipeline record (Ok without a grammar stage / a parser after Err) must be rejected by TLC"""
    wd = mkscratch("wf")
    try:
        good = [{"ev": "reset", "id": "g"}, {"ev": "stage", "name": "parse"}, {"ev": "stage", "name": "normalize"},
                {"ev": "grammar"}, {"ev": "automaton", "verdict": "ok"}, {"ev": "result", "status": "ok", "written": True}]
        bad1 = [{"ev": "reset", "id": "b1"}, {"ev": "stage", "name": "parse"}, {"ev": "stage", "name": "normalize"},
                {"ev": "result", "status": "ok", "written": True}]
        bad2 = [{"ev": "reset", "id": "b2"}, {"ev": "stage", "name": "parse"}, {"ev": "result", "status": "err", "written": True}]
        bad3 = [{"ev": "reset", "id": "b3"}, {"ev": "stage", "name": "normalize"}, {"ev": "stage", "name": "parse"},
                {"ev": "result", "status": "err", "written": False}]
        bad4 = [{"ev": "reset", "id": "b4"}, {"ev": "stage", "name": "parse"}, {"ev": "stage", "name": "normalize"},
                {"ev": "grammar"}, {"ev": "automaton", "verdict": "conflict"}, {"ev": "automaton", "verdict": "ok"},
                {"ev": "result", "status": "ok", "written": True}]
        _, bad = validate_traces(good + bad1 + bad2 + bad3 + bad4 + good, wd)
    finally:
        rmtree(wd)
    runs = sorted({b[1] for b in bad})
    return ("wf: corrupted pipeline traces are rejected by TracePipeline, intact ones accepted", runs == ["b1", "b2", "b3", "b4"], str(runs))
