//! Configured calls over directory trees (C20, C23, C24).
//!
//! job: {root, keep: bool, cases: [case]}
//! case: {id, tree: [{path, kind: dir|file|symlink|copy, content, target, from}], cwd, env: {k: v|null},
//!        call: {...see call.rs...} | {call: cli, bin, args: [..]}, expect: [path], subprocess: bool,
//!        want_tokens: bool}
//! Every string may contain $ROOT (the absolute directory of the case). Paths in `tree`,
//! `cwd` and `expect` are relative to it.
//! result: {id, status ok|err|panic|abort|..., message, rs: [{phys, sha3, size, tokens?}],
//!          expect: [{path, exists, canon}], directives: [line], stdout_lines: n}
//! `rs` lists every file named *.rs physically present under the case directory afterwards
//! (symbolic links are not followed); `canon` is the physical location of an expected path.
use crate::call::{run_call_caught, spawn_child, with_stdout_captured};
use crate::tokens::token_digest;
use serde_json::{json, Value};
use sha3::{Digest, Sha3_256};
use std::fs;
use std::io::Write;
use std::path::{Path, PathBuf};
use std::process::{Command, Stdio};

fn subst(v: &Value, root: &str) -> Value {
    match v {
        Value::String(s) => Value::String(s.replace("$ROOT", root)),
        Value::Array(a) => Value::Array(a.iter().map(|x| subst(x, root)).collect()),
        Value::Object(m) => Value::Object(m.iter().map(|(k, x)| (k.clone(), subst(x, root))).collect()),
        other => other.clone(),
    }
}

pub fn hex_sha3(data: &[u8]) -> String {
    let mut h = Sha3_256::new();
    h.update(data);
    h.finalize().iter().map(|b| format!("{:02x}", b)).collect()
}

fn walk_rs(dir: &Path, base: &Path, acc: &mut Vec<PathBuf>) {
    let mut entries: Vec<_> = match fs::read_dir(dir) {
        Ok(rd) => rd.filter_map(|e| e.ok()).collect(),
        Err(_) => return,
    };
    entries.sort_by_key(|e| e.file_name());
    for e in entries {
        let p = e.path();
        let ft = match e.file_type() {
            Ok(t) => t,
            Err(_) => continue,
        };
        if ft.is_dir() {
            walk_rs(&p, base, acc);
        } else if p.extension().map(|x| x == "rs").unwrap_or(false) {
            acc.push(p.strip_prefix(base).unwrap_or(&p).to_path_buf());
        }
    }
}

fn canon_rel(p: &Path, base: &Path) -> Option<String> {
    // physical location of p: canonical parent + file name (p itself may be absent)
    let parent = p.parent()?;
    let name = p.file_name()?;
    let cp = fs::canonicalize(parent).ok()?;
    let cb = fs::canonicalize(base).ok()?;
    let full = cp.join(name);
    Some(full.strip_prefix(&cb).map(|x| x.to_string_lossy().to_string()).unwrap_or_else(|_| full.to_string_lossy().to_string()))
}

pub fn main(job: &str, outp: &str) {
    let j: Value = serde_json::from_str(&fs::read_to_string(job).expect("read job")).expect("job json");
    let mut out = fs::File::create(outp).expect("open results");
    let root = PathBuf::from(j["root"].as_str().expect("root"));
    fs::create_dir_all(&root).expect("root");
    let home = std::env::current_dir().expect("cwd");
    let keep = j["keep"].as_bool().unwrap_or(false);
    for (k, case0) in j["cases"].as_array().expect("cases").iter().enumerate() {
        let croot = root.join(format!("c{k}"));
        let _ = fs::remove_dir_all(&croot);
        fs::create_dir_all(&croot).expect("case root");
        let croot_s = croot.to_string_lossy().to_string();
        let case = subst(case0, &croot_s);
        for e in case["tree"].as_array().map(|a| a.as_slice()).unwrap_or(&[]) {
            let p = croot.join(e["path"].as_str().expect("tree path"));
            if let Some(d) = p.parent() {
                fs::create_dir_all(d).expect("mkdir");
            }
            match e["kind"].as_str().unwrap_or("file") {
                "dir" => fs::create_dir_all(&p).expect("mkdir"),
                "symlink" => std::os::unix::fs::symlink(e["target"].as_str().expect("target"), &p).expect("symlink"),
                "copy" => {
                    fs::copy(e["from"].as_str().expect("from"), &p).expect("copy");
                }
                _ => fs::write(&p, e["content"].as_str().unwrap_or("")).expect("write"),
            }
        }
        let cwd = croot.join(case["cwd"].as_str().unwrap_or(""));
        fs::create_dir_all(&cwd).expect("cwd");
        let call = &case["call"];
        let env = case["env"].clone();
        let (status, message, stdout) = if call["call"] == json!("cli") {
            let mut cmd = Command::new(call["bin"].as_str().expect("cli bin"));
            for a in call["args"].as_array().expect("cli args") {
                cmd.arg(a.as_str().unwrap_or(""));
            }
            cmd.current_dir(&cwd).stdin(Stdio::null());
            cmd.env_remove("OUT_DIR");
            if let Some(m) = env.as_object() {
                for (k, v) in m {
                    match v.as_str() {
                        Some(s) => cmd.env(k, s),
                        None => cmd.env_remove(k),
                    };
                }
            }
            match cmd.output() {
                Ok(o) => {
                    let st = match o.status.code() {
                        Some(0) => "ok",
                        Some(101) => "panic",
                        Some(_) => "err",
                        None => "signal",
                    };
                    (st.to_string(), String::from_utf8_lossy(&o.stderr).to_string(), String::from_utf8_lossy(&o.stdout).to_string())
                }
                Err(e) => ("lost".to_string(), e.to_string(), String::new()),
            }
        } else if case["subprocess"].as_bool().unwrap_or(false) {
            let mut e2 = env.clone();
            if e2.get("OUT_DIR").is_none() {
                e2["OUT_DIR"] = Value::Null;
            }
            let o = spawn_child(call, Some(&cwd), &e2, None, None);
            (o.status, o.message, o.stdout)
        } else {
            std::env::remove_var("OUT_DIR");
            if let Some(m) = env.as_object() {
                for (k, v) in m {
                    match v.as_str() {
                        Some(s) => std::env::set_var(k, s),
                        None => std::env::remove_var(k),
                    }
                }
            }
            std::env::set_current_dir(&cwd).expect("chdir");
            let ((st, msg), so) = with_stdout_captured(&root.join(format!("stdout-{k}")), || run_call_caught(call));
            std::env::set_current_dir(&home).expect("chdir back");
            (st, msg, so)
        };
        let mut rs = vec![];
        let mut found = vec![];
        walk_rs(&croot, &croot, &mut found);
        for p in found {
            let data = fs::read(croot.join(&p)).unwrap_or_default();
            let mut r = json!({"phys": p.to_string_lossy(), "sha3": hex_sha3(&data), "size": data.len()});
            if case["want_tokens"].as_bool().unwrap_or(false) {
                r["tokens"] = token_digest(&String::from_utf8_lossy(&data));
            }
            rs.push(r);
        }
        let mut exp = vec![];
        for e in case["expect"].as_array().map(|a| a.as_slice()).unwrap_or(&[]) {
            let p = croot.join(e.as_str().unwrap_or(""));
            exp.push(json!({"path": e, "exists": p.is_file(), "canon": canon_rel(&p, &croot)}));
        }
        let directives: Vec<String> = stdout
            .lines()
            .filter(|l| l.starts_with("cargo:"))
            .map(|l| l.replace(&croot_s, "$ROOT"))
            .collect();
        let res = json!({"id": case["id"], "status": status, "message": message.replace(&croot_s, "$ROOT"), "rs": rs, "expect": exp,
                         "directives": directives, "stdout_lines": stdout.lines().count()});
        writeln!(out, "{}", res).expect("write");
        out.flush().expect("flush");
        if !keep {
            let _ = fs::remove_dir_all(&croot);
        }
    }
    if !keep {
        let _ = fs::remove_dir_all(&root);
    }
}
