------------------------------- MODULE MCLex -------------------------------
(***************************************************************************)
(* Model of the tokenizer machine (Lexer.tla) over the lexer definitions   *)
(* of a run (JSON file named by the environment variable LEX_CASES).       *)
(* TLC enumerates, for every definition, every input string up to its      *)
(* bound N and prints for each finished run one line                       *)
(*   @@LEX {c, w, toks: [{name, lo, hi}], end, at}                         *)
(* that the harness replays into the real lalrpop_util::lexer::Matcher and *)
(* into compiled generated parsers.                                         *)
(*   MCLex.cfg      ZeroLenIsError = TRUE   (repaired behaviour)           *)
(*   MCLexAsIs.cfg  ZeroLenIsError = FALSE  (the code as it stands)        *)
(***************************************************************************)
EXTENDS Lexer

(* zname: for a run that ended on an EMPTY longest match, the terminal that won
   it ("" if it was a skip pattern, "-" if the run did not end that way) *)
ZName == IF status \in {"zero", "loop"}
         THEN LET m == Longest(PatsOf[c], w, pos) IN PatsOf[c][Winner(PatsOf[c], m.who)].name
         ELSE "-"

Report == status # "run" =>
            PrintT("@@LEX " \o ToJson([c |-> Defs[c].id, w |-> w, toks |-> out, end |-> status,
                                        at |-> BytePos(pos), zname |-> ZName]))

(* what the specification makes of each definition (constant level) *)
ASSUME \A k \in 1..Len(Defs) :
         PrintT("@@PATS " \o ToJson([c |-> Defs[k].id,
                  pats |-> [i \in DOMAIN Pats(Defs[k]) |->
                              LET p == Pats(Defs[k])[i] IN
                              [e |-> p.e, name |-> p.name, lit |-> p.lit, skip |-> p.skip, prec |-> p.prec,
                               nullable |-> Nullable(p.re)]]]))
=============================================================================
