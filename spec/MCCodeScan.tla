----------------------------- MODULE MCCodeScan -----------------------------
(***************************************************************************)
(* Model instance of CodeScan (C26).  The catalogue below lists concrete    *)
(* Rust lexical items with, for literals, the string they denote (written  *)
(* from the Rust Reference: escapes \" \\ \' \u{..} in ordinary literals,   *)
(* none in raw ones).                                                      *)
(*                                                                         *)
(* TLC builds every action BODY of at most MaxLen items over the item set  *)
(* Cat, one item per step, keeping only Rust-like bodies (delimiters pair  *)
(* up; `,` and `;` only inside delimiters, since at depth 0 they would end *)
(* the action).  For every complete body it checks, on the sequence        *)
(* body . terminator . continuation, that the specification's scanner ends *)
(* the action exactly in front of the terminator -- for every terminator   *)
(* and a set of continuations -- and prints one JSON line: the item        *)
(* indices, the two renderings and the Rust tokens of the body.  The       *)
(* harness embeds the text in a grammar, runs the real LALRPOP on it and   *)
(* compares the action text LALRPOP captured; rustc then lexes the         *)
(* captured text and the tokens / literal values are compared.             *)
(***************************************************************************)
EXTENDS CodeScan, Json

Open(t, b)  == [t |-> t, k |-> "open", b |-> b, v |-> "", c |-> "delimiter"]
Close(t, b) == [t |-> t, k |-> "close", b |-> b, v |-> "", c |-> "delimiter"]
P(t, k)     == [t |-> t, k |-> k, b |-> "", v |-> "",
                c |-> CASE k = "life" -> "lifetime" [] k = "lcomment" -> "line_comment"
                        [] k = "bcomment" -> "block_comment" [] OTHER -> k]
(* literal: text, denoted value, class (used to describe findings) *)
LitC(t, v, c) == [t |-> t, k |-> "lit", b |-> "", v |-> v, c |-> c]
Str(t, v)   == LitC(t, v, "string")
Raw(t, v)   == LitC(t, v, "raw_string")
Chr(t, v)   == LitC(t, v, "char")

Catalogue == <<
  (*  1 *) Open("(", "paren"),  (*  2 *) Close(")", "paren"),
  (*  3 *) Open("[", "brack"),  (*  4 *) Close("]", "brack"),
  (*  5 *) Open("{", "brace"),  (*  6 *) Close("}", "brace"),
  (*  7 *) P(",", "comma"),     (*  8 *) P(";", "semi"),
  (* --- one representative of every opaque class (the "core" set) --- *)
  (*  9 *) Str("\"}\"", "}"),
  (* 10 *) Chr("'('", "("),
  (* 11 *) P("'a", "life"),
  (* 12 *) P("/* , */", "bcomment"),
  (* 13 *) P("x", "other"),
  (* --- strings containing delimiters, quotes, backslashes, comment starters --- *)
  (* 14 *) Str("\"(]\"", "(]"),
  (* 15 *) Str("\"\\\"\"", "\""),
  (* 16 *) Str("\"\\\\\"", "\\"),
  (* 17 *) Str("\",;\"", ",;"),
  (* 18 *) Str("\"'\"", "'"),
  (* 19 *) Str("\"/*\"", "/*"),
  (* 20 *) Str("\"//\"", "//"),
  (* 21 *) Str("\"<>\"", "<>"),
  (* --- raw strings with 0-2 hashes, containing quotes / a backslash / delimiters --- *)
  (* 22 *) Raw("r\"a\"", "a"),
  (* 23 *) Raw("r\"\\\"", "\\"),
  (* 24 *) Raw("r#\"a\"b\"#", "a\"b"),
  (* 25 *) Raw("r#\"}\"#", "}"),
  (* 26 *) Raw("r##\"a\"#b\"##", "a\"#b"),
  (* 27 *) Raw("r\"(\"", "("),
  (* --- byte literals --- *)
  (* 28 *) LitC("b\"}\"", "}", "byte_string"),
  (* 29 *) LitC("br#\")\"#", ")", "raw_byte_string"),
  (* 30 *) LitC("b'{'", "{", "byte_char"),
  (* --- character literals of delimiters and escapes --- *)
  (* 31 *) Chr("'}'", "}"),
  (* 32 *) Chr("'\\''", "'"),
  (* 33 *) Chr("'\"'", "\""),
  (* 34 *) Chr("'\\\\'", "\\"),
  (* 35 *) Chr("','", ","),
  (* 36 *) Chr("';'", ";"),
  (* 37 *) Chr("'\\u{7B}'", "{"),
  (* 38 *) Chr("'['", "["),
  (* --- lifetimes --- *)
  (* 39 *) P("'static", "life"),
  (* --- comments containing terminators, quotes, comment starters --- *)
  (* 40 *) P("// ) , \" '", "lcomment"),
  (* 41 *) P("// /*", "lcomment"),
  (* 42 *) P("/* } */", "bcomment"),
  (* 43 *) P("/* /* , */ \" */", "bcomment"),
  (* 44 *) P("/* ' */", "bcomment"),
  (* 45 *) P("/*)*/", "bcomment"),
  (* --- other tokens --- *)
  (* 46 *) LitC("1", "1", "number"),   (* 47 *) P("+", "other"),  (* 48 *) P("r", "other"),
  (* 49 *) P("/", "other"),   (* 50 *) P("br", "other"), (* 51 *) P("::", "other"),
  (* 52 *) P("<", "other"),   (* 53 *) P(">", "other"),  (* 54 *) P("=>", "other"),
  (* 55 *) P("#", "other"),   (* 56 *) P("!", "other")
>>

CoreSet == 1..13
FullSet == 1..Len(Catalogue)

CONSTANTS Cat, MaxLen

Terminators == {2, 4, 6, 7, 8}       \* ) ] } , ;
Continuations == {1, 6, 7, 15, 13}   \* what may follow the terminator: ( } , "\"" x

VARIABLES s, stack
vars == <<s, stack>>

Init == s = <<>> /\ stack = <<>>

Add(i) == LET it == Catalogue[i] IN
    /\ Len(s) < MaxLen
    /\ s' = Append(s, i)
    /\ CASE it.k = "open"  -> stack' = <<it.b>> \o stack
         [] it.k = "close" -> stack # <<>> /\ Head(stack) = it.b /\ stack' = Tail(stack)
         [] it.k \in {"comma", "semi"} -> stack # <<>> /\ stack' = stack
         [] OTHER -> stack' = stack

Next == \E i \in Cat : Add(i)
Spec == Init /\ [][Next]_vars

Complete == s # <<>> /\ stack = <<>>

(* ---- what the specification says about a complete body (checked by TLC) ---- *)
(* 1. it is Rust-like and nothing in it ends the action;                       *)
(* 2. whatever terminator follows, and whatever follows that, the action is    *)
(*    exactly the body.                                                        *)
BodyIsWhole == Complete => WellNested(s) /\ ActionLen(s) = Len(s)
EndsAtTerminator ==
    Complete => \A t \in Terminators : \A c \in Continuations :
                   /\ ActionLen(s \o <<t>>) = Len(s)
                   /\ ActionLen(s \o <<t, c>>) = Len(s)
(* an incomplete body never ends inside its open delimiters *)
OpenNeverEnds == stack # <<>> => ActionLen(s) = -1

ASSUME PrintT("@@CATALOGUE " \o ToJson(Catalogue))

(* reporting predicate (always TRUE) *)
Report == Complete =>
    PrintT("@@BODY " \o ToJson([ids |-> s,
                                 spaced |-> Text(s, FALSE),
                                 tight |-> Text(s, TRUE),
                                 nl |-> (Kind(s[Len(s)]) = "lcomment"),
                                 toks |-> [i \in 1..Len(Tokens(s)) |-> TokenRecord(Tokens(s)[i])]]))
=============================================================================
