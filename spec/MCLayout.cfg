SPECIFICATION Spec
CHECK_DEADLOCK FALSE
CONSTANT Pairs = FALSE
INVARIANT AllLegal
INVARIANT Report
