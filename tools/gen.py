"""Generators of core context-free grammars (populations for the LR checks).

A core grammar: {id, ts: [terminal...], nts: [nonterminal...], starts: [nt...],
prods: [{lhs, rhs: [symbol...]}]}. Terminals are lower-case, nonterminals
upper-case names. Nothing here filters by what LALRPOP does with a grammar.
"""
import itertools
import random

TS = ["a", "b", "c", "d", "e", "f", "g", "h"]
NTS = ["S", "A", "B", "C", "D", "E"]


def small_scope(max_nt=2, max_t=2, max_prods=3, max_rhs=2):
    """every grammar with <= max_nt nonterminals, <= max_t terminals,
    <= max_prods productions and right-hand sides of length <= max_rhs,
    up to renaming (symbols are used in order of first appearance is NOT
    imposed: the enumeration is plain, duplicates up to renaming are kept,
    they are cheap). Start symbol is always S; every declared nonterminal
    has at least one production."""
    out = []
    for nnt in range(1, max_nt + 1):
        for nt_ in range(1, max_t + 1):
            nts = NTS[:nnt]
            ts = TS[:nt_]
            syms = ts + nts
            rhss = [()]
            for L in range(1, max_rhs + 1):
                rhss += list(itertools.product(syms, repeat=L))
            allprods = [(l, r) for l in nts for r in rhss]
            for k in range(nnt, max_prods + 1):
                for combo in itertools.combinations(allprods, k):
                    if {l for l, _ in combo} != set(nts):
                        continue
                    used_t = {s for _, r in combo for s in r if s in ts}
                    if used_t != set(ts):
                        continue  # covered by the smaller alphabet
                    out.append({"ts": ts, "nts": nts, "starts": ["S"],
                                "prods": [{"lhs": l, "rhs": list(r)} for l, r in combo]})
    for i, g in enumerate(out):
        g["id"] = "ss%05d" % i
    return out


def random_grammar(rng, idx, max_nt=4, max_t=4, max_prods=9, max_rhs=4, p_empty=0.15, starts=1,
                   shape=None):
    """a random grammar biased towards being LR(1): expression-like shapes,
    lists, optional parts -- and plain random ones"""
    nnt = rng.randint(1, max_nt)
    nt_ = rng.randint(1, max_t)
    nts = NTS[:nnt]
    ts = TS[:nt_]
    prods = []
    shape = shape or rng.choice(["plain", "plain", "layered", "layered", "lists"])
    if shape == "plain":
        n = rng.randint(nnt, max_prods)
        lhss = list(nts) + [rng.choice(nts) for _ in range(n - nnt)]
        for l in lhss:
            if rng.random() < p_empty:
                r = []
            else:
                r = [rng.choice(ts + nts if rng.random() < 0.6 else ts) for _ in range(rng.randint(1, max_rhs))]
            prods.append({"lhs": l, "rhs": r})
    elif shape == "layered":
        # nonterminal i refers mostly to itself and to later ones (keeps many grammars LR(1))
        for i, l in enumerate(nts):
            later = nts[i + 1:] or ts
            k = rng.randint(1, 3)
            for _ in range(k):
                form = rng.random()
                t = rng.choice(ts)
                nxt = rng.choice(later) if later is not ts else rng.choice(ts)
                if form < 0.25:
                    r = [l, t, nxt]          # left recursive operator
                elif form < 0.4:
                    r = [nxt, t, l]          # right recursive
                elif form < 0.55:
                    r = [nxt]
                elif form < 0.7:
                    r = [t, l if rng.random() < 0.3 else nxt, rng.choice(ts)]
                elif form < 0.8:
                    r = []
                else:
                    r = [rng.choice(ts)] + ([nxt] if rng.random() < 0.5 else [])
                prods.append({"lhs": l, "rhs": r})
            if not any(p["lhs"] == l and l not in p["rhs"] for p in prods):
                prods.append({"lhs": l, "rhs": [rng.choice(ts)]})
    else:  # lists
        for i, l in enumerate(nts):
            later = nts[i + 1:]
            item = rng.choice(later) if later and rng.random() < 0.7 else rng.choice(ts)
            sep = rng.choice(ts)
            form = rng.random()
            if form < 0.3:
                prods += [{"lhs": l, "rhs": []}, {"lhs": l, "rhs": [l, item]}]
            elif form < 0.6:
                prods += [{"lhs": l, "rhs": [item]}, {"lhs": l, "rhs": [l, sep, item]}]
            elif form < 0.8:
                prods += [{"lhs": l, "rhs": [item]}, {"lhs": l, "rhs": [item, sep, l]}]
            else:
                prods += [{"lhs": l, "rhs": [rng.choice(ts), item] if item in nts else [item]},
                          {"lhs": l, "rhs": [rng.choice(ts)]}]
    # drop exact duplicates (two identical alternatives are always a conflict; keep a few)
    if rng.random() < 0.9:
        seen = set()
        uniq = []
        for p in prods:
            k = (p["lhs"], tuple(p["rhs"]))
            if k not in seen:
                seen.add(k)
                uniq.append(p)
        prods = uniq
    used_t = [t for t in ts if any(t in p["rhs"] for p in prods)]
    if not used_t:
        used_t = ts[:1]
        prods.append({"lhs": nts[-1], "rhs": [ts[0]]})
    st = ["S"]
    if starts > 1 and len(nts) > 1:
        st += rng.sample(nts[1:], min(starts - 1, len(nts) - 1))
    return {"id": "r%05d" % idx, "ts": used_t, "nts": nts, "starts": st, "prods": prods}


def lr1_not_lalr(rng, idx):
    """members of the classical families that are LR(1) but not LALR(1) (state
    splitting is needed), with random decoration: the construction algorithms
    only differ on such grammars"""
    a, b, c, d, e = TS[0], TS[1], TS[2], TS[3], TS[4]
    fam = rng.randrange(8)
    nts = ["S", "A", "B"]
    if fam >= 6:
        # two inconsistencies chained along one lane: the split states (A/B, follows swapped between the
        # contexts) are reached through a lane state that is itself inconsistent (C/D reduce the same body
        # with different follows), optionally with a shorter path from the start state to the split item
        n = rng.choice([1, 2])
        lane = [e] * n
        f1, f2 = (c, d)
        prods = [("S", [a, "E", f1]), ("S", [a, "F", f2]), ("S", [b, "E", f2]), ("S", [b, "F", f1]),
                 ("E", lane + ["A"]), ("F", lane + ["B"]), ("A", [TS[5]]), ("B", [TS[5]])]
        nts = ["S", "E", "F", "A", "B"]
        if rng.random() < 0.7:     # the inconsistent intermediate lane state
            u1, u2 = (a, b) if rng.random() < 0.5 else (c, d)
            prods += [("S", [a, "C", u1]), ("S", [a, "D", u2]), ("C", [e]), ("D", [e])]
            nts += ["C", "D"]
            if rng.random() < 0.7:
                prods += [("S", [b, "C", u1]), ("S", [b, "D", u2])]
        if rng.random() < 0.6:     # a shorter path to the split item
            prods += [("S", ["A", f1]), ("S", ["B", f2])]
        if rng.random() < 0.4:
            # a third item reducing the lane prefix whose follow, in ONE context only, is the token the other
            # items shift next: a genuine conflict that exists only in the split-off copy of the lane state
            g_, h_ = TS[6], TS[7]
            bad = rng.random() < 0.6
            prods += [("S", [a, "Z", g_]), ("S", [b, "Z", TS[5] if bad else h_]), ("Z", lane)]
            nts.append("Z")
        if rng.random() < 0.3:
            rng.shuffle(prods)
        used = [t for t in TS if any(t in r_ for _, r_ in prods)]
        return {"id": "x%05d" % idx, "ts": used, "nts": nts, "starts": ["S"],
                "prods": [{"lhs": l, "rhs": list(r_)} for l, r_ in prods]}
    if fam >= 4:
        # k contexts x m items over a common body, follow tokens arranged as a Latin square:
        # in each context the items have distinct follows (LR(1)), across contexts every item has
        # every follow (merging the contexts gives reduce/reduce conflicts)
        k = rng.choice([2, 3])
        m = rng.choice([2, 3])
        pre = TS[:k]
        fol = TS[:m] if rng.random() < 0.5 else TS[1:m + 1]
        items = NTS[1:1 + m]
        body = rng.choice([[e], [e, e], ["E"]])
        prods = []
        for i in range(k):
            for j in range(m):
                prods.append(("S", [pre[i], items[j], fol[(i + j) % m]]))
        for j in range(m):
            prods.append((items[j], list(body) + ([] if j == 0 or rng.random() < 0.7 else [e])))
        nts = ["S"] + items
        if body == ["E"]:
            nts.append("E")
            prods += [("E", [e]), ("E", [e, "E"])] if rng.random() < 0.5 else [("E", [e])]
        ts = list(TS)
        used = [t for t in ts if any(t in r_ for _, r_ in prods)]
        return {"id": "x%05d" % idx, "ts": used, "nts": nts, "starts": ["S"],
                "prods": [{"lhs": l, "rhs": list(r_)} for l, r_ in prods]}
    if fam == 0:
        prods = [("S", [a, "A", a]), ("S", [b, "A", b]), ("S", [a, "B", b]), ("S", [b, "B", a]), ("A", [e]), ("B", [e])]
    elif fam == 1:
        prods = [("S", [a, "A", c]), ("S", [a, "B", d]), ("S", [b, "A", d]), ("S", [b, "B", c]), ("A", [e]), ("B", [e])]
    elif fam == 2:   # longer common suffix before the split decision
        prods = [("S", [a, "A", a]), ("S", [b, "A", b]), ("S", [a, "B", b]), ("S", [b, "B", a]),
                 ("A", [e, e]), ("A", [e, "A"]), ("B", [e, e])]
    else:            # the split states are reached through a shared nonterminal
        nts = ["S", "A", "B", "C"]
        prods = [("S", [a, "A", a]), ("S", [b, "A", b]), ("S", [a, "B", b]), ("S", [b, "B", a]),
                 ("A", ["C"]), ("B", ["C", e]), ("C", [e]), ("C", [e, "C"])]
    ts = [a, b, c, d, e]
    r = rng.random()
    if r < 0.3:      # wrap: a list of S
        nts = nts + ["D"]
        prods = [("D", ["S"]), ("D", ["D", c if fam != 1 else TS[5], "S"])] + prods
        starts = ["D"]
        if fam == 1:
            ts = ts + [TS[5]]
    elif r < 0.5:    # an optional prefix
        nts = nts + ["D"]
        prods = [("D", ["S"]), ("D", [d if fam != 1 else TS[5], "S"])] + prods
        starts = ["D"]
        if fam == 1:
            ts = ts + [TS[5]]
    else:
        starts = ["S"]
    if starts != ["S"]:
        # the start symbol is called S everywhere else
        ren = {"S": "E", "D": "S"}
        nts = [ren.get(x, x) for x in nts]
        prods = [(ren.get(l, l), [ren.get(x, x) for x in r_]) for l, r_ in prods]
        starts = ["S"]
    used = [t for t in ts if any(t in r_ for _, r_ in prods)]
    order = ["S"] + [n for n in nts if n != "S"]
    return {"id": "x%05d" % idx, "ts": used, "nts": order, "starts": starts,
            "prods": [{"lhs": l, "rhs": list(r_)} for l, r_ in prods]}


def ascent_slots(rng, idx):
    """grammars whose states hold items with prefixes of different lengths (a decision deferred by a token:
    `X = p t | p B | p G u`, `B = t v`, `G = (empty)`): the recursive-ascent generator then passes some of
    the stack as optional slots"""
    a, b, c, d, e = TS[:5]
    pre = [a] if rng.random() < 0.6 else [a, b]
    t, u, v = rng.sample([c, d, e, TS[5]], 3)
    prods = [("S", pre + [t]), ("S", pre + ["A"]), ("S", pre + ["B", u]), ("A", [t, v]), ("B", [])]
    nts = ["S", "A", "B"]
    r = rng.random()
    if r < 0.3:       # the empty nonterminal also in a state with a fixed top slot
        prods.append(("S", [u, "B", v]))
    elif r < 0.5:     # one more level of deferral
        prods += [("S", pre + ["C", v]), ("C", [t, u])]
        nts.append("C")
    elif r < 0.65:    # the empty nonterminal at the end of the input
        prods.append(("S", pre + [t, "B"]))
    if rng.random() < 0.3:
        prods.append(("S", ["S", TS[5] if TS[5] not in (t, u, v) else e, "S"][:1] + [u, u]))
    ts = [x for x in TS if any(x in r_ for _, r_ in prods)]
    return {"id": "z%05d" % idx, "ts": ts, "nts": nts, "starts": ["S"], "locshape": True,
            "prods": [{"lhs": l, "rhs": list(r_)} for l, r_ in prods]}


def merged_brackets(rng, idx):
    """two bracket contexts around a shared body (lookaheads of the body's reductions get merged by LALR / an
    unsplit lane-table state): the `expected` list then has to be computed over the whole stack, through as many
    reductions as the body is long (right-recursive lists)"""
    a, b, c, d, x, y = TS[:6]
    fam = rng.randrange(3)
    if fam == 0:
        prods = [("S", [a, "A", b]), ("S", [c, "A", d]), ("A", [x, "A"]), ("A", [x])]
    elif fam == 1:
        prods = [("S", [a, "A", b]), ("S", [c, "A", d]), ("A", [x]), ("A", [x, y])]
    else:
        prods = [("S", [a, "A", b]), ("S", [c, "A", d]), ("A", ["B", "A"]), ("A", ["B"]), ("B", [x]), ("B", [y, x])]
    nts = ["S", "A"] + (["B"] if fam == 2 else [])
    ts = [t for t in TS if any(t in r for _, r in prods)]
    return {"id": "w%05d" % idx, "ts": ts, "nts": nts, "starts": ["S"], "bound": (7, 9),
            "prods": [{"lhs": l, "rhs": list(r)} for l, r in prods]}


def many_productions(idx, total=128):
    """exactly `total` productions (counting the `__X = X` of both pub symbols): the table cell type is chosen
    from the number of states / productions, 127/128 is where i8 ends"""
    ts = TS[:5]
    prods = [{"lhs": "S", "rhs": [ts[0]]}]
    n = total - 3          # S's one alternative and the two start productions
    k = 0
    for x in ts:
        for y in ts:
            for z in ts:
                if k < n:
                    prods.append({"lhs": "K", "rhs": [x, y, z]})
                    k += 1
    return {"id": "v%05d" % idx, "ts": ts, "nts": ["S", "K"], "starts": ["S", "K"], "prods": prods, "bound": (3, 3)}


def recovery_shapes(rng, idx):
    """grammars in which error recovery has to *reduce on the error lookahead* before it can shift `!`
    (a nullable or complete nonterminal directly in front of `!`), in list and bracket contexts"""
    a, b, c, d, e = TS[:5]
    fam = rng.randrange(4)
    if fam == 0:      # "(" Opt Body ")" with Opt nullable, Body = item | !
        prods = [("S", [a, "A", "B", b]), ("A", []), ("A", [d]), ("B", [c]), ("B", ["error"])]
        nts = ["S", "A", "B"]
        if rng.random() < 0.5:
            prods.append(("S", ["S", a, "A", "B", b]))
    elif fam == 1:    # a list of items, an item is a token or `!`
        prods = [("S", ["A"]), ("A", ["A", "B"]), ("A", ["B"]), ("B", [a]), ("B", [b, c]), ("B", ["error"])]
        nts = ["S", "A", "B"]
        if rng.random() < 0.5:
            prods[0] = ("S", [d, "A", d])
    elif fam == 2:    # statements with a terminator; `!` replaces a statement body, optional prefix before it
        prods = [("S", ["A"]), ("A", []), ("A", ["A", "B", c]), ("B", ["C", a]), ("B", ["C", "error"]), ("C", []), ("C", [b])]
        nts = ["S", "A", "B", "C"]
    else:             # nested brackets, `!` after a complete inner nonterminal
        prods = [("S", [a, "A", b]), ("A", ["B"]), ("A", ["B", "error"]), ("A", ["error"]), ("B", [c]), ("B", [a, "A", b])]
        nts = ["S", "A", "B"]
    ts = [t for t in TS if any(t in r for _, r in prods)]
    return {"id": "y%05d" % idx, "ts": ts, "nts": nts, "starts": ["S"], "recovery": True, "recshape": True,
            "prods": [{"lhs": l, "rhs": list(r)} for l, r in prods]}


def random_population(seed, n, **kw):
    rng = random.Random(seed)
    out = []
    for i in range(n):
        if rng.random() < 0.06:
            out.append(lr1_not_lalr(rng, i))
        else:
            out.append(random_grammar(rng, i, starts=(2 if rng.random() < 0.2 else 1), **kw))
    return out


def render_plain(g, algo_attr="", codegen_attr=""):
    """`.lalrpop` text of a core grammar with unit types and no actions that
    matter (used where only LALRPOP's verdict / automaton is needed)."""
    lines = []
    if algo_attr:
        lines.append(algo_attr)
    if codegen_attr:
        lines.append(codegen_attr)
    lines.append("grammar;")
    conv = ", ".join('"%s" => Tok::T%d(<usize>)' % (t, i) for i, t in enumerate(g["ts"]))
    lines.append("extern { type Location = usize; type Error = UErr; enum Tok { %s } }" % conv)
    for nt in g["nts"]:
        alts = [p for p in g["prods"] if p["lhs"] == nt]
        vis = "pub " if nt in g["starts"] else ""
        body = []
        for p in alts:
            syms = " ".join("!" if s == "error" else ('"%s"' % s) if s in g["ts"] else s for s in p["rhs"])
            body.append("    %s => ()," % syms)
        lines.append("%s%s: () = {\n%s\n};" % (vis, nt, "\n".join(body)))
    return "\n".join(lines) + "\n"
