-------------------------------- MODULE Prec -------------------------------
(***************************************************************************)
(* Precedence and associativity annotations (book: tutorial chapter 4;     *)
(* documentation of the precedence expander; property C12).                *)
(*                                                                         *)
(* A raw case with a field `prec` describes ONE annotated nonterminal:     *)
(*   prec = [nt    |-> its name,                                           *)
(*           lev   |-> per production of G: the level written on the       *)
(*                     alternative (#[precedence(level=..)]) or -1,        *)
(*           assoc |-> per production: "left" | "right" | "none" | "all"   *)
(*                     as written (#[assoc(side=..)]) or ""]               *)
(* (entries of productions of other nonterminals are -1 / "").             *)
(*                                                                         *)
(* Meaning: the documented tiered grammar.                                 *)
(*  - an alternative without `precedence` inherits the previous level and, *)
(*    without its own `assoc`, the previous associativity; a new           *)
(*    `precedence` resets the associativity to "all";                      *)
(*  - one tier per distinct level, lower levels bind tighter; the loosest  *)
(*    tier keeps the nonterminal's own name (that is what references from  *)
(*    elsewhere denote);                                                   *)
(*  - in an alternative of tier i the recursive occurrences become:        *)
(*    left: the first one tier i, the others tier i-1; right: the last one *)
(*    tier i, the others tier i-1; none: all tier i-1; all: all tier i;    *)
(*  - every tier but the tightest has the pass-through alternative         *)
(*    tier i -> tier i-1, whose value is the value of its symbol.          *)
(***************************************************************************)
EXTENDS Grammar, TLC

HasPrec(raw) == "prec" \in DOMAIN raw

(* productions of the annotated nonterminal, in the order written *)
PrecProds(raw) == LET S == {p \in DOMAIN raw.G.prods : raw.G.prods[p].lhs = raw.prec.nt}
                  IN [j \in 1..Cardinality(S) |->
                        CHOOSE p \in S : Cardinality({q \in S : q < p}) = j - 1]

(* effective (level, assoc) of the j-th alternative, by the inheritance rule *)
RECURSIVE EffLevel(_, _), EffAssoc(_, _)
EffLevel(raw, j) == LET p == PrecProds(raw)[j] IN
                    IF raw.prec.lev[p] >= 0 THEN raw.prec.lev[p] ELSE EffLevel(raw, j - 1)
EffAssoc(raw, j) == LET p == PrecProds(raw)[j] IN
                    IF raw.prec.assoc[p] # "" THEN raw.prec.assoc[p]
                    ELSE IF raw.prec.lev[p] >= 0 THEN "all"
                    ELSE EffAssoc(raw, j - 1)

Levels(raw) == {EffLevel(raw, j) : j \in DOMAIN PrecProds(raw)}
(* rank of a level: 1 = tightest *)
Rank(raw, l) == Cardinality({x \in Levels(raw) : x <= l})
NTiers(raw) == Cardinality(Levels(raw))

(* tier names: the loosest is the nonterminal itself *)
TierName(raw, i) == IF i = NTiers(raw) THEN raw.prec.nt ELSE raw.prec.nt \o "@" \o ToString(i)

(* substitute the recursive occurrences of one alternative *)
SubstRhs(raw, j) ==
  LET p == PrecProds(raw)[j]
      rhs == raw.G.prods[p].rhs
      i == Rank(raw, EffLevel(raw, j))
      a == EffAssoc(raw, j)
      occ == {k \in DOMAIN rhs : rhs[k] = raw.prec.nt}
      first == IF occ = {} THEN 0 ELSE CHOOSE k \in occ : \A m \in occ : k <= m
      last == IF occ = {} THEN 0 ELSE CHOOSE k \in occ : \A m \in occ : k >= m
      cur == TierName(raw, i)
      prev == IF i > 1 THEN TierName(raw, i - 1) ELSE cur   \* (no assoc is allowed on the tightest level)
  IN [k \in DOMAIN rhs |->
        IF k \notin occ THEN rhs[k]
        ELSE IF a = "all" THEN cur
        ELSE IF a = "none" THEN prev
        ELSE IF a = "left" THEN (IF k = first THEN cur ELSE prev)
        ELSE (IF k = last THEN cur ELSE prev)]

PassThroughP == [tag |-> 0, form |-> "none", esym |-> 0, exact |-> FALSE, unit |-> FALSE,
                 syms |-> << [k |-> "sym", i |-> 1, sel |-> FALSE] >>,
                 fail |-> [on |-> FALSE, s |-> 1, m |-> 1, r |-> 0]]

ApplyPrec(raw) ==
  LET pp == PrecProds(raw)
      n == NTiers(raw)
      jOf(p) == CHOOSE j \in DOMAIN pp : pp[j] = p
      isP(p) == \E j \in DOMAIN pp : pp[j] = p
      prods1 == [p \in DOMAIN raw.G.prods |->
                   IF isP(p)
                   THEN [lhs |-> TierName(raw, Rank(raw, EffLevel(raw, jOf(p)))), rhs |-> SubstRhs(raw, jOf(p))]
                   ELSE raw.G.prods[p]]
      pass == [i \in 1..(n - 1) |-> [lhs |-> TierName(raw, i + 1), rhs |-> <<TierName(raw, i)>>]]
      tiers == [i \in 1..(n - 1) |-> TierName(raw, i)]
  IN [id |-> raw.id,
      G |-> [ts |-> raw.G.ts, nts |-> raw.G.nts \o tiers, prods |-> prods1 \o pass],
      sp |-> raw.sp, n |-> raw.n, inject |-> raw.inject,
      P |-> raw.P \o [i \in 1..(n - 1) |-> PassThroughP],
      inl |-> raw.inl,
      kinds |-> raw.kinds \o [i \in 1..(n - 1) |-> "V"]]     \* (annotated operator nonterminals are declared)
=============================================================================
