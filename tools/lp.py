"""Running the real LALRPOP (lpdrv, hooks on) over batches of grammar files."""
import json
import os
import subprocess
from concurrent.futures import ThreadPoolExecutor

from vlib import BIN, ToolError, log


def _run_chunk(jobs, workdir, idx):
    """run one lpdrv process over `jobs`; restart after a job that timed out"""
    results = {}
    outs = {}
    remaining = list(jobs)
    attempt = 0
    while remaining:
        attempt += 1
        jf = os.path.join(workdir, "jobs-%d-%d.json" % (idx, attempt))
        rf = os.path.join(workdir, "res-%d-%d.ndjson" % (idx, attempt))
        with open(jf, "w") as f:
            json.dump(remaining, f)
        p = subprocess.run([os.path.join(BIN, "lpdrv"), jf, rf], capture_output=True)
        so = p.stdout.decode("utf-8", "replace")
        se = p.stderr.decode("utf-8", "replace")
        _split_marked(so, outs, "stdout")
        _split_marked(se, outs, "stderr")
        done = []
        if os.path.exists(rf):
            with open(rf) as f:
                for line in f:
                    r = json.loads(line)
                    results[r["id"]] = r
                    done.append(r["id"])
        if p.returncode == 0:
            break
        if p.returncode == 3 and done:
            # watchdog fired on the last reported job: continue after it
            last = done[-1]
            k = [j["id"] for j in remaining].index(last)
            remaining = remaining[k + 1:]
            continue
        # abort / signal: the job after the last completed one killed the process
        ids = [j["id"] for j in remaining]
        k = (ids.index(done[-1]) + 1) if done else 0
        if k < len(remaining):
            bad = remaining[k]["id"]
            results[bad] = {"id": bad, "status": "abort", "message": "lpdrv exited with %s" % p.returncode,
                            "export": None}
            remaining = remaining[k + 1:]
        else:
            break
    for i, r in results.items():
        r["stdout"] = outs.get((i, "stdout"), "")
        r["stderr"] = outs.get((i, "stderr"), "")
    return results


def _split_marked(text, outs, stream):
    cur = None
    buf = []
    for ln in text.splitlines():
        if ln.startswith("@@BEGIN "):
            cur = ln[8:].strip()
            buf = []
        elif ln.startswith("@@END "):
            if cur is not None:
                outs[(cur, stream)] = "\n".join(buf)
            cur = None
        elif cur is not None:
            buf.append(ln)
    if cur is not None:
        outs[(cur, stream)] = "\n".join(buf)


def run_jobs(jobs, workdir, procs=12):
    """jobs: list of lpdrv job dicts. Returns {id: result}."""
    if not jobs:
        return {}
    if not os.path.exists(os.path.join(BIN, "lpdrv")):
        raise ToolError("lpdrv not built")
    procs = max(1, min(procs, len(jobs)))
    chunks = [jobs[i::procs] for i in range(procs)]
    out = {}
    with ThreadPoolExecutor(max_workers=procs) as ex:
        for r in ex.map(lambda t: _run_chunk(t[1], workdir, t[0]), enumerate(chunks)):
            out.update(r)
    missing = [j["id"] for j in jobs if j["id"] not in out]
    if missing:
        raise ToolError("lpdrv produced no result for %s" % missing[:5])
    return out


# --------------------------------------------------------------------------
# turning a hook export into the data the TLA+ modules read
# --------------------------------------------------------------------------
def clean_name(n):
    """terminal names are exported as written in the grammar ("a" with quotes)"""
    if len(n) >= 2 and n[0] == '"' and n[-1] == '"':
        return n[1:-1]
    return n


def export_grammar(export):
    """the normalised grammar of an export as a Grammar.tla record (1-based prods)"""
    ts = [clean_name(t) for t in export["terminals"]]
    nts = list(export["nonterminals"])
    prods = [{"lhs": p["nt"], "rhs": [clean_name(s["n"]) if s["k"] == "t" else s["n"] for s in p["rhs"]]}
             for p in export["prods"]]
    return {"ts": ts, "nts": nts, "prods": prods}


def tok_name(t):
    return "$" if t == "Eof" else "error!" if t == "Error" else clean_name(t)


def export_automaton(export, auto):
    """states of one automaton in the shape Sim.tla / LRMachine.tla read"""
    states = []
    for st in auto["states"]:
        states.append({
            "items": [{"p": p + 1, "d": d, "la": [tok_name(t) for t in la]} for p, d, la in st["items"]],
            "shifts": {clean_name(t): s for t, s in st["shifts"]},
            "gotos": {n: s for n, s in st["gotos"]},
            "reds": [{"p": p + 1, "la": [tok_name(t) for t in la]} for p, la in st["reds"]],
        })
    return states


def start_prod(export, auto):
    for i, p in enumerate(export["prods"]):
        if p["nt"] == auto["start"]:
            return i + 1
    raise ToolError("no start production for %s" % auto["start"])
