"""Feature batches on the compiled route: one grammar rendered in several
variants that the documentation says are equivalent (C14 inlining, C15 cfg,
C25 renaming), or whose meaning Sem.tla defines by desugaring (C12, C13).
Every variant is compared with the behaviour Sem.tla prescribes for it."""
import copy
import itertools
import json
import os
import random

import c_core
import core
import gen
import vlib
from vlib import Report, cached, cargo_build_or_die, log

DEPS = c_core.DEPS + ["tools/c_feat.py"]


def _summary(kind, tier, seed, build_population, variants_fn, owner):
    cargo_build_or_die(["lpdrv", "runner"])
    key = "%s-%s-%s-%s-%d" % (kind, vlib.repo_fingerprint(), vlib.verif_fingerprint(DEPS), tier, seed)

    def build(d):
        cgs = build_population(tier, seed)
        log("%s: %d grammar variants" % (kind, len(cgs)))
        s = c_core.run_batch(cgs, tier, seed, variants_fn=variants_fn, owner=owner)
        with open(os.path.join(d, "summary.json"), "w") as f:
            json.dump(s, f)

    d = cached(key, build)
    with open(os.path.join(d, "summary.json")) as f:
        return json.load(f)


def _report(prop, tier, seed, s, rule, extra=None):
    rep = Report(prop, tier, "model_checking", seed)
    n = s["stats"]["C01"]
    rep.evaluations = n
    rep._distinct = set(range(n))
    rep.add(states=s["states"], transitions=s["generated"], traces_validated_against_impl=n,
            grammar_variants=s["grammars_lr1"], modules_compiled=s["modules"], spec_records=s["records"],
            record_kinds=s["record_kinds"], variants_rejected_by_lalrpop=s["rejected_by_lalrpop"])
    if extra:
        rep.add(**extra)
    for x in s["samples"]:
        rep.sample(x)
    for d in s["disagreements"]:
        if d["prop"] == prop:
            rep.violation(c_core.dkey(d), c_core.describe(d), c_core.replay_obj(d))
    rep.assumptions = ["TLC evaluates Sem.tla faithfully", "rustc and the harness runtime are correct",
                       "bounded inputs; small grammars"]
    return rep.finish(rule=rule)


# --------------------------------------------------------------------------
# C14: inlining
# --------------------------------------------------------------------------
def inline_population(tier, seed):
    rng = random.Random(seed * 7 + 1401)
    n_ast = 70 if tier == "quick" else 400
    out = []
    i = 0
    tries = 0
    while len([1 for cg in out if cg["id"].endswith("v0")]) < n_ast and tries < n_ast * 20:
        tries += 1
        g = gen.random_grammar(rng, i, max_nt=4, max_t=3, max_prods=8, max_rhs=3,
                               shape=rng.choice(["layered", "lists", "plain", "layered"]))
        cg = core.annotate(g, rng, p_loc=0.0, p_fallible=0.25)
        cand = core.inlinable(cg)
        # only nonterminals that are actually used somewhere are interesting
        cand = [nt for nt in cand if any(nt in p["rhs"] for p in cg["prods"])]
        if not cand:
            continue
        subsets = [()]
        allsub = [c for r in range(1, len(cand) + 1) for c in itertools.combinations(cand, r)]
        rng.shuffle(allsub)
        subsets += allsub[: (3 if tier == "quick" else 7)]
        for v, sub in enumerate(subsets):
            x = copy.deepcopy(cg)
            x["id"] = "i%04dv%d" % (i, v)
            x["inline"] = list(sub)
            out.append(x)
        i += 1
    return out


def _inline_variants(cg, idx):
    v = [("lane", "table"), ("lane", "ascent")]
    if idx % 4 == 0:
        v.append(("lr1", "table"))
    return v


def check_C14(tier, seed):
    def owner(cg, prop):
        return "C14" if cg.get("inline") and prop in ("C01", "C02", "C04", "C06", "C07", "C17", "C19", "C08") else prop + "@base"

    s = _summary("inline", tier, seed, inline_population, _inline_variants, owner)
    base_dis = [d for d in s["disagreements"] if d["prop"].endswith("@base") and not d["prop"].startswith("C05")]
    if base_dis:
        # a disagreement on the un-inlined rendering is not about inlining: other checks own it; say so
        log("C14: %d disagreement(s) on un-inlined variants (owned by C01/C02/...)" % len(base_dis))
    return _report("C14", tier, seed, s,
                   "random annotated grammars (fallible actions, all binding forms, no @L/@R); for each, the un-inlined rendering "
                   "and several subsets of its non-recursive non-pub nonterminals marked #[inline]; Sem.tla parses the grammar as "
                   "written and defers the actions of inlined nonterminals to their host (left to right, first failure wins); "
                   "each accepted variant is run on every input up to the bound: accept/reject, value, user error, action order",
                   extra={"un_inlined_disagreements": len(base_dis)})


# --------------------------------------------------------------------------
# C25: hygiene -- consistent renaming changes nothing
# --------------------------------------------------------------------------
NT_POOL = ["__0", "__action0", "__Foo", "__parse__S", "__lookahead", "__sym0", "__nt", "Token", "__ToTriple", "Variant0",
           "v", "e", "__Symbol", "__StateMachine", "__state", "__symbols", "__tokens", "__result", "__intern_token",
           "Parser", "SParser", "__S", "__reduce", "__goto", "__ACTION", "__Nonterminal", "Nonterminal", "__start", "__end",
           "input", "__lalrpop_util", "__state0", "__custom0", "__reduce0", "__pop_Variant0", "__lookbehind", "__Action",
           "ParseError", "__accepts", "__TERMINAL", "alloc", "core", "Tok2", "__1", "__Variant0", "Expr1", "Nt1"]
BIND_POOL = ["__0", "__1", "__lookahead", "__sym0", "__tokens", "__nt", "__state", "__symbols", "__start", "__end",
             "__result", "__lookbehind", "__states", "__action", "__sym1", "__2", "__token", "__integer", "__location",
             "v", "e", "__lookahead_start", "__err", "__symbol", "__next_state", "__pop_states", "__nonterminal"]
PARAM_POOL = ["__tokens", "__states", "__symbols", "__lookahead", "__0", "input", "__sym0", "__lookbehind", "__action",
              "__error_state", "__phantom", "__nt", "tokens0"]


def rename_population(tier, seed):
    rng = random.Random(seed * 11 + 2503)
    n_ast = 40 if tier == "quick" else 250
    k = 3 if tier == "quick" else 6
    out = []
    for i in range(n_ast * 3):
        if len(out) >= n_ast * (k + 1):
            break
        g = gen.random_grammar(rng, i, max_nt=4, max_t=3, max_prods=8, max_rhs=3,
                               starts=(2 if rng.random() < 0.3 else 1))
        cg = core.annotate(g, rng, p_loc=0.3, p_fallible=0.15)
        for v in range(k + 1):
            x = copy.deepcopy(cg)
            x["id"] = "h%04dv%d" % (i, v)
            x["no_machine"] = True
            if v > 0:
                names = rng.sample(NT_POOL, len(cg["nts"]))
                x["names"] = dict(zip(cg["nts"], names))
                pool = list(BIND_POOL)
                if rng.random() < 0.3:   # bindings named like the (renamed) nonterminals
                    pool = names + pool
                rng.shuffle(pool)
                x["bind_names"] = pool
                if rng.random() < 0.5:
                    x["grammar_param"] = rng.choice([p for p in PARAM_POOL if p not in pool[:12] and p not in names])
            out.append(x)
    return out


def check_C25(tier, seed):
    def owner(cg, prop):
        return "C25" if cg.get("names") and prop in ("C01", "C02", "C04", "C06", "C07", "C17", "C19", "C08") else prop + "@base"

    s = _summary("rename", tier, seed, rename_population, _inline_variants, owner)
    # verdict stability: a renaming is accepted by LALRPOP iff the base rendering is
    acc = set(s["accepted_modules"])
    rej = {m: msg for m, msg in s["rejected"]}
    extra_dis = []
    for m in sorted(acc | set(rej)):
        gid, algo, backend = m.split("_")
        if gid.endswith("v0"):
            continue
        base = "%sv0_%s_%s" % (gid[:gid.index("v")], algo, backend)
        if (m in acc) != (base in acc) and (base in acc or base in rej):
            extra_dis.append({"prop": "C25", "kind": "renaming_changes_verdict", "backend": backend, "algo": algo, "gid": gid,
                              "start": "-", "input": [], "detail": "base %s, renamed %s: %s" % (
                                  "accepted" if base in acc else "rejected", "accepted" if m in acc else "rejected",
                                  rej.get(m, rej.get(base, ""))), "facts": []})
    s["disagreements"] += extra_dis
    return _report("C25", tier, seed, s,
                   "random annotated grammars, each rendered once with plain names and several times under injective renamings of "
                   "nonterminals, bindings and a grammar parameter into identifiers that look like LALRPOP-internal names (`__0`, "
                   "`__sym0`, `__lookahead`, `__tokens`, `Token`, `Variant0`, ...; never keywords, prelude names); every rendering "
                   "must get the same verdict, compile, and match the same Sem.tla records on every input up to the bound")


REGISTRY = {"C14": check_C14, "C25": check_C25}
