\* C22: 2 file(s), header first, crashes and failing writes: CrashSafe is VIOLATED (the defect); use -continue to explore everything
SPECIFICATION Spec
CONSTANT NFiles = 2
CONSTANT Protocol = "header_first"
CONSTANT Faults = TRUE
VIEW View
CHECK_DEADLOCK FALSE
INVARIANT TypeOK
INVARIANT ReportUnsafe
INVARIANT CrashSafe
INVARIANT OutputFunctional
