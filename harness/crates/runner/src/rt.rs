//! Runtime support shared by all generated test parsers: token type, canonical
//! value rendering, the action log and the counting token stream.
use lalrpop_util::{ErrorRecovery, ParseError};
use serde_json::{json, Value};
use std::cell::{Cell, RefCell};

#[derive(Clone, Debug, PartialEq)]
pub enum Tok {
    T0(usize),
    T1(usize),
    T2(usize),
    T3(usize),
    T4(usize),
    T5(usize),
    T6(usize),
    T7(usize),
    /// a token no terminal of the grammar matches
    Unknown(usize),
}

impl Tok {
    pub fn new(kind: usize, k: usize) -> Tok {
        match kind {
            0 => Tok::T0(k),
            1 => Tok::T1(k),
            2 => Tok::T2(k),
            3 => Tok::T3(k),
            4 => Tok::T4(k),
            5 => Tok::T5(k),
            6 => Tok::T6(k),
            7 => Tok::T7(k),
            _ => Tok::Unknown(k),
        }
    }
    pub fn index(&self) -> usize {
        match *self {
            Tok::T0(k) | Tok::T1(k) | Tok::T2(k) | Tok::T3(k) | Tok::T4(k) | Tok::T5(k) | Tok::T6(k)
            | Tok::T7(k) | Tok::Unknown(k) => k,
        }
    }
}

/// user error type of every test grammar
#[derive(Clone, Debug, PartialEq)]
pub struct UErr(pub u32);

pub type PErr = ParseError<usize, Tok, UErr>;
pub type Item = Result<(usize, Tok, usize), UErr>;

/// canonical value
#[derive(Clone, Debug, PartialEq)]
pub enum V {
    Num(usize),
    Unit,
    Tuple(Vec<V>),
    Node(u32, Vec<V>),
    List(Vec<V>),
    Some(Box<V>),
    None,
    Recovered(Value),
}

impl V {
    pub fn json(&self) -> Value {
        match self {
            V::Num(n) => json!(n),
            V::Unit => json!(["u"]),
            V::Tuple(v) => {
                let mut a = vec![json!("t")];
                a.extend(v.iter().map(|x| x.json()));
                Value::Array(a)
            }
            V::Node(t, v) => {
                let mut a = vec![json!("n"), json!(t)];
                a.extend(v.iter().map(|x| x.json()));
                Value::Array(a)
            }
            V::List(v) => {
                let mut a = vec![json!("v")];
                a.extend(v.iter().map(|x| x.json()));
                Value::Array(a)
            }
            V::Some(x) => json!(["s", x.json()]),
            V::None => json!(["o"]),
            V::Recovered(x) => json!(["e", x]),
        }
    }
}

pub trait ToV {
    fn to_v(&self) -> V;
}
impl ToV for V {
    fn to_v(&self) -> V {
        self.clone()
    }
}
impl ToV for usize {
    fn to_v(&self) -> V {
        V::Num(*self)
    }
}
impl ToV for () {
    fn to_v(&self) -> V {
        V::Unit
    }
}
impl<T: ToV> ToV for Vec<T> {
    fn to_v(&self) -> V {
        V::List(self.iter().map(|x| x.to_v()).collect())
    }
}
impl<T: ToV> ToV for Option<T> {
    fn to_v(&self) -> V {
        match self {
            Some(x) => V::Some(Box::new(x.to_v())),
            None => V::None,
        }
    }
}
impl<T: ToV> ToV for Box<T> {
    fn to_v(&self) -> V {
        (**self).to_v()
    }
}
impl<T: ToV + ?Sized> ToV for &T {
    fn to_v(&self) -> V {
        (**self).to_v()
    }
}
macro_rules! tuple_tov {
    ($($n:ident),+) => {
        impl<$($n: ToV),+> ToV for ($($n,)+) {
            #[allow(non_snake_case)]
            fn to_v(&self) -> V {
                let ($($n,)+) = self;
                V::Tuple(vec![$($n.to_v()),+])
            }
        }
    };
}
tuple_tov!(A);
tuple_tov!(A, B);
tuple_tov!(A, B, C);
tuple_tov!(A, B, C, D);
tuple_tov!(A, B, C, D, E);
tuple_tov!(A, B, C, D, E, F);
tuple_tov!(A, B, C, D, E, F, G);
tuple_tov!(A, B, C, D, E, F, G, H);

pub fn perr_json(e: &PErr) -> Value {
    match e {
        ParseError::InvalidToken { location } => json!({"kind": "invalid", "loc": location}),
        ParseError::UnrecognizedEof { location, expected } => {
            json!({"kind": "eof", "loc": location, "expected": expected})
        }
        ParseError::UnrecognizedToken { token, expected } => {
            json!({"kind": "tok", "k": token.1.index(), "lo": token.0, "hi": token.2, "expected": expected})
        }
        ParseError::ExtraToken { token } => {
            json!({"kind": "extra", "k": token.1.index(), "lo": token.0, "hi": token.2})
        }
        ParseError::User { error } => json!({"kind": "user", "tag": error.0}),
    }
}

impl ToV for ErrorRecovery<usize, Tok, UErr> {
    fn to_v(&self) -> V {
        V::Recovered(json!({
            "error": perr_json(&self.error),
            "dropped": self.dropped_tokens.iter().map(|t| json!([t.0, t.1.index(), t.2])).collect::<Vec<_>>(),
        }))
    }
}

thread_local! {
    pub static PULLED: Cell<usize> = const { Cell::new(0) };
    pub static EVENTS: RefCell<Vec<(u32, usize)>> = const { RefCell::new(Vec::new()) };
    pub static RECOVERIES: RefCell<Vec<Value>> = const { RefCell::new(Vec::new()) };
}

pub fn reset() {
    PULLED.with(|p| p.set(0));
    EVENTS.with(|e| e.borrow_mut().clear());
    RECOVERIES.with(|e| e.borrow_mut().clear());
}

fn log_event(tag: u32) {
    let p = PULLED.with(|p| p.get());
    EVENTS.with(|e| e.borrow_mut().push((tag, p)));
}

/// a user action: logs (tag, tokens pulled so far) and builds the node
pub fn node(tag: u32, kids: Vec<V>) -> V {
    log_event(tag);
    V::Node(tag, kids)
}

/// a user action of a `()`-typed nonterminal: only its effect (the log entry) is observable
pub fn mark(tag: u32) {
    log_event(tag);
}

/// a fallible user action
pub fn fnode(tag: u32, kids: Vec<V>, fail: bool) -> Result<V, PErr> {
    log_event(tag);
    if fail {
        Err(ParseError::User { error: UErr(tag) })
    } else {
        Ok(V::Node(tag, kids))
    }
}

/// an action over an error-recovery symbol: remembers the recovery as seen by the action
pub fn recovered(tag: u32, r: &ErrorRecovery<usize, Tok, UErr>, lo: usize, hi: usize, kids: Vec<V>) -> V {
    log_event(tag);
    let mut j = match r.to_v() {
        V::Recovered(j) => j,
        _ => unreachable!(),
    };
    j["lo"] = json!(lo);
    j["hi"] = json!(hi);
    RECOVERIES.with(|e| e.borrow_mut().push(j.clone()));
    let mut k = vec![V::Recovered(j)];
    k.extend(kids);
    V::Node(tag, k)
}

#[macro_export]
macro_rules! kids {
    ($($e:expr),* $(,)?) => { vec![$($crate::rt::ToV::to_v(&$e)),*] };
}

/// the token stream handed to `parse`: counts pulls, refuses to run away
pub struct Stream {
    items: std::vec::IntoIter<Item>,
    budget: usize,
}

impl Stream {
    pub fn new(items: Vec<Item>) -> Stream {
        let budget = 2 * items.len() + 4;
        Stream { items: items.into_iter(), budget }
    }
}

impl Iterator for Stream {
    type Item = Item;
    fn next(&mut self) -> Option<Item> {
        if self.budget == 0 {
            panic!("token stream polled more than 2*len+4 times");
        }
        self.budget -= 1;
        let x = self.items.next();
        if x.is_some() {
            PULLED.with(|p| p.set(p.get() + 1));
        }
        x
    }
}

pub fn finish<T: ToV>(r: Result<T, PErr>) -> Value {
    let pulled = PULLED.with(|p| p.get());
    let events: Vec<Value> = EVENTS.with(|e| e.borrow().iter().map(|(t, p)| json!([t, p])).collect());
    let recs: Vec<Value> = RECOVERIES.with(|e| e.borrow().clone());
    match r {
        Ok(v) => json!({"ok": true, "value": v.to_v().json(), "events": events, "pulled": pulled, "recoveries": recs}),
        Err(e) => json!({"ok": false, "error": perr_json(&e), "events": events, "pulled": pulled, "recoveries": recs}),
    }
}
