------------------------------- MODULE Layout -------------------------------
(***************************************************************************)
(* Layout insignificance (property C26, first sentence): white space and   *)
(* `//` / nested `/* */` comments may be inserted or removed between any   *)
(* two tokens of a grammar file without changing the generated parser.     *)
(*                                                                         *)
(* A grammar is a sequence of tokens [t |-> text, k |-> class]:            *)
(*   "word"   identifier, keyword, lifetime, @L, `Name<` (a macro name is  *)
(*            written together with its `<`), =>@L ...                     *)
(*   "punct"  operators  = => : :: < > + * ? ! # .. == != ~~ !~ ->         *)
(*   "delim"  ( ) [ ] { } , ;                                              *)
(*   "str"    "literal" or r"regex"                                        *)
(*   "attr"   #![...] module attribute (one token)                         *)
(*   "code"   the Rust code of an action (everything between `=>` and the  *)
(*            terminator), "ucode" the path of a `use` item: the code is   *)
(*            "everything up to the terminator", so separators next to it  *)
(*            belong to the code -- as Rust white space / comments they do *)
(*            not change its meaning, and the text LALRPOP must emit is    *)
(*            known exactly (ExpectedCode)                                 *)
(*   "pcode"  a token pattern / match mapping after `=>` (parsed by        *)
(*            LALRPOP, not copied)                                         *)
(* gap j (0..n) is the place between token j and token j+1.                *)
(***************************************************************************)
EXTENDS Integers, Sequences, TLC

(* t: text; blank: white space only; lead / trail: the text without its
   leading / trailing white space (what remains when the code next to it is
   trimmed) *)
S(t, blank, lead, trail) == [t |-> t, blank |-> blank, lead |-> lead, trail |-> trail]
Seps == <<
  (* 1 *) S("", TRUE, "", ""),
  (* 2 *) S(" ", TRUE, "", ""),
  (* 3 *) S("\n", TRUE, "", ""),
  (* 4 *) S("\t", TRUE, "", ""),
  (* 5 *) S(" \r\n  \n", TRUE, "", ""),
  (* 6 *) S("// c ) } ] , ; \" ' /*\n", FALSE, "// c ) } ] , ; \" ' /*\n", "// c ) } ] , ; \" ' /*"),
  (* 7 *) S("/* c , ; } */", FALSE, "/* c , ; } */", "/* c , ; } */"),
  (* 8 *) S(" /* /* n */ \" ' */ ", FALSE, "/* /* n */ \" ' */ ", " /* /* n */ \" ' */"),
  (* 9 *) S("/**/", FALSE, "/**/", "/**/"),
  (* 10 *) S("\n/*/**/*/\n", FALSE, "/*/**/*/\n", "\n/*/**/*/"),
  (* 11: `/*/` inside a block comment opens a nested comment and does not close it *)
           S(" /* /*/ */ */ ", FALSE, "/* /*/ */ */ ", " /* /*/ */ */")
>>
NSeps == Len(Seps)
Plain == 2      \* the separator of the base rendering

(* tokens that may stand next to each other with nothing in between *)
MayAbut(a, b) == a.k \in {"delim", "attr", "str"} \/ b.k = "delim"

Legal(toks, j, k) ==
    IF Seps[k].t # "" THEN TRUE
    ELSE IF j = 0 \/ j = Len(toks) THEN TRUE
    ELSE MayAbut(toks[j], toks[j + 1])

RECURSIVE RenderFrom(_, _, _)
RenderFrom(toks, gaps, j) ==      \* gap j, then token j+1, ...
    IF j = Len(toks) THEN Seps[gaps[j + 1]].t
    ELSE Seps[gaps[j + 1]].t \o toks[j + 1].t \o RenderFrom(toks, gaps, j + 1)
(* gaps is a sequence of Len(toks)+1 separator indices; gaps[j+1] is gap j *)
Render(toks, gaps) == RenderFrom(toks, gaps, 0)

IsCode(tok) == tok.k \in {"code", "ucode"}
CodeIdx(toks) == {i \in 1..Len(toks) : IsCode(toks[i])}
(* what is in front of / behind the code text once it is trimmed *)
Lead(toks, gaps, i)  == Seps[gaps[i]].lead          \* gap i-1 is gaps[i]
Trail(toks, gaps, i) == Seps[gaps[i + 1]].trail     \* gap i is gaps[i+1]
ExpectedCode(toks, gaps, i) == Lead(toks, gaps, i) \o toks[i].t \o Trail(toks, gaps, i)
=============================================================================
