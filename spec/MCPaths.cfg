\* C23: every case of the scope with its expectation (one @@CASE line each)
SPECIFICATION Spec
CONSTANT Depth = 2
CONSTANT PairDepth = 1
CHECK_DEADLOCK FALSE
INVARIANT WellFormed
INVARIANT PrintCase
