SPECIFICATION Spec
CHECK_DEADLOCK FALSE
CONSTANT Locs = {0, 1, 2}
CONSTANT Toks = {"a", "b"}
CONSTANT Errs = {"x", "y"}
CONSTANT Names <- Names2
CONSTANT MaxExp = 4
INVARIANT Laws
INVARIANT Report
