SPECIFICATION Spec
CONSTANT ZeroLenIsError = FALSE
CHECK_DEADLOCK FALSE
INVARIANT TypeOK
INVARIANT TokensOrdered
INVARIANT NoTie
INVARIANT Report
PROPERTY LexProgress
