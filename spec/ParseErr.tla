------------------------------ MODULE ParseErr ------------------------------
(***************************************************************************)
(* The documented behaviour of `lalrpop_util::ParseError` and its helpers  *)
(* (property C28), written from the type's documentation:                  *)
(*                                                                         *)
(*   InvalidToken      { location }            the end of the invalid token*)
(*   UnrecognizedEof   { location, expected }                              *)
(*   UnrecognizedToken { token: (L, T, L), expected }   span = two L values*)
(*   ExtraToken        { token: (L, T, L) }                                *)
(*   User              { error }                                           *)
(*                                                                         *)
(*   map_location  "transform a ParseError by applying a function to the   *)
(*                  location field ... called multiple times to apply to   *)
(*                  the starting and ending location of tokens"            *)
(*   map_token     "... applying a function to the token field"            *)
(*   map_error     "... applying a function to the error field"            *)
(*   Display       one line naming the variant, the token and its span,    *)
(*                 followed (when the list is not empty) by a second line  *)
(*                 "Expected one of a, b or c"                             *)
(*   From<E>       builds User                                             *)
(*                                                                         *)
(* A value is a record with a variant tag `v`; a token span (L, T, L) is   *)
(* spelt start / token / end.  The module is constant level: `Values` is a *)
(* finite set, every helper is an operator over it.  MCParseErr enumerates *)
(* the set and prints the expected result of every (value, operation).     *)
(***************************************************************************)
EXTENDS Naturals, Sequences, TLC

CONSTANTS Locs,     \* the location domain L
          Toks,     \* the token domain T
          Errs,     \* the user error domain E
          Names,    \* strings that may occur in `expected`
          MaxExp    \* maximal length of `expected`

RECURSIVE Lists(_)
Lists(n) == IF n = 0 THEN {<<>>}
            ELSE LET S == Lists(n - 1) IN S \cup {Append(xs, a) : xs \in S, a \in Names}

Expecteds == Lists(MaxExp)

InvalidToken(l)            == [v |-> "InvalidToken", location |-> l]
UnrecognizedEof(l, xs)     == [v |-> "UnrecognizedEof", location |-> l, expected |-> xs]
UnrecognizedToken(s, t, e, xs) ==
    [v |-> "UnrecognizedToken", start |-> s, token |-> t, end |-> e, expected |-> xs]
ExtraToken(s, t, e)        == [v |-> "ExtraToken", start |-> s, token |-> t, end |-> e]
User(x)                    == [v |-> "User", error |-> x]

Values ==
    {InvalidToken(l) : l \in Locs}
    \cup {UnrecognizedEof(l, xs) : l \in Locs, xs \in Expecteds}
    \cup {UnrecognizedToken(s, t, e, xs) : s \in Locs, t \in Toks, e \in Locs, xs \in Expecteds}
    \cup {ExtraToken(s, t, e) : s \in Locs, t \in Toks, e \in Locs}
    \cup {User(x) : x \in Errs}

HasSpan(e)     == e.v \in {"UnrecognizedToken", "ExtraToken"}
HasLocation(e) == e.v \in {"InvalidToken", "UnrecognizedEof"}
HasExpected(e) == e.v \in {"UnrecognizedEof", "UnrecognizedToken"}

(* what a value contains, field kind by field kind (in source order) *)
Locations(e) == IF HasSpan(e) THEN <<e.start, e.end>>
                ELSE IF HasLocation(e) THEN <<e.location>> ELSE <<>>
Tokens(e)    == IF HasSpan(e) THEN <<e.token>> ELSE <<>>
UserErrors(e) == IF e.v = "User" THEN <<e.error>> ELSE <<>>
ExpectedOf(e) == IF HasExpected(e) THEN e.expected ELSE <<>>

(* ------------------------------ the helpers ----------------------------- *)
(* every location -- both ends of a token span -- goes through F; nothing
   else changes *)
MapLocation(e, F(_)) ==
    IF HasSpan(e) THEN [e EXCEPT !.start = F(@), !.end = F(@)]
    ELSE IF HasLocation(e) THEN [e EXCEPT !.location = F(@)]
    ELSE e

MapToken(e, F(_)) == IF HasSpan(e) THEN [e EXCEPT !.token = F(@)] ELSE e

MapError(e, F(_)) == IF e.v = "User" THEN [e EXCEPT !.error = F(@)] ELSE e

FromError(x) == User(x)

(* "Expected one of a, b or c": the last two names are joined by " or ",
   the others by ", "; nothing at all for an empty list *)
RECURSIVE JoinNames(_)
JoinNames(xs) == IF Len(xs) = 1 THEN xs[1]
                 ELSE IF Len(xs) = 2 THEN xs[1] \o " or " \o xs[2]
                 ELSE xs[1] \o ", " \o JoinNames(Tail(xs))

FmtExpected(xs) == IF xs = <<>> THEN "" ELSE "\nExpected one of " \o JoinNames(xs)

(* DL, DT, DE: how a location / token / user error displays *)
Display(e, DL(_), DT(_), DE(_)) ==
    CASE e.v = "User"              -> DE(e.error)
      [] e.v = "InvalidToken"      -> "Invalid token at " \o DL(e.location)
      [] e.v = "UnrecognizedEof"   -> "Unrecognized EOF found at " \o DL(e.location)
                                        \o FmtExpected(e.expected)
      [] e.v = "UnrecognizedToken" -> "Unrecognized token `" \o DT(e.token) \o "` found at "
                                        \o DL(e.start) \o ":" \o DL(e.end)
                                        \o FmtExpected(e.expected)
      [] e.v = "ExtraToken"        -> "Extra token " \o DT(e.token) \o " found at "
                                        \o DL(e.start) \o ":" \o DL(e.end)

(* ----------------------- laws the spec itself obeys --------------------- *)
(* checked by TLC for every value (MCParseErr) before the spec judges code *)
MapSeq(s, F(_)) == [i \in DOMAIN s |-> F(s[i])]
Id(x) == x

LawsFor(e, FL(_), FT(_), FE(_)) ==
    /\ MapLocation(e, Id) = e /\ MapToken(e, Id) = e /\ MapError(e, Id) = e
    /\ Locations(MapLocation(e, FL)) = MapSeq(Locations(e), FL)
    /\ Tokens(MapLocation(e, FL)) = Tokens(e)
    /\ UserErrors(MapLocation(e, FL)) = UserErrors(e)
    /\ Tokens(MapToken(e, FT)) = MapSeq(Tokens(e), FT)
    /\ Locations(MapToken(e, FT)) = Locations(e)
    /\ UserErrors(MapToken(e, FT)) = UserErrors(e)
    /\ UserErrors(MapError(e, FE)) = MapSeq(UserErrors(e), FE)
    /\ Locations(MapError(e, FE)) = Locations(e)
    /\ Tokens(MapError(e, FE)) = Tokens(e)
    /\ MapLocation(e, FL).v = e.v /\ MapToken(e, FT).v = e.v /\ MapError(e, FE).v = e.v
    /\ ExpectedOf(MapLocation(e, FL)) = ExpectedOf(e)
    /\ ExpectedOf(MapToken(e, FT)) = ExpectedOf(e)
    /\ ExpectedOf(MapError(e, FE)) = ExpectedOf(e)
=============================================================================
