------------------------------- MODULE Regex -------------------------------
(***************************************************************************)
(* Regular expressions over a finite alphabet of character classes, and    *)
(* the lexer definitions of a LALRPOP grammar (the `match` block and the   *)
(* terminals used in the grammar), written from the regex documentation    *)
(* and the book chapter doc/src/lexer_tutorial/001_lexer_gen.md -- not     *)
(* from LALRPOP's code.                                                     *)
(*                                                                         *)
(* Alphabet.  A case fixes K character classes 1..K.  The classes are      *)
(* pairwise disjoint sets of Unicode scalar values; every atom of every    *)
(* regex of the case denotes a union of classes, so two strings that agree *)
(* class by class are indistinguishable for all regexes of the case.  A    *)
(* "character" below is a class index; the harness picks one concrete      *)
(* representative per class when it talks to the real code.                *)
(*                                                                         *)
(* Source ASTs (what the generator writes and the renderer turns into      *)
(* regex / literal text), records with a field k:                          *)
(*   eps | chr(c) | set(s) | cat(xs) | alt(xs) | star(r) | plus(r) |       *)
(*   opt(r) | rep(r, m, n)   (n = -1: unbounded)                           *)
(*   look | lazy(r) | named(r)   constructs LALRPOP declares unsupported   *)
(* A quoted literal "abc" is cat(<<chr a, chr b, chr c>>).                 *)
(*                                                                         *)
(* Two independent semantics are given and checked against each other:     *)
(*   Matches(r, w)   denotational, on the source AST (splits of w)         *)
(*   Deriv / Nullable on ACI-normal forms (Brzozowski); alternation is a   *)
(*   TLA+ SET of regexes, which gives associativity, commutativity and     *)
(*   idempotence for free, hence finitely many derivatives.                *)
(***************************************************************************)
EXTENDS Naturals, Integers, Sequences, FiniteSets, TLC

Range(f) == {f[i] : i \in DOMAIN f}

(* ------------------------- normal forms -------------------------------- *)
Null == [k |-> "null"]          \* matches nothing
Eps  == [k |-> "eps"]           \* matches exactly the empty string

MkSet(S) == IF S = {} THEN Null ELSE [k |-> "set", s |-> S]

RECURSIVE MkCat(_, _)
MkCat(a, b) ==
  IF a.k = "null" \/ b.k = "null" THEN Null
  ELSE IF a.k = "eps" THEN b
  ELSE IF b.k = "eps" THEN a
  ELSE IF a.k = "cat" THEN [k |-> "cat", a |-> a.a, b |-> MkCat(a.b, b)]
  ELSE [k |-> "cat", a |-> a, b |-> b]

(* alternation of a SET of normal forms: flattened, Null dropped, the      *)
(* character sets merged into one, singleton unwrapped                      *)
MkAlt(X) ==
  LET flat   == UNION {IF x.k = "alt" THEN x.xs ELSE {x} : x \in X}
      live   == {x \in flat : x.k # "null"}
      sets   == {x \in live : x.k = "set"}
      rest   == {x \in live : x.k # "set"}
      merged == IF sets = {} THEN {} ELSE {[k |-> "set", s |-> UNION {x.s : x \in sets}]}
      Y      == rest \cup merged
  IN IF Y = {} THEN Null
     ELSE IF Cardinality(Y) = 1 THEN CHOOSE y \in Y : TRUE
     ELSE [k |-> "alt", xs |-> Y]

MkStar(r) == IF r.k \in {"null", "eps"} THEN Eps
             ELSE IF r.k = "star" THEN r
             ELSE [k |-> "star", r |-> r]

RECURSIVE Nullable(_)
Nullable(r) ==
  CASE r.k = "null" -> FALSE
    [] r.k = "eps"  -> TRUE
    [] r.k = "set"  -> FALSE
    [] r.k = "cat"  -> Nullable(r.a) /\ Nullable(r.b)
    [] r.k = "alt"  -> \E x \in r.xs : Nullable(x)
    [] r.k = "star" -> TRUE

(* Brzozowski derivative of a normal form by the character (class) c *)
RECURSIVE Deriv(_, _)
Deriv(r, c) ==
  CASE r.k = "null" -> Null
    [] r.k = "eps"  -> Null
    [] r.k = "set"  -> IF c \in r.s THEN Eps ELSE Null
    [] r.k = "cat"  -> LET d == MkCat(Deriv(r.a, c), r.b)
                       IN IF Nullable(r.a) THEN MkAlt({d, Deriv(r.b, c)}) ELSE d
    [] r.k = "alt"  -> MkAlt({Deriv(x, c) : x \in r.xs})
    [] r.k = "star" -> MkCat(Deriv(r.r, c), r)

RECURSIVE DerivW(_, _, _)
DerivW(r, w, i) == IF i > Len(w) \/ r.k = "null" THEN r ELSE DerivW(Deriv(r, w[i]), w, i + 1)
DMatches(r, w) == Nullable(DerivW(r, w, 1))

(* ----------------- source AST -> normal form --------------------------- *)
RECURSIVE Supported(_)
Supported(r) ==
  CASE r.k \in {"look", "lazy", "named"} -> FALSE
    [] r.k \in {"eps", "chr", "set"}     -> TRUE
    [] r.k \in {"cat", "alt"}            -> \A i \in DOMAIN r.xs : Supported(r.xs[i])
    [] OTHER                              -> Supported(r.r)

RECURSIVE RepN(_, _, _)
RepN(r, m, n) ==           \* r{m,n}, n < 0 unbounded
  IF m > 0 THEN MkCat(r, RepN(r, m - 1, IF n < 0 THEN n ELSE n - 1))
  ELSE IF n < 0 THEN MkStar(r)
  ELSE IF n = 0 THEN Eps
  ELSE MkAlt({Eps, MkCat(r, RepN(r, 0, n - 1))})

RECURSIVE Norm(_), NormCat(_, _)
Norm(r) ==
  CASE r.k = "eps"  -> Eps
    [] r.k = "chr"  -> MkSet({r.c})
    [] r.k = "set"  -> MkSet(Range(r.s))
    [] r.k = "cat"  -> NormCat(r.xs, 1)
    [] r.k = "alt"  -> MkAlt({Norm(r.xs[i]) : i \in DOMAIN r.xs})
    [] r.k = "star" -> MkStar(Norm(r.r))
    [] r.k = "plus" -> LET n == Norm(r.r) IN MkCat(n, MkStar(n))
    [] r.k = "opt"  -> MkAlt({Eps, Norm(r.r)})
    [] r.k = "rep"  -> RepN(Norm(r.r), r.m, r.n)
    \* unsupported constructs have no language in this model; a definition
    \* containing one is judged by Supported alone and never run
    [] r.k \in {"look", "lazy", "named"} -> Null
NormCat(xs, i) == IF i > Len(xs) THEN Eps ELSE MkCat(Norm(xs[i]), NormCat(xs, i + 1))

(* ------------- denotational semantics on the source AST ---------------- *)
Suf(w, j) == SubSeq(w, j + 1, Len(w))
Pre(w, j) == SubSeq(w, 1, j)

RECURSIVE Matches(_, _), MatchSeq(_, _, _), MatchStar(_, _), MatchRep(_, _, _, _)
Matches(r, w) ==
  CASE r.k = "eps"  -> Len(w) = 0
    [] r.k = "chr"  -> Len(w) = 1 /\ w[1] = r.c
    [] r.k = "set"  -> Len(w) = 1 /\ w[1] \in Range(r.s)
    [] r.k = "cat"  -> MatchSeq(r.xs, 1, w)
    [] r.k = "alt"  -> \E i \in DOMAIN r.xs : Matches(r.xs[i], w)
    [] r.k = "star" -> MatchStar(r.r, w)
    [] r.k = "plus" -> \E j \in 0..Len(w) : Matches(r.r, Pre(w, j)) /\ MatchStar(r.r, Suf(w, j))
    [] r.k = "opt"  -> Len(w) = 0 \/ Matches(r.r, w)
    [] r.k = "rep"  -> MatchRep(r.r, r.m, r.n, w)
MatchSeq(xs, i, w) ==
  IF i > Len(xs) THEN Len(w) = 0
  ELSE \E j \in 0..Len(w) : Matches(xs[i], Pre(w, j)) /\ MatchSeq(xs, i + 1, Suf(w, j))
(* w is a concatenation of zero or more NON-EMPTY strings matched by r    *)
(* (empty pieces add nothing, and leaving them out makes this well founded)*)
MatchStar(r, w) ==
  Len(w) = 0 \/ \E j \in 1..Len(w) : Matches(r, Pre(w, j)) /\ MatchStar(r, Suf(w, j))
MatchRep(r, m, n, w) ==
  IF m = 0 /\ n < 0 THEN MatchStar(r, w)
  ELSE IF m = 0 /\ n = 0 THEN Len(w) = 0
  ELSE \/ m = 0 /\ Len(w) = 0
       \/ \E j \in 0..Len(w) :
            /\ Matches(r, Pre(w, j))
            /\ MatchRep(r, IF m > 0 THEN m - 1 ELSE 0, IF n < 0 THEN n ELSE n - 1, Suf(w, j))

(* ======================= lexer definitions ============================== *)
(* A definition L (one grammar using the built-in lexer):                  *)
(*   K        number of character classes                                   *)
(*   bl       bl[a] = UTF-8 length in bytes of the representative of a     *)
(*   ws       the classes whose characters are white space (\s)            *)
(*   N        bound on the length of the strings explored                  *)
(*   hasmatch whether the grammar has a `match` block                       *)
(*   match    rungs, first = highest; rung = sequence of items              *)
(*              [k |-> "any"]                       the `_` item            *)
(*              [k |-> "ent", e, lit, re, skip, to]                         *)
(*                 lit  = quoted literal (TRUE) or regex (FALSE)            *)
(*                 skip = `=> { }`; to = name of the terminal produced      *)
(*   uses     literal / regex terminals written in the grammar's rules:    *)
(*              [e, lit, re, name]  (name = the terminal itself)            *)
(* e is an identifier of the entry, used only to relate patterns to the    *)
(* entries of the real lexer.                                               *)
(***************************************************************************)
RECURSIVE FlatRungs(_, _)
FlatRungs(rungs, i) ==
  IF i > Len(rungs) THEN <<>>
  ELSE [j \in 1..Len(rungs[i]) |-> [it |-> rungs[i][j], rung |-> i]] \o FlatRungs(rungs, i + 1)

(* no match block is equivalent to `match { _ }` *)
RungsOf(L) == IF L.hasmatch THEN L.match ELSE << <<[k |-> "any"]>> >>
NRungs(L)  == Len(RungsOf(L))
Flat(L)    == FlatRungs(RungsOf(L), 1)
Ents(L)    == SelectSeq(Flat(L), LAMBDA x : x.it.k = "ent")
AnyRungs(L) == {Flat(L)[i].rung : i \in {j \in DOMAIN Flat(L) : Flat(L)[j].it.k = "any"}}

(* terminals the match block lets the grammar use *)
Mentioned(L) == {Ents(L)[i].it.to : i \in {j \in DOMAIN Ents(L) : ~Ents(L)[j].it.skip}}
(* terminals of the grammar the match block does not mention: added by `_` *)
Added(L) == SelectSeq(L.uses, LAMBDA u : u.name \notin Mentioned(L))

HasSkipRule(L) == \E i \in DOMAIN Ents(L) : Ents(L)[i].it.skip

AllRegexes(L) == [i \in DOMAIN Ents(L) |-> Ents(L)[i].it.re] \o [i \in DOMAIN Added(L) |-> Added(L)[i].re]
AllSupported(L) == \A i \in DOMAIN AllRegexes(L) : Supported(AllRegexes(L)[i])

(* without `_` it is illegal to use a terminal the block does not mention *)
WellFormed(L) == /\ Cardinality(AnyRungs(L)) <= 1
                 /\ (Len(Added(L)) > 0 => AnyRungs(L) # {})

(* the patterns of the lexer: [e, name, src, re, lit, skip, prec];        *)
(* the implicit white-space skip sits above everything iff the user wrote  *)
(* no skip rule.  (Same definitions as above, bound once with LET so that   *)
(* TLC does not recompute them for every entry.)                             *)
Pats(L) ==
  LET nr        == NRungs(L)
      ents      == Ents(L)
      anyr      == AnyRungs(L)
      mentioned == {ents[i].it.to : i \in {j \in DOMAIN ents : ~ents[j].it.skip}}
      added     == SelectSeq(L.uses, LAMBDA u : u.name \notin mentioned)
      \* the earlier rung wins; within a rung a quoted literal beats a regex
      prec(rung, lit) == 2 * (nr - rung + 1) + (IF lit THEN 1 ELSE 0)
      theany    == CHOOSE r \in anyr : TRUE
      fromMatch == [i \in DOMAIN ents |->
                      LET x == ents[i] IN
                      [e |-> x.it.e, name |-> IF x.it.skip THEN "" ELSE x.it.to, src |-> x.it.re,
                       re |-> Norm(x.it.re), lit |-> x.it.lit, skip |-> x.it.skip,
                       prec |-> prec(x.rung, x.it.lit)]]
      fromUses  == [i \in DOMAIN added |->
                      LET u == added[i] IN
                      [e |-> u.e, name |-> u.name, src |-> u.re, re |-> Norm(u.re), lit |-> u.lit,
                       skip |-> FALSE, prec |-> prec(theany, u.lit)]]
      wsre      == [k |-> "plus", r |-> [k |-> "set", s |-> L.ws]]
      implicit  == IF \E i \in DOMAIN ents : ents[i].it.skip THEN <<>>
                   ELSE <<[e |-> "ws", name |-> "", src |-> wsre, re |-> Norm(wsre), lit |-> FALSE,
                           skip |-> TRUE, prec |-> 2 * nr + 2]>>
  IN fromMatch \o fromUses \o implicit

EqualPrecPairs(P) == {ij \in (DOMAIN P) \X (DOMAIN P) : ij[1] < ij[2] /\ P[ij[1]].prec = P[ij[2]].prec}

(* among the patterns `who` (those matching some string) the highest        *)
(* precedence wins; the choice is determined iff that precedence is held by  *)
(* one pattern only                                                           *)
Winner(P, who) == CHOOSE q \in who : \A r \in who : P[r].prec <= P[q].prec
UniqueBest(P, who) == \A q, r \in who : (q # r /\ P[q].prec = P[r].prec) =>
                                          \E s \in who : P[s].prec > P[q].prec

(* all strings of length <= n over 1..K *)
Strings(K, n) == UNION {[1..m -> 1..K] : m \in 0..n}
=============================================================================
