//! Rust token streams of generated files (C24): comments and white space vanish in
//! tokenisation; doc comments (which tokenise as `#[doc = ".."]` attributes) are removed
//! and counted separately, because the property lets comments differ.
//!
//! fsdrv tokens: job {files: [path]} -> one line {file, ok, tokens, docs, digest} per file
use crate::cases::hex_sha3;
use proc_macro2::{Delimiter, Spacing, TokenStream, TokenTree};
use serde_json::{json, Value};
use std::io::Write;
use std::str::FromStr;

const OPERATORS: [&str; 25] = [
    "<<=", ">>=", "...", "..=", "&&", "||", "==", "!=", "<=", ">=", "+=", "-=", "*=", "/=", "%=", "^=", "&=", "|=", "<<", ">>",
    "->", "=>", "::", "..", "<-",
];

fn is_doc_attr(g: &proc_macro2::Group) -> bool {
    if g.delimiter() != Delimiter::Bracket {
        return false;
    }
    let v: Vec<TokenTree> = g.stream().into_iter().collect();
    v.len() == 3
        && matches!(&v[0], TokenTree::Ident(i) if i == "doc")
        && matches!(&v[1], TokenTree::Punct(p) if p.as_char() == '=')
        && matches!(&v[2], TokenTree::Literal(_))
}

fn render(ts: TokenStream, out: &mut String, n: &mut usize, docs: &mut usize) {
    let v: Vec<TokenTree> = ts.into_iter().collect();
    let mut i = 0;
    while i < v.len() {
        // `#` [`!`] `[doc = "..."]`
        if let TokenTree::Punct(p) = &v[i] {
            if p.as_char() == '#' {
                let mut k = i + 1;
                if let Some(TokenTree::Punct(q)) = v.get(k) {
                    if q.as_char() == '!' {
                        k += 1;
                    }
                }
                if let Some(TokenTree::Group(g)) = v.get(k) {
                    if is_doc_attr(g) {
                        *docs += 1;
                        i = k + 1;
                        continue;
                    }
                }
            }
        }
        *n += 1;
        match &v[i] {
            TokenTree::Group(g) => {
                let (o, c) = match g.delimiter() {
                    Delimiter::Parenthesis => ("(", ")"),
                    Delimiter::Brace => ("{", "}"),
                    Delimiter::Bracket => ("[", "]"),
                    Delimiter::None => ("<none>", "</none>"),
                };
                out.push_str(o);
                out.push('\n');
                render(g.stream(), out, n, docs);
                out.push_str(c);
                out.push('\n');
            }
            TokenTree::Ident(id) => {
                out.push_str("i:");
                out.push_str(&id.to_string());
                out.push('\n');
            }
            TokenTree::Punct(_) => {
                // a run of adjacent punctuation characters is cut into Rust's operators by
                // maximal munch (what rustc's lexer and parser do); adjacency that forms no
                // operator (`,-`, `;&`) means nothing and is not compared
                let mut run = String::new();
                let mut k = i;
                loop {
                    match v.get(k) {
                        Some(TokenTree::Punct(p)) => {
                            run.push(p.as_char());
                            k += 1;
                            if p.spacing() != Spacing::Joint {
                                break;
                            }
                        }
                        _ => break,
                    }
                }
                let chars: Vec<char> = run.chars().collect();
                let mut a = 0;
                let mut first = true;
                while a < chars.len() {
                    let mut len = 1;
                    for l in (2..=3).rev() {
                        if a + l <= chars.len() {
                            let cand: String = chars[a..a + l].iter().collect();
                            if OPERATORS.contains(&cand.as_str()) {
                                len = l;
                                break;
                            }
                        }
                    }
                    let op: String = chars[a..a + len].iter().collect();
                    out.push_str("p:");
                    out.push_str(&op);
                    out.push('\n');
                    if !first {
                        *n += 1;
                    }
                    first = false;
                    a += len;
                }
                i = k;
                continue;
            }
            TokenTree::Literal(l) => {
                out.push_str("l:");
                out.push_str(&l.to_string());
                out.push('\n');
            }
        }
        i += 1;
    }
}

pub fn token_digest(text: &str) -> Value {
    match TokenStream::from_str(text) {
        Ok(ts) => {
            let (mut s, mut n, mut docs) = (String::new(), 0usize, 0usize);
            render(ts, &mut s, &mut n, &mut docs);
            json!({"ok": true, "tokens": n, "docs": docs, "digest": hex_sha3(s.as_bytes())})
        }
        Err(e) => json!({"ok": false, "error": e.to_string()}),
    }
}

/// canonical token text (for showing where two streams differ)
pub fn token_text(text: &str) -> Option<String> {
    let ts = TokenStream::from_str(text).ok()?;
    let (mut s, mut n, mut docs) = (String::new(), 0usize, 0usize);
    render(ts, &mut s, &mut n, &mut docs);
    Some(s)
}

pub fn main(job: &str, outp: &str) {
    let j: Value = serde_json::from_str(&std::fs::read_to_string(job).expect("read job")).expect("job json");
    let mut out = std::fs::File::create(outp).expect("open results");
    for f in j["files"].as_array().expect("files") {
        let p = f.as_str().unwrap_or("");
        let text = std::fs::read(p).map(|b| String::from_utf8_lossy(&b).to_string()).unwrap_or_default();
        let mut r = token_digest(&text);
        r["file"] = json!(p);
        if j["dump"].as_bool().unwrap_or(false) {
            if let Some(t) = token_text(&text) {
                let _ = std::fs::write(format!("{p}.tok"), t);
            }
        }
        writeln!(out, "{}", r).expect("write");
    }
}
