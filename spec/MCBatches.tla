----------------------------- MODULE MCBatches -----------------------------
(* constant-level instance of Output: prints Batches(Slots) *)
EXTENDS Output
CONSTANT Slots
ASSUME PrintBatches(Slots)
=============================================================================
