------------------------------ MODULE MCClash ------------------------------
(***************************************************************************)
(* Companion of MCOverlap (C11).  MCOverlap decides, pair by pair, whether  *)
(* two equal-precedence terminals share a string.  This model explores the  *)
(* product of the derivatives of ALL patterns of a definition and reports   *)
(* the strings on which the runtime matcher would really have to choose     *)
(* between equals: the highest precedence among the patterns matching the   *)
(* string is held by two of them (@@CLASH).  An overlap without a clash is  *)
(* one that a higher-precedence terminal shadows on every common string.    *)
(* It only serves to CLASSIFY a disagreement found by MCOverlap.            *)
(***************************************************************************)
EXTENDS Regex, Json, IOUtils

Defs == JsonDeserialize(IOEnv.LEX_CASES)
NC   == Len(Defs)
Usable(k) == WellFormed(Defs[k]) /\ AllSupported(Defs[k])
PatsOf == [k \in 1..NC |-> IF Usable(k) THEN Pats(Defs[k]) ELSE <<>>]

VARIABLES c, ds, path
vars == <<c, ds, path>>
View == <<c, ds>>

Init == /\ c \in {k \in 1..NC : Usable(k)}
        /\ ds = [q \in DOMAIN PatsOf[c] |-> PatsOf[c][q].re]
        /\ path = <<>>

Next == \E a \in 1..Defs[c].K :
          LET e == [q \in DOMAIN ds |-> Deriv(ds[q], a)] IN
          /\ Cardinality({q \in DOMAIN e : e[q].k # "null"}) >= 2
          /\ ds' = e
          /\ path' = Append(path, a)
          /\ UNCHANGED c

Spec == Init /\ [][Next]_vars

ReportClash ==
  LET who == {q \in DOMAIN ds : Nullable(ds[q])} IN
  ~UniqueBest(PatsOf[c], who) =>
     PrintT("@@CLASH " \o ToJson([c |-> Defs[c].id, path |-> path,
                                  who |-> {PatsOf[c][q].e : q \in who}]))
=============================================================================
