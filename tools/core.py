"""Annotated core grammars ("cg"): a core CFG plus, per alternative, how it is
written in the .lalrpop file (bindings, @L/@R, action form, types).

  cg = {id, ts, nts, starts, kinds: {nt: "V"|"unit"|"infer"},
        prods: [{lhs, rhs, tag, form, syms, fail, mut}]}
  syms: [{"k": "sym", "i": 1-based index into rhs, "sel": bool} | {"k": "L"|"R", "i": #rhs symbols before, "sel": bool}]
  form: "user" (named bindings) | "usera" (anonymous, `<>`) | "fallible" | "none"

`eval_case` gives the record Sem.tla reads; `render` the .lalrpop text.
"""
import random

BACKENDS = {"table": "", "ascent": "#[recursive_ascent]"}
ALGOS = {"lane": ("", "default"), "lr1": ("", "disabled"), "lalr": ("#[LALR]", "disabled")}


def add_recovery(g, rng):
    """add one or two alternatives containing the error terminal `!` (named "error")"""
    g = dict(g)
    prods = [dict(p) for p in g["prods"]]
    for _ in range(rng.randint(1, 2)):
        base = rng.choice(prods)
        form = rng.random()
        t = rng.choice(g["ts"])
        if form < 0.3:
            rhs = ["error"]
        elif form < 0.55:
            rhs = ["error", t]
        elif form < 0.75:
            rhs = [t, "error", rng.choice(g["ts"])]
        elif form < 0.9 and base["rhs"]:
            rhs = list(base["rhs"])
            rhs[rng.randrange(len(rhs))] = "error"
        else:
            rhs = [base["lhs"], "error"]
        prods.append({"lhs": base["lhs"], "rhs": rhs})
    g["prods"] = prods
    g["recovery"] = True
    return g


def add_markers(g, rng):
    """mid-rule marker nonterminals: `M: () = => mark(t);` inserted into one or two alternatives
    (an empty, ()-typed alternative whose user code only has a side effect)"""
    g = dict(g)
    prods = [dict(p, rhs=list(p["rhs"])) for p in g["prods"]]
    nts = list(g["nts"])
    names = [n for n in ("M", "N") if n not in nts]
    for name in names[:rng.choice([1, 1, 2])]:
        cands = [p for p in prods if len(p["rhs"]) >= 1 and p["lhs"] not in ("M", "N")]
        if not cands:
            break
        p = rng.choice(cands)
        pos = rng.randint(1, len(p["rhs"])) if rng.random() < 0.8 else 0
        p["rhs"].insert(pos, name)
        nts.append(name)
        prods.append({"lhs": name, "rhs": []})
    g["prods"] = prods
    g["nts"] = nts
    g["markers"] = [n for n in names if n in nts]
    return g


def annotate(g, rng, p_loc=0.35, p_fallible=0.15):
    nts = g["nts"]
    kinds = {}
    for nt in nts:
        r = rng.random()
        kinds[nt] = "V" if (nt in g["starts"] or r < 0.6) else ("unit" if r < 0.75 else "infer")
        if any(p["lhs"] == nt and "error" in p["rhs"] for p in g["prods"]):
            kinds[nt] = "V"
        if nt in g.get("markers", []):
            kinds[nt] = "unit"
    # `infer` only for nonterminals with a single alternative mentioning no infer nonterminal and not itself
    for nt in nts:
        if kinds[nt] == "infer":
            alts = [p for p in g["prods"] if p["lhs"] == nt]
            if len(alts) != 1 or any(s in nts and (kinds[s] == "infer" or s == nt) for s in alts[0]["rhs"]):
                kinds[nt] = "V"
            elif not alts[0]["rhs"]:
                kinds[nt] = "unit"  # an empty alternative needs `=> ()`, which rules out inference
    prods = []
    for n, p in enumerate(g["prods"]):
        rhs = list(p["rhs"])
        kind = kinds[p["lhs"]]
        syms = []
        for i in range(len(rhs) + 1):
            if rng.random() < p_loc:
                syms.append({"k": rng.choice(["L", "R"]), "i": i, "sel": False})
            if i < len(rhs):
                syms.append({"k": "sym", "i": i + 1, "sel": False})
        term_pos = [j for j, s in enumerate(syms) if s["k"] == "sym" and rhs[s["i"] - 1] in g["ts"]]
        fail = {"on": False}
        mut = []
        if "error" in rhs:
            # `... <l:@L> <e:!> <r:@R> ...`: the action gets the recovery and the span of the error symbol
            e = rhs.index("error")
            syms = []
            for i in range(len(rhs)):
                if i == e:
                    syms.append({"k": "L", "i": i, "sel": False})
                    syms.append({"k": "sym", "i": i + 1, "sel": False})
                    syms.append({"k": "R", "i": i + 1, "sel": False})
                else:
                    syms.append({"k": "sym", "i": i + 1, "sel": rng.random() < 0.8})
            prods.append({"lhs": p["lhs"], "rhs": rhs, "tag": n + 1, "form": "recover", "syms": syms, "fail": fail,
                          "mut": [], "esym": [j for j, s in enumerate(syms) if s["k"] == "sym" and s["i"] == e + 1][0] + 1})
            continue
        if kind == "V":
            r = rng.random()
            single_v = [j for j, s in enumerate(syms) if s["k"] == "sym" and rhs[s["i"] - 1] in nts
                        and kinds[rhs[s["i"] - 1]] == "V"]
            if r < 0.12 and single_v:
                form = "none"  # pass a single V through: `<A> "x"` or just `A`
                j = rng.choice(single_v)
                if len(syms) > 1:
                    syms[j]["sel"] = True
            elif r < 0.12 + p_fallible and term_pos:
                form = "fallible"
                for s in syms:
                    s["sel"] = rng.random() < 0.8
                j = rng.choice(term_pos)
                syms[j]["sel"] = True
                m = rng.choice([2, 3])
                fail = {"on": True, "s": j + 1, "m": m, "r": rng.randrange(m)}
            elif r < 0.6:
                form = "user"
                for s in syms:
                    s["sel"] = rng.random() < 0.75
                mut = [j for j, s in enumerate(syms) if s["sel"] and rng.random() < 0.15]
            else:
                form = "usera"
                if rng.random() < 0.5:
                    for s in syms:
                        s["sel"] = rng.random() < 0.5
        elif kind == "unit" and (rng.random() < 0.5 or p["lhs"] in g.get("markers", [])):
            form = "useru"     # `=> mark(tag)`: user code run for its side effect, also on empty alternatives
            for s in syms:
                s["sel"] = rng.random() < 0.4
        else:
            form = "none"
            if rng.random() < 0.4:
                for s in syms:
                    s["sel"] = rng.random() < 0.5
        prods.append({"lhs": p["lhs"], "rhs": rhs, "tag": n + 1, "form": form, "syms": syms, "fail": fail,
                      "mut": mut})
    cg = dict(g)
    cg["kinds"] = kinds
    cg["prods"] = prods
    return cg


def tla_grammar(cg):
    """(G, start production index per start symbol) with `__S = S` appended"""
    prods = [{"lhs": p["lhs"], "rhs": p["rhs"]} for p in cg["prods"]]
    sp = {}
    nts = list(cg["nts"])
    for s in cg["starts"]:
        prods.append({"lhs": "__" + s, "rhs": [s]})
        nts.append("__" + s)
        sp[s] = len(prods)
    ts = list(cg["ts"]) + (["error"] if cg.get("recovery") else [])
    return {"ts": ts, "nts": nts, "prods": prods}, sp


def eval_case(cg, start, n, inject):
    G, sp = tla_grammar(cg)
    P = []
    for p in cg["prods"]:
        P.append({"tag": p["tag"], "form": "user" if p["form"] in ("usera", "useru") else p["form"], "esym": p.get("esym", 0),
                  "exact": p["form"] in ("user", "fallible", "recover", "useru"), "unit": cg["kinds"][p["lhs"]] == "unit", "syms": p["syms"],
                  "fail": p["fail"] if p["fail"]["on"] else {"on": False, "s": 1, "m": 1, "r": 0}})
    for s in cg["starts"]:
        P.append({"tag": 0, "form": "start", "esym": 0, "exact": False, "unit": False, "syms": [{"k": "sym", "i": 1, "sel": False}],
                  "fail": {"on": False, "s": 1, "m": 1, "r": 0}})
    case = {"id": "%s@%s" % (cg["id"], start), "G": G, "sp": sp[start], "n": n, "inject": inject, "P": P,
            "inl": list(cg.get("inline", [])),
            "kinds": [cg["kinds"].get(nt, "V") for nt in G["nts"]]}
    if cg.get("prec"):
        pr = cg["prec"]
        n = len(G["prods"])
        case["prec"] = {"nt": pr["nt"], "lev": [pr["lev"].get(str(i), -1) for i in range(n)],
                        "assoc": [pr["assoc"].get(str(i), "") for i in range(n)]}
    if cg.get("cfg"):
        c = cg["cfg"]
        case["feats"] = list(cg.get("features", []))
        case["cfgp"] = [list(c["alt"].get(str(i), [])) + list(c["nt"].get(p["lhs"], [])) for i, p in enumerate(cg["prods"])]
        case["cfgp"] += [list(c["nt"].get(s, [])) for s in cg["starts"]]   # `__S = S` lives and dies with S
        case["cfgt"] = [list(c["t"].get(t, [])) for t in G["ts"]]
    return case


def nt_name(cg, nt):
    return cg.get("names", {}).get(nt, nt)


def bind_name(cg, j):
    pool = cg.get("bind_names")
    if not pool:
        return "x%d" % j
    return pool[j % len(pool)] if j < len(pool) else "%s_%d" % (pool[j % len(pool)], j)


def _symtext(cg, p, s):
    if s["k"] == "L":
        return "@L"
    if s["k"] == "R":
        return "@R"
    x = p["rhs"][s["i"] - 1]
    if x == "error":
        return "!"
    return '"%s"' % x if x in cg["ts"] else nt_name(cg, x)


def render_alt(cg, p):
    form = p["form"]
    parts = []
    names = []
    if form == "recover":
        e = p["esym"] - 1
        for j, s in enumerate(p["syms"]):
            t = _symtext(cg, p, s)
            if j == e - 1:
                parts.append("<el:%s>" % t)
            elif j == e:
                parts.append("<ee:%s>" % t)
            elif j == e + 1:
                parts.append("<er:%s>" % t)
            elif s["sel"]:
                names.append(bind_name(cg, j))
                parts.append("<%s:%s>" % (bind_name(cg, j), t))
            else:
                parts.append(t)
        return "%s => recovered(%d, &ee, el, er, kids![%s])," % (" ".join(parts), p["tag"], ", ".join(names))
    for j, s in enumerate(p["syms"]):
        t = _symtext(cg, p, s)
        if form in ("user", "fallible", "useru"):
            if s["sel"]:
                nm = bind_name(cg, j)
                names.append(nm)
                parts.append("<%s%s:%s>" % ("mut " if j in p.get("mut", []) else "", nm, t))
            else:
                parts.append(t)
        else:
            parts.append("<%s>" % t if s["sel"] else t)
    body = " ".join(parts)
    if form == "user":
        gp = cg.get("grammar_param")
        if gp:
            return "%s => node(%d + (%s as u32), kids![%s])," % (body, p["tag"], gp, ", ".join(names))
        return "%s => node(%d, kids![%s])," % (body, p["tag"], ", ".join(names))
    if form == "useru":
        return "%s => mark(%d)," % (body, p["tag"])
    if form == "usera":
        return "%s => node(%d, kids!(<>))," % (body, p["tag"])
    if form == "fallible":
        f = p["fail"]
        cond = "%s %% %d == %d" % (bind_name(cg, f["s"] - 1), f["m"], f["r"])
        return "%s =>? fnode(%d, kids![%s], %s)," % (body, p["tag"], ", ".join(names), cond)
    return "%s," % body


def render_pred(p):
    if p["k"] == "feature":
        return 'feature = "%s"' % p["n"]
    if p["k"] == "not":
        return "not(%s)" % render_pred(p["a"])
    return "%s(%s)" % (p["k"], ", ".join(render_pred(x) for x in p["args"]))


def cfg_attrs(preds):
    return "".join("#[cfg(%s)] " % render_pred(p) for p in preds)


def render(cg, algo="lane", backend="table"):
    lines = ["use crate::rt::*;", "use crate::kids;"]
    a = ALGOS[algo][0]
    if a:
        lines.append(a)
    b = BACKENDS[backend]
    if b:
        lines.append(b)
    gp = cg.get("grammar_param")
    lines.append("grammar%s;" % (("(%s: usize)" % gp) if gp else ""))
    cfg = cg.get("cfg") or {"nt": {}, "alt": {}, "t": {}}
    convs = []
    for i, t in enumerate(cg["ts"]):
        alt = (cg.get("conv2") or {}).get(t)
        if alt:
            # two conversions for one terminal under complementary predicates: exactly one survives
            convs.append('#[cfg(%s)] "%s" => Tok::T%d(<usize>)' % (render_pred(alt["pred"]), t, i))
            convs.append('#[cfg(not(%s))] "%s" => Tok::T%d(<usize>)' % (render_pred(alt["pred"]), t, alt["kind"]))
        else:
            convs.append('%s"%s" => Tok::T%d(<usize>)' % (cfg_attrs(cfg["t"].get(t, [])), t, i))
    conv = ", ".join(convs)
    lines.append("extern { type Location = usize; type Error = UErr; enum Tok { %s } }" % conv)
    for nt in cg["nts"]:
        alts = [p for p in cg["prods"] if p["lhs"] == nt]
        vis = "pub " if nt in cg["starts"] else ""
        if nt in cg.get("inline", []):
            vis = "#[inline] " + vis
        vis = cfg_attrs(cfg["nt"].get(nt, [])) + vis
        kind = cg["kinds"][nt]
        ty = {"V": ": V", "unit": ": ()", "infer": ""}[kind]
        body = []
        for p in alts:
            pi = str(cg["prods"].index(p))
            pre = "    " + cfg_attrs(cfg["alt"].get(pi, []))
            if cg.get("prec") and pi in cg["prec"]["lev"]:
                pre += '#[precedence(level="%d")] ' % cg["prec"]["lev"][pi]
            if cg.get("prec") and pi in cg["prec"]["assoc"]:
                pre += '#[assoc(side="%s")] ' % cg["prec"]["assoc"][pi]
            if p["form"] == "useru" and not p["syms"]:
                body.append(pre + "=> mark(%d)," % p["tag"])
            elif p["form"] == "none" and not p["syms"]:
                body.append(pre + "=> (),")  # an empty alternative needs `=>`; `()` is "no code"
            else:
                body.append(pre + render_alt(cg, p))
        lines.append("%s%s%s = {\n%s\n};" % (vis, nt_name(cg, nt), ty, "\n".join(body)))
    return "\n".join(lines) + "\n"


def run_case(cg, start, n, inject, export, auto, backend, cid):
    """the record LRMachine.tla reads: the core grammar (terminals in LALRPOP's
    order) with the exported automaton re-indexed to the core productions"""
    import lp
    G, sp = tla_grammar(cg)
    ec = eval_case(cg, start, n, inject)
    ts = [lp.clean_name(t) for t in export["terminals"]]
    if sorted(ts) != sorted(G["ts"]):
        return None
    G["ts"] = ts
    # map exported production indices to core indices by (lhs, rhs), in order of occurrence
    mine = {}
    for i, p in enumerate(G["prods"]):
        mine.setdefault((p["lhs"], tuple(p["rhs"])), []).append(i + 1)
    eg = lp.export_grammar(export)
    remap = {}
    for i, p in enumerate(eg["prods"]):
        k = (p["lhs"], tuple(p["rhs"]))
        if p["lhs"] in ("@L", "@R") and not p["rhs"]:
            remap[i + 1] = 0   # the lookaround nonterminals are inlined everywhere; their definitions stay behind
            continue
        if k not in mine or not mine[k]:
            return None
        remap[i + 1] = mine[k].pop(0)
    states = lp.export_automaton(export, auto)
    for st in states:
        for it in st["items"]:
            it["p"] = remap[it["p"]]
        for r in st["reds"]:
            r["p"] = remap[r["p"]]
        if any(it["p"] == 0 for it in st["items"]) or any(r["p"] == 0 for r in st["reds"]):
            return None
    return {"id": cid, "G": G, "sp": sp[start], "n": n, "inject": inject, "P": ec["P"],
            "recovery": bool(export["uses_error_recovery"]), "backend": backend, "states": states,
            "pmap": [remap[i + 1] for i in range(len(eg["prods"]))]}


def inlinable(cg):
    """non-pub nonterminals that are not recursive (directly or indirectly)"""
    refs = {nt: set() for nt in cg["nts"]}
    for p in cg["prods"]:
        for x in p["rhs"]:
            if x in refs:
                refs[p["lhs"]].add(x)

    def reaches(a, b, seen):
        for x in refs[a]:
            if x == b:
                return True
            if x not in seen:
                seen.add(x)
                if reaches(x, b, seen):
                    return True
        return False

    return [nt for nt in cg["nts"] if nt not in cg["starts"] and not reaches(nt, nt, set())]


def prec_grammar(rng, idx, helper=False):
    """one annotated operator nonterminal E (atoms, prefix, postfix, binary, ternary alternatives over
    random levels and associativities, with inherited levels / associativities) under a start symbol S"""
    ops = ["b", "c", "d", "e"]
    nlev = rng.choice([2, 2, 3, 3, 4])
    levels = sorted(rng.sample([0, 1, 2, 3, 5, 8, 13, 40], nlev))
    alts = []   # (level, assoc wanted, rhs)
    alts.append((levels[0], "all", ["a"]))
    if rng.random() < 0.3:
        alts.append((levels[0], "all", [rng.choice(ops), "E", rng.choice(ops)] if rng.random() < 0.5 else ["f"]))
    if rng.random() < 0.25:
        alts.append((levels[0], "all", [rng.choice(ops[2:]), "E"]))   # prefix operator on the tightest level
    used = set()
    for lv in levels[1:]:
        for _ in range(rng.choice([1, 1, 2])):
            shape = rng.random()
            op = rng.choice([o for o in ops if o not in used] or ops)
            used.add(op)
            if shape < 0.55:
                alts.append((lv, rng.choice(["left", "right", "none", "left", "all"]), ["E", op, "E"]))
            elif shape < 0.7:
                alts.append((lv, rng.choice(["all", "right", "none"]), [op, "E"]))
            elif shape < 0.82:
                alts.append((lv, rng.choice(["all", "left", "none"]), ["E", op]))
            else:
                op2 = rng.choice(ops)
                alts.append((lv, rng.choice(["left", "right", "none"]), ["E", op, "E", op2, "E"]))
    # order: mostly by level, sometimes interleaved
    first = alts[0]
    rest = alts[1:]
    if rng.random() < 0.35:
        rng.shuffle(rest)
    alts = [first] + rest
    ts = sorted({x for _, _, r in alts for x in r if x != "E"})
    prods = []
    prec = {"nt": "E", "lev": {}, "assoc": {}}
    start_forms = rng.random()
    if start_forms < 0.6:
        prods.append({"lhs": "S", "rhs": ["E"]})
    else:
        t = rng.choice(ts)
        prods.append({"lhs": "S", "rhs": ["E"]})
        prods.append({"lhs": "S", "rhs": [t, "E", t] if rng.random() < 0.5 else ["S", "g", "E"]})
        ts = sorted(set(ts) | {"g"}) if "g" in prods[-1]["rhs"] else ts
    nts = ["S", "E"]
    if helper:   # another nonterminal next to the annotated one (used by the renaming check)
        prods.append({"lhs": "S", "rhs": ["H", "E"]})
        prods.append({"lhs": "H", "rhs": ["h"]})
        ts = sorted(set(ts) | {"h"})
        nts = ["S", "H", "E"]
    base = len(prods)
    prev_lv, prev_as = None, None
    for j, (lv, a, rhs) in enumerate(alts):
        k = str(base + j)
        write_prec = (lv != prev_lv) or rng.random() < 0.3
        if write_prec:
            prec["lev"][k] = lv
            inherited = "all"
        else:
            inherited = prev_as
        if a != inherited or (a != "all" and rng.random() < 0.3) or (a == "all" and lv != levels[0] and rng.random() < 0.1):
            if not (lv == levels[0]):      # no associativity may be written on the tightest level
                prec["assoc"][k] = a
            else:
                a = inherited if inherited in ("all",) else "all"
        prev_lv, prev_as = lv, (prec["assoc"].get(k) or inherited)
        prods.append({"lhs": "E", "rhs": rhs})
    g = {"id": "p%04d" % idx, "ts": ts, "nts": nts, "starts": ["S"], "prods": prods}
    cg = annotate(g, rng, p_loc=0.0, p_fallible=0.0)
    # all alternatives of E and S are user actions over named symbols; E occurrences always handed
    for p in cg["prods"]:
        p["form"] = "user"
        p["fail"] = {"on": False}
        for s_ in p["syms"]:
            if s_["k"] == "sym" and p["rhs"][s_["i"] - 1] in ("E", "S"):
                s_["sel"] = True
    cg["kinds"] = {nt: "V" for nt in nts}
    cg["prec"] = prec
    cg["levels"] = levels
    cg["no_machine"] = True
    cg["bound"] = (5, 7)   # operator sequences: a op a op a needs five tokens
    return cg


def min_lengths(cg):
    INF = 10 ** 6
    ml = {nt: INF for nt in cg["nts"]}
    ch = True
    while ch:
        ch = False
        for p in cg["prods"]:
            if "error" in p["rhs"]:
                continue
            v = sum((1 if x in cg["ts"] else ml[x]) for x in p["rhs"])
            if v < ml[p["lhs"]]:
                ml[p["lhs"]] = v
                ch = True
    return ml


def random_sentence(cg, start, rng, target=24):
    """a sentence of `start` by random derivation (None if it derives nothing)"""
    ml = min_lengths(cg)
    if ml[start] >= 10 ** 6:
        return None
    out = []

    def expand(nt, budget, depth):
        alts = [p for p in cg["prods"] if p["lhs"] == nt and "error" not in p["rhs"]]
        def cost(p):
            return sum((1 if x in cg["ts"] else ml[x]) for x in p["rhs"])
        ok = [p for p in alts if cost(p) <= max(budget, ml[nt])]
        if depth > 40 or not ok:
            ok = [min(alts, key=cost)]
        # prefer longer alternatives while there is budget
        p = rng.choice(ok if budget > ml[nt] else [min(ok, key=cost)])
        rest = budget - cost(p)
        for x in p["rhs"]:
            if x in cg["ts"]:
                out.append(x)
            else:
                share = ml[x] + (rng.randint(0, max(rest, 0)) if rest > 0 else 0)
                before = len(out)
                expand(x, share, depth + 1)
                rest -= max(0, (len(out) - before) - ml[x])

    expand(start, target, 0)
    return out[:80]


def long_inputs(cg, start, rng, k=6, target=24):
    """sentences and single-token mutations of sentences"""
    res = []
    for _ in range(k):
        s = random_sentence(cg, start, rng, target=rng.choice([8, 16, target, 2 * target]))
        if s is None:
            break
        r = rng.random()
        if r < 0.4 or not s:
            pass
        elif r < 0.6:
            del s[rng.randrange(len(s))]
        elif r < 0.8:
            s.insert(rng.randint(0, len(s)), rng.choice(cg["ts"]))
        else:
            s[rng.randrange(len(s))] = rng.choice(cg["ts"])
        if s not in res and len(s) > 0:
            res.append(s)
    return res


def pred_holds(p, feats):
    """(population side only: which token kind the harness has to feed; the specification evaluates
    predicates in Cfg.tla)"""
    if p["k"] == "feature":
        return p["n"] in feats
    if p["k"] == "not":
        return not pred_holds(p["a"], feats)
    if p["k"] == "all":
        return all(pred_holds(x, feats) for x in p["args"])
    return any(pred_holds(x, feats) for x in p["args"])


def tok_kind(cg, t):
    alt = (cg.get("conv2") or {}).get(t)
    if alt and not pred_holds(alt["pred"], cg.get("features", [])):
        return alt["kind"]
    return cg["ts"].index(t)


def parse_args(cg):
    """extra leading arguments of `parse` (grammar parameters)"""
    if cg.get("generic"):
        return "0, &[0u8][..], "
    return "0, " if cg.get("grammar_param") else ""
