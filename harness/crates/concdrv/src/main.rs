//! usage: concdrv replay <schedules.ndjson> <out.ndjson>
//!        concdrv free <threads> <parses per thread> <seed> <trace.ndjson>
use concdrv::*;
use serde_json::{json, Value};
use std::io::{BufRead, Write};
use std::sync::atomic::Ordering;
use std::sync::Arc;

fn text_of(raw: &[String], rng: &mut u64, fancy: bool) -> String {
    let mut parts = Vec::new();
    for r in raw {
        let n = if fancy { 1 + (next(rng) % 4) as usize } else { 1 };
        let mut s = String::new();
        for _ in 0..n {
            let c = if r == "1" {
                (b'0' + (next(rng) % 10) as u8) as char
            } else {
                (b'a' + (next(rng) % 26) as u8) as char
            };
            s.push(if fancy { c } else if r == "1" { '7' } else { 'q' });
        }
        parts.push(s);
    }
    let sep = if fancy && next(rng) % 3 == 0 { "  \n" } else { " " };
    parts.join(sep)
}

fn next(s: &mut u64) -> u64 {
    *s ^= *s << 13;
    *s ^= *s >> 7;
    *s ^= *s << 17;
    *s
}

fn run_one(grammar: &str, pi: &intern::LParser, pe: &ext::LParser, raw: &[String], rng: &mut u64, fancy: bool) -> Result<i64, String> {
    if grammar == "intern" {
        let text = text_of(raw, rng, fancy);
        pi.parse(&text).map_err(|e| format!("{e:?}"))
    } else {
        let it = GateIter { toks: raw.iter().map(|r| raw_to_tok(r)).collect(), pos: 0, done: false };
        pe.parse(it).map_err(|e| format!("{e:?}"))
    }
}

fn replay(inp: &str, out: &str) {
    let f = std::io::BufReader::new(std::fs::File::open(inp).expect("open schedules"));
    let mut o = std::io::BufWriter::new(std::fs::File::create(out).expect("create out"));
    REPLAY.store(true, Ordering::SeqCst);
    // ONE parser value of each kind for the whole run, shared by every thread of every schedule
    let pi = Arc::new(intern::LParser::new());
    let pe = Arc::new(ext::LParser::new());
    for line in f.lines() {
        let line = line.unwrap();
        if line.trim().is_empty() {
            continue;
        }
        let rec: Value = serde_json::from_str(&line).expect("json");
        let grammar = rec["grammar"].as_str().unwrap().to_string();
        let inputs: Vec<Vec<String>> = rec["inputs"]
            .as_array()
            .unwrap()
            .iter()
            .map(|a| a.as_array().unwrap().iter().map(|s| s.as_str().unwrap().to_string()).collect())
            .collect();
        let order: Vec<(usize, char, usize)> = rec["sched"]
            .as_array()
            .unwrap()
            .iter()
            .map(|e| {
                (
                    e["t"].as_u64().unwrap() as usize,
                    e["ev"].as_str().unwrap().chars().next().unwrap(),
                    e["k"].as_u64().unwrap() as usize,
                )
            })
            .collect();
        *SCHED.lock().unwrap() = Some(Sched { order, pos: 0, failed: None });
        SEQ.store(0, Ordering::SeqCst);
        let mut handles = Vec::new();
        for (ti, raw) in inputs.iter().enumerate() {
            let (pi, pe, raw, grammar) = (pi.clone(), pe.clone(), raw.clone(), grammar.clone());
            handles.push(std::thread::spawn(move || {
                ME.with(|m| m.set(ti + 1));
                begin_parse(0);
                let mut rng = 88172645463325252u64 + ti as u64;
                let r = std::panic::catch_unwind(std::panic::AssertUnwindSafe(|| run_one(&grammar, &pi, &pe, &raw, &mut rng, false)));
                let log = LOG.with(|l| std::mem::take(&mut *l.borrow_mut()));
                (r, log)
            }));
        }
        let mut results = Vec::new();
        let mut events: Vec<Event> = Vec::new();
        for h in handles {
            match h.join() {
                Ok((Ok(Ok(v)), log)) => {
                    results.push(json!(v));
                    events.extend(log);
                }
                Ok((Ok(Err(e)), log)) => {
                    results.push(json!({ "error": e }));
                    events.extend(log);
                }
                Ok((Err(_), log)) => {
                    results.push(json!({"panic": true}));
                    events.extend(log);
                }
                Err(_) => results.push(json!({"panic": true})),
            }
        }
        events.sort_by_key(|e| e.seq);
        let failed = SCHED.lock().unwrap().as_ref().and_then(|s| s.failed.clone());
        let obs: Vec<Value> = events.iter().map(|e| json!({"t": e.t, "ev": e.ev.to_string(), "k": e.k})).collect();
        writeln!(o, "{}", json!({"id": rec["id"], "results": results, "observed": obs, "failed": failed})).unwrap();
    }
    o.flush().unwrap();
}

fn free(threads: usize, parses: u64, seed: u64, out: &str) {
    REPLAY.store(false, Ordering::SeqCst);
    let shared_i = Arc::new(intern::LParser::new());
    let shared_e = Arc::new(ext::LParser::new());
    let mut handles = Vec::new();
    let start = Arc::new(std::sync::Barrier::new(threads));
    for ti in 0..threads {
        let (shared_i, shared_e) = (shared_i.clone(), shared_e.clone());
        let start = start.clone();
        handles.push(std::thread::spawn(move || {
            ME.with(|m| m.set(ti + 1));
            start.wait();
            let mut rng = seed.wrapping_mul(6364136223846793005).wrapping_add((ti as u64).wrapping_mul(1442695040888963407).wrapping_add(1)) | 1;
            // a parser value of this thread, used again and again
            let own_i = intern::LParser::new();
            let own_e = ext::LParser::new();
            let mut begins: Vec<Value> = Vec::new();
            let mut results: Vec<Value> = Vec::new();
            for p in 0..parses {
                let n = (next(&mut rng) % 7) as usize;
                let raw: Vec<String> = (0..n).map(|_| if next(&mut rng) % 2 == 0 { "1".to_string() } else { "z".to_string() }).collect();
                let grammar = if next(&mut rng) % 2 == 0 { "intern" } else { "ext" };
                let which = next(&mut rng) % 3; // 0 shared by all threads, 1 this thread's repeated value, 2 fresh
                begin_parse(p);
                let pname = ["shared", "own", "fresh"][which as usize];
                let bseq = mark('B', 0);
                begins.push(json!({"seq": bseq, "t": ti + 1, "parse": p, "ev": "B", "inp": raw, "lex": grammar == "ext",
                                   "parser": pname, "grammar": grammar}));
                let r = match which {
                    0 => run_one(grammar, &shared_i, &shared_e, &raw, &mut rng, true),
                    1 => run_one(grammar, &own_i, &own_e, &raw, &mut rng, true),
                    _ => run_one(grammar, &intern::LParser::new(), &ext::LParser::new(), &raw, &mut rng, true),
                };
                let rseq = mark('R', 0);
                results.push(match r {
                    Ok(v) => json!({"seq": rseq, "t": ti + 1, "parse": p, "ev": "R", "val": v}),
                    Err(e) => json!({"seq": rseq, "t": ti + 1, "parse": p, "ev": "R", "val": -2, "error": e}),
                });
            }
            let log = LOG.with(|l| std::mem::take(&mut *l.borrow_mut()));
            (begins, results, log)
        }));
    }
    let mut all: Vec<(u64, Value)> = Vec::new();
    for h in handles {
        let (begins, results, log) = h.join().expect("thread");
        for b in begins.into_iter().chain(results) {
            all.push((b["seq"].as_u64().unwrap(), b));
        }
        for e in log {
            if e.ev == 'L' || e.ev == 'D' {
                all.push((e.seq, json!({"seq": e.seq, "t": e.t, "parse": e.parse, "ev": e.ev.to_string(), "k": e.k})));
            }
        }
    }
    all.sort_by_key(|x| x.0);
    let mut o = std::io::BufWriter::new(std::fs::File::create(out).expect("create trace"));
    for (_, v) in all {
        writeln!(o, "{}", v).unwrap();
    }
    o.flush().unwrap();
}

fn main() {
    let a: Vec<String> = std::env::args().collect();
    match a.get(1).map(|s| s.as_str()) {
        Some("replay") if a.len() == 4 => replay(&a[2], &a[3]),
        Some("free") if a.len() == 6 => free(a[2].parse().unwrap(), a[3].parse().unwrap(), a[4].parse().unwrap(), &a[5]),
        _ => {
            eprintln!("usage: concdrv replay <schedules.ndjson> <out.ndjson> | free <threads> <parses> <seed> <trace.ndjson>");
            std::process::exit(2);
        }
    }
}
