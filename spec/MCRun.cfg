SPECIFICATION Spec
CHECK_DEADLOCK FALSE
INVARIANT StackShape
INVARIANT StepBound
INVARIANT AcceptsTerminates
INVARIANT TreeIsDerivation
INVARIANT TokensSubsequence
INVARIANT OtherTokensCovered
INVARIANT ErrorSpansOrdered
INVARIANT DroppedInOrder
INVARIANT Emit
