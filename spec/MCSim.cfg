SPECIFICATION Spec
VIEW View
CHECK_DEADLOCK FALSE
\* ReportConflict is always TRUE (it only prints); it comes first so that a violation of a later
\* invariant in the same state cannot hide the verdict of the canonical construction
INVARIANT ReportConflict
INVARIANT SimCore
INVARIANT SimTrans
INVARIANT SimItemLook
INVARIANT SimLook
INVARIANT SimRedDomain
INVARIANT ADeterministic
INVARIANT AcceptOnEof
INVARIANT AcceptedIsLR1
