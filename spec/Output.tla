------------------------------- MODULE Output -------------------------------
(***************************************************************************)
(* OutputFunctional of Build.tla over recorded observations (C20, C24).    *)
(*                                                                         *)
(* Build.tla names a generated body by the text it comes from: Gen(t).     *)
(* That there *is* such a function -- the bytes depend on the grammar text *)
(* and the configuration only (C20), the Rust token stream on the grammar  *)
(* text only (C24) -- is what this module checks on the real generator.    *)
(* Gen is not known here; it is learned: the first observation of a key    *)
(* defines Gen(key), every later observation of the same key must agree.   *)
(*                                                                         *)
(* An observation is a line {key, digest} of the trace file: key names the *)
(* arguments of Gen (grammar, and for C20 the configuration), digest the   *)
(* observed value (bytes resp. token stream).  Who ran, in which process,  *)
(* alone or in which batch and order, with which flags, is deliberately    *)
(* not part of the key.                                                    *)
(*                                                                         *)
(* Batches(n): the compositions in which a directory build can meet a      *)
(* grammar: every non-empty subset of n grammar slots in every order       *)
(* (constant level; TLC prints them, the orchestrator realises the order   *)
(* through the file names, which the directory walk sorts).                *)
(***************************************************************************)
EXTENDS Naturals, Sequences, FiniteSets, TLC, Json, IOUtils

Rec == IF "TRACE" \in DOMAIN IOEnv THEN ndJsonDeserialize(IOEnv.TRACE) ELSE <<>>
N == Len(Rec)

VARIABLES l, gen, clash
vars == <<l, gen, clash>>

Init == l = 1 /\ gen = [k \in {} |-> ""] /\ clash = FALSE

Observe == /\ l <= N
           /\ LET e == Rec[l] IN
                /\ gen' = IF e.key \in DOMAIN gen THEN gen ELSE gen @@ (e.key :> e.digest)
                /\ clash' = (e.key \in DOMAIN gen /\ gen[e.key] # e.digest)
           /\ l' = l + 1

Spec == Init /\ [][Observe]_vars

(* every observation equals the first one of its key *)
OutputFunctional == ~clash

Accepted == LET d == TLCGet("stats").diameter IN
            PrintT("@@CONSUMED " \o ToJson([lines |-> d - 1, of |-> N]))

(* ------------------------- batch compositions ------------------------- *)
RECURSIVE Perms(_)
Perms(S) == IF S = {} THEN {<<>>}
            ELSE UNION {{<<x>> \o p : p \in Perms(S \ {x})} : x \in S}

Batches(n) == UNION {Perms(S) : S \in (SUBSET (1..n)) \ {{}}}

PrintBatches(n) == \A b \in Batches(n) : PrintT("@@BATCH " \o ToJson([order |-> b]))
=============================================================================
