"""C23: the cases and expectations TLC prints for spec/Paths.tla, materialised as
directory trees and executed by fsdrv through the real API / the real CLI."""
import json
import os
import subprocess
from concurrent.futures import ThreadPoolExecutor

import vlib
from vlib import BIN, HARNESS, REPO, TARGET, ToolError, log, mkscratch, rmtree, run_tlc

GRAMMAR = 'grammar;\npub T: () = "a" => ();\n'
CLI_DIR = os.path.join(TARGET, "cli")
CLI_BIN = os.path.join(CLI_DIR, "debug", "lalrpop")


def build_cli():
    """the real command line tool, built from /repo's working tree into harness/target/cli"""
    env = vlib.cargo_env()
    env["CARGO_TARGET_DIR"] = CLI_DIR
    env["CARGO_PROFILE_DEV_DEBUG"] = "0"
    with vlib.FileLock("cargo-cli"):
        r = subprocess.run(["cargo", "build", "--offline", "-q", "--manifest-path", os.path.join(REPO, "lalrpop", "Cargo.toml"),
                            "--bin", "lalrpop"], cwd=HARNESS, env=env, capture_output=True, text=True, timeout=1800)
    if r.returncode != 0 or not os.path.exists(CLI_BIN):
        raise ToolError("building the lalrpop CLI failed:\n" + r.stderr[-3000:])


def tlc_cases(depth, pair_depth):
    cfg = "SPECIFICATION Spec\nCONSTANT Depth = %d\nCONSTANT PairDepth = %d\nCHECK_DEADLOCK FALSE\n" \
          "INVARIANT WellFormed\nINVARIANT PrintCase\n" % (depth, pair_depth)
    r = run_tlc("Paths", cfg, workers=8, timeout=1200)
    if r.violations:
        raise ToolError("Paths.tla is inconsistent: %s\n%s" % (r.violations[0]["name"], r.violations[0]["trace"][-1000:]))
    cases = [o for t, o in r.prints if t == "CASE"]
    if len(cases) != r.distinct:
        raise ToolError("Paths: %d cases printed for %d states" % (len(cases), r.distinct))
    return cases, r


def fname(n):
    return n["stem"] + "." + n["ext"]


def seen_dir(e):
    return e["dir"] + (["lnk"] if e["kind"] == "dlink" else [])


def materialise(case, k):
    """-> the fsdrv case for one TLC case"""
    tree = [{"path": "t", "kind": "dir"}, {"path": "store", "kind": "dir"}]
    for i, e in enumerate(sorted(case["tree"], key=lambda x: json.dumps(x, sort_keys=True))):
        d = "/".join(["t"] + e["dir"])
        up = "../" * (len(e["dir"]) + 1)
        rel_link = (k + i) % 2 == 0  # alternate relative and absolute link targets
        if e["kind"] == "file":
            tree.append({"path": d + "/" + fname(e["name"]), "kind": "file", "content": GRAMMAR})
        elif e["kind"] == "flink":
            tree.append({"path": "store/s%d.data" % i, "kind": "file", "content": GRAMMAR})
            tree.append({"path": d + "/" + fname(e["name"]), "kind": "symlink",
                         "target": (up + "store/s%d.data" % i) if rel_link else "$ROOT/store/s%d.data" % i})
        elif e["kind"] == "dangling":
            tree.append({"path": d, "kind": "dir"})
            tree.append({"path": d + "/" + fname(e["name"]), "kind": "symlink",
                         "target": (up + "store/nothing%d" % i) if rel_link else "$ROOT/store/nothing%d" % i})
        elif e["kind"] == "dlink":
            tree.append({"path": "store/d%d/%s" % (i, fname(e["name"])), "kind": "file", "content": GRAMMAR})
            tree.append({"path": d + "/lnk", "kind": "symlink",
                         "target": (up + "store/d%d" % i) if rel_link else "$ROOT/store/d%d" % i})
    c = case["cfg"]
    call = {"rerun": True, "force": False}
    env = {}
    cwd = "t"
    odir = "$ROOT/o" if c["style"] in ("abs", "bare") else "../o"
    if c["outsel"] == "env":
        env["OUT_DIR"] = "$ROOT/o"
        tree.append({"path": "o", "kind": "dir"})
    elif c["outsel"] == "set":
        call["set_out_dir"] = odir
    if c["type"] == "dir":
        rel = "/".join(c["in"])
        tree.append({"path": "/".join(["t"] + c["in"]), "kind": "dir"})
        p = {"rel": rel or ".", "dot": "./" + rel, "abs": "$ROOT/t" + ("/" + rel if rel else ""), "slash": (rel or ".") + "/"}[c["style"]]
        api = c["api"]
        if api == "process_dir":
            call.update(call="process_dir", arg=p)
        elif api == "set_in_dir+process":
            call.update(call="process", set_in_dir=p)
        elif api == "cargo_conventions+process":
            call.update(call="process", cargo_conventions=True)
        elif api == "process":
            call.update(call="process")
        elif api == "in_source+process":
            call.update(call="process", in_source=True)
        elif api in ("process_current_dir", "process_root", "process_src"):
            call.update(call=api)
            if api != "process_current_dir":
                call.pop("rerun")  # the free functions take no configuration
                call.pop("force")
        elif api == "set_in_dir(a)+process_dir(src)":
            tree.append({"path": "t/a", "kind": "dir"})
            call.update(call="process_dir", arg="src", set_in_dir="a")
        else:
            raise ToolError("unknown dir api %s" % api)
    else:
        tg = case["target"]
        rel = "/".join(seen_dir(tg) + [fname(tg["name"])])
        if c["style"] == "bare":
            cwd = "/".join(["t"] + seen_dir(tg))
            p = fname(tg["name"])
        else:
            p = {"rel": rel, "dot": "./" + rel, "abs": "$ROOT/t/" + rel}[c["style"]]
        if c["api"] == "process_file":
            call.update(call="process_file", arg=p)
        elif c["api"] == "set_in_dir+process_file":
            call.update(call="process_file", arg=p, set_in_dir=".")
        elif c["api"] == "cli":
            args = (["--out-dir", odir] if c["outsel"] == "set" else []) + [p]
            call = {"call": "cli", "bin": CLI_BIN, "args": args}
        else:
            raise ToolError("unknown file api %s" % c["api"])
    x = case["expect"]
    expect = sorted({"/".join(p["output"]) for p in x["may"]})
    return {"id": k, "tree": tree, "cwd": cwd, "env": env, "call": call, "expect": expect}


def run_cases(fcases, procs=8):
    if not fcases:
        return {}
    wd = mkscratch("paths")
    try:
        procs = max(1, min(procs, len(fcases)))
        chunks = [fcases[i::procs] for i in range(procs)]

        def one(t):
            i, ch = t
            jf, of = os.path.join(wd, "job%d.json" % i), os.path.join(wd, "out%d.ndjson" % i)
            with open(jf, "w") as f:
                json.dump({"root": os.path.join(wd, "w%d" % i), "cases": ch}, f)
            p = subprocess.run([os.path.join(BIN, "fsdrv"), "cases", jf, of], capture_output=True, timeout=3600, cwd=wd)
            out = {}
            if os.path.exists(of):
                with open(of) as f:
                    for ln in f:
                        r = json.loads(ln)
                        out[r["id"]] = r
            if p.returncode != 0:
                # the process died inside a case (abort / signal): that case is data, the rest is re-run
                done = set(out)
                rest = [c for c in ch if c["id"] not in done]
                if not rest:
                    raise ToolError("fsdrv cases failed: %s" % p.stderr.decode("utf-8", "replace")[-800:])
                out[rest[0]["id"]] = {"id": rest[0]["id"], "status": "abort", "message": "fsdrv exited with %s: %s" % (
                    p.returncode, p.stderr.decode("utf-8", "replace")[-300:]), "rs": [], "expect": [], "directives": []}
                if rest[1:]:
                    out.update(one((i + 1000, rest[1:])))
            return out

        res = {}
        with ThreadPoolExecutor(max_workers=procs) as ex:
            for o in ex.map(one, enumerate(chunks)):
                res.update(o)
        return res
    finally:
        rmtree(wd)


def norm_directive(line, cwd):
    p = line.split("=", 1)[1] if "=" in line else line
    if p.startswith("$ROOT/"):
        return os.path.normpath(p[len("$ROOT/"):])
    if p.startswith("/"):
        return p
    return os.path.normpath(os.path.join(cwd, p))


def judge(case, fc, r):
    """-> list of (key, what) disagreements between the expectation and what the real code did"""
    x = case["expect"]
    c = case["cfg"]
    tag = "api=%s style=%s outsel=%s" % (c["api"].replace(" ", ""), c["style"], c["outsel"])
    out = []
    if r["status"] not in ("ok", "err"):
        return [("kind=%s %s" % (r["status"], tag), "the call ended with %s: %s" % (r["status"], r["message"][:300]))]
    if r["status"] != x["result"]:
        out.append(("kind=result expected=%s %s" % (x["result"], tag),
                    "the call returned %s (%s), expected %s" % (r["status"], r["message"][:200], x["result"])))
    canon = {e["path"]: e["canon"] for e in r["expect"]}
    phys = {f["phys"] for f in r["rs"]}
    may = {canon.get("/".join(p["output"])) for p in x["may"]}
    must = {canon.get("/".join(p["output"])) for p in x["must"]}
    extra = sorted(phys - may)
    missing = sorted(m for m in must - phys if m)
    if extra:
        out.append(("kind=unexpected_output %s" % tag, "output(s) %s written; the documented map allows only %s" % (extra, sorted(m for m in may if m))))
    if missing or None in must:
        out.append(("kind=missing_output %s" % tag, "output(s) %s not written (present: %s)" % (missing or "(unresolvable)", sorted(phys))))
    if c["api"] not in ("cli", "process_root", "process_src") and r["status"] in ("ok", "err"):
        got = sorted(norm_directive(d, fc["cwd"]) for d in r["directives"])
        allowed = {"/".join(p["input"]) for p in x["may"]}
        need = {"/".join(p["input"]) for p in x["must"]}
        if len(set(got)) != len(got):
            out.append(("kind=duplicate_directive %s" % tag, "rerun directives repeat a file: %s" % got))
        if set(got) - allowed or need - set(got):
            out.append(("kind=directives %s" % tag, "rerun directives name %s, the processed files are %s" % (got, sorted(need or allowed))))
    return out


def replay(obj):
    vlib.cargo_build_or_die(["fsdrv"])
    if obj["case"]["cfg"]["api"] == "cli":
        build_cli()
    fc = materialise(obj["case"], 0)
    r = run_cases([fc])[0]
    dis = judge(obj["case"], fc, r)
    print("  call:", json.dumps(fc["call"]), "cwd:", fc["cwd"], "env:", fc["env"])
    print("  result:", r["status"], r["message"][:200], "rs:", [f["phys"] for f in r["rs"]], "directives:", r["directives"])
    for k, w in dis:
        print("REPRODUCED:", k, w)
    return 1 if dis else 0
