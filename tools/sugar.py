"""Sugar grammars: macros `M<A,..>` with `if` conditions, `X*`, `X+`, `X?`,
groups.  The same structure is rendered to `.lalrpop` text and handed to
Macro.tla (which expands it by substitution)."""
import copy


def T(n, sel=False):
    return {"k": "t", "n": n, "sel": sel}


def NT(n, sel=False):
    return {"k": "nt", "n": n, "sel": sel}


def PARAM(n, sel=False):
    return {"k": "param", "n": n, "sel": sel}


def MAC(n, args, sel=False):
    return {"k": "macro", "n": n, "args": [dict(a, sel=False) for a in args], "sel": sel}


def REP(op, s, sel=False):
    return {"k": "rep", "op": op, "s": dict(s, sel=False), "sel": sel}


def GRP(syms, sel=False):
    return {"k": "group", "syms": syms, "sel": sel}


def LOC(kind, sel=True):
    """`@L` / `@R` inside an alternative (not a grammar symbol: dropped from the rhs handed to Macro.tla)"""
    return {"k": kind, "n": "@" + kind, "sel": sel}


BARE = {}     # terminal text -> bare identifier, set by render() for the grammar being rendered


def render_expr(e):
    k = e["k"]
    if k in ("L", "R"):
        return "@" + k
    if k == "t":
        return BARE.get(e["n"]) or '"%s"' % e["n"]
    if k in ("nt", "param"):
        return e["n"]
    if k == "macro":
        return "%s<%s>" % (e["n"], ", ".join(render_expr(a) for a in e["args"]))
    if k == "rep":
        return render_expr(e["s"]) + e["op"]
    if k == "group":
        return "(" + " ".join(("<%s>" % render_expr(s)) if s["sel"] else render_expr(s) for s in e["syms"]) + ")"
    raise ValueError(k)


def render_cond(c):
    if not c["on"]:
        return ""
    if c["op"] in ("==", "!="):
        return ' if %s %s "%s"' % (c["lhs"], c["op"], c["rhs"])
    pat = c["pat"]
    rx = "^%s$" % pat["s"] if pat["k"] == "exact" else "".join(pat["chars"]) if pat["k"] == "contains" else \
        "^[%s]$" % "".join(pat["set"])
    return ' if %s %s "%s"' % (c["lhs"], c["op"], rx)


def render_alt(a):
    form = a["form"]
    parts, names = [], []
    for j, e in enumerate(a["rhs"]):
        t = render_expr(e)
        if form in ("user", "fallible"):
            if e["sel"]:
                names.append("x%d" % j)
                parts.append("<x%d:%s>" % (j, t))
            else:
                parts.append(t)
        else:
            parts.append("<%s>" % t if e["sel"] else t)
    body = " ".join(parts) + render_cond(a["cond"])
    if form == "user":
        return "%s => node(%d, kids![%s])," % (body, a["tag"], ", ".join(names))
    if form == "usera":
        return "%s => node(%d, kids!(<>))," % (body, a["tag"])
    if form == "fallible":
        f = a["fail"]
        return "%s =>? fnode(%d, kids![%s], x%d %% %d == %d)," % (body, a["tag"], ", ".join(names), f["s"] - 1, f["m"], f["r"])
    if form == "refnone":
        return "%s => None," % body
    if form == "boxnew":
        return "%s => Box::new(<>)," % body
    if not parts:
        return "=> (),"
    return "%s," % body


def render_prec(a):
    out = ""
    if a.get("lev", -1) >= 0:
        out += '#[precedence(level="%d")] ' % a["lev"]
    if a.get("assoc"):
        out += '#[assoc(side="%s")] ' % a["assoc"]
    return out


def render(sg, algo="lane", backend="table"):
    import core
    lines = ["use crate::rt::*;", "use crate::kids;"]
    if core.ALGOS[algo][0]:
        lines.append(core.ALGOS[algo][0])
    if core.BACKENDS[backend]:
        lines.append(core.BACKENDS[backend])
    ge = sg.get("generic")
    if ge:
        # type and lifetime parameters with a where-clause relating the two; the nonterminal types mention only one
        # of them (through an unreachable nonterminal), the other occurs in the grammar parameter alone
        lines.append("grammar<%s, %s>(gp: usize, ph: &%s [%s]) where %s: %s;" % (ge["lt"], ge["tp"], ge["lt"], ge["tp"], ge["tp"], ge["lt"]))
    else:
        lines.append("grammar;")
    BARE.clear()
    BARE.update(sg.get("bare", {}))
    conv = ", ".join('%s => Tok::T%d(<usize>)' % (BARE.get(t) or '"%s"' % t, i) for i, t in enumerate(sg["ts"]))
    lines.append("extern { type Location = usize; type Error = UErr; enum Tok { %s } }" % conv)
    for it in sg["items"]:
        head = it["name"] + ("<%s>" % ", ".join(it["params"]) if it["params"] else "")
        vis = "pub " if it["name"] in sg["starts"] else ""
        # declared types that mention a macro parameter behind a reference / inside a generic (C19: the parameter
        # must be replaced by the argument's type in every instance)
        ty = {"V": ": V", "unit": ": ()", "infer": "", "ref": ": Option<&'static %s>" % (it["params"] or ["V"])[0],
              "box": ": Box<%s>" % (it["params"] or ["V"])[0]}[it["kind"]]
        body = "\n".join("    " + render_prec(a) + render_alt(a) for a in it["alts"])
        lines.append("%s%s%s = {\n%s\n};" % (vis, head, ty, body))
    if ge:
        t0 = BARE.get(sg["ts"][0]) or '"%s"' % sg["ts"][0]
        lines.append("%s: Option<%s> = %s %s => None;" % (ge["nt"], ge["tp"], t0, t0))
    return "\n".join(lines) + "\n"


NOFAIL = {"on": False, "s": 1, "m": 1, "r": 0}


def alt_P(a, unit):
    # (refnone: the value is None whatever was parsed; boxnew: the value of the selected symbol, boxed)
    form = {"usera": "user", "refnone": "noneo", "boxnew": "none"}.get(a["form"], a["form"])
    syms = []
    n = 0
    for e in a["rhs"]:
        if e["k"] in ("L", "R"):
            syms.append({"k": e["k"], "i": n, "sel": e["sel"]})
        else:
            n += 1
            syms.append({"k": "sym", "i": n, "sel": e["sel"]})
    return {"tag": a["tag"], "form": form, "esym": 0, "exact": a["form"] in ("user", "fallible"), "unit": unit,
            "syms": syms, "fail": a["fail"] if a.get("fail", {}).get("on") else NOFAIL}


def eval_case(sg, start, n, inject):
    items = []
    for it in sg["items"]:
        alts = []
        for a in it["alts"]:
            c = a["cond"]
            cond = {"on": bool(c["on"]), "lhs": c.get("lhs", ""), "op": c.get("op", "=="), "rhs": c.get("rhs", ""),
                    "pat": c.get("pat") or {"k": "exact", "s": "", "set": [], "chars": []}}
            cond["pat"] = {"k": cond["pat"]["k"], "s": cond["pat"].get("s", ""), "set": cond["pat"].get("set", []),
                           "chars": cond["pat"].get("chars", [])}
            alts.append({"cond": cond, "rhs": [e for e in a["rhs"] if e["k"] not in ("L", "R")],
                         "P": alt_P(a, it["kind"] == "unit")})
        items.append({"name": it["name"], "params": it["params"], "kind": it["kind"], "alts": alts,
                      "prec": bool(it.get("prec")), "lev": [a.get("lev", -1) for a in it["alts"]],
                      "assoc": [a.get("assoc", "") for a in it["alts"]]})
    return {"id": "%s@%s" % (sg["id"], start), "ts": list(sg["ts"]), "start": start, "n": n, "inject": inject,
            "sugar": {"items": items, "tchars": [{"n": t, "cs": list(t)} for t in sg["ts"]]}}


# --------------------------------------------------------------------------
# generator
# --------------------------------------------------------------------------
def alt(rhs, form, tag, cond=None, fail=None):
    return {"cond": cond or {"on": False}, "rhs": rhs, "form": form, "tag": tag, "fail": fail or {"on": False}}


def macro_grammar(rng, idx):
    ts = ["a", "b", "c", "d"] if rng.random() < 0.5 else ["a", "b", "cd", "dx"]
    tag = [0]

    def nt():
        tag[0] += 1
        return tag[0]

    items = []
    plain_v = []      # V-typed ordinary nonterminals usable as arguments
    # ordinary helper nonterminals
    for name in rng.sample(["A", "B"], rng.choice([1, 2])):
        t = rng.choice(ts)
        alts = [alt([T(t, True)], "user", nt())]
        if rng.random() < 0.4:
            t2 = rng.choice([x for x in ts if x != t])
            alts.append(alt([T(t2, True), NT(name, True)], "user", nt()))
        items.append({"name": name, "params": [], "kind": "V", "alts": alts})
        plain_v.append(name)
    macros = {}
    chosen = rng.sample(["Lst", "Pr", "Op", "Cd", "Tr", "Pl", "Sep", "Sp", "Sp", "Rf", "Bd"], rng.choice([2, 3, 3]))
    chosen = list(dict.fromkeys(chosen))
    for m in chosen:
        if m == "Lst":     # the tutorial's Comma<E>: (<E> sep)* E?
            sep = rng.choice(ts)
            a = alt([REP("*", GRP([PARAM("E", True), T(sep)]), True), REP("?", PARAM("E"), True)], "user", nt())
            macros[m] = {"name": m, "params": ["E"], "kind": "V", "alts": [a], "argkinds": ["any"]}
        elif m == "Sep":   # E (sep E)*
            sep = rng.choice(ts)
            a = alt([PARAM("E", True), REP("*", GRP([T(sep), PARAM("E", True)]), True)], "usera", nt())
            macros[m] = {"name": m, "params": ["E"], "kind": "V", "alts": [a], "argkinds": ["any"]}
        elif m == "Sp":    # the book's Spanned<T>: locations around a parameter, also with symbols after them
            form = rng.random()
            if form < 0.4:
                rhs = [LOC("L"), PARAM("E", True), LOC("R")]
            elif form < 0.7:
                rhs = [LOC("L"), PARAM("E", True), LOC("R"), T(rng.choice(ts))]
            else:
                rhs = [T(rng.choice(ts)), LOC("R"), PARAM("E", True), LOC("L"), T(rng.choice(ts)), LOC("R")]
            macros[m] = {"name": m, "params": ["E"], "kind": "V", "alts": [alt(rhs, "user", nt())], "argkinds": ["nonempty"]}
        elif m == "Rf":    # declared type with the parameter behind a reference
            macros[m] = {"name": m, "params": ["E"], "kind": "ref", "alts": [alt([PARAM("E")], "refnone", 0)],
                         "argkinds": ["nonempty"]}
        elif m == "Bd":    # declared type with the parameter inside a generic
            macros[m] = {"name": m, "params": ["E"], "kind": "box", "alts": [alt([PARAM("E", True)], "boxnew", 0)],
                         "argkinds": ["any"]}
        elif m == "Pr":
            a1 = alt([PARAM("X", True), PARAM("Y", True)], "usera", nt())
            a2 = alt([T(rng.choice(ts)), PARAM("Y", True), T(rng.choice(ts))], "user", nt())
            macros[m] = {"name": m, "params": ["X", "Y"], "kind": "V", "alts": [a1, a2] if rng.random() < 0.5 else [a1],
                         "argkinds": ["any", "any"]}
        elif m == "Op":
            macros[m] = {"name": m, "params": ["E"], "kind": "infer", "alts": [alt([REP("?", PARAM("E"))], "none", 0)],
                         "argkinds": ["any"]}
        elif m == "Pl":
            macros[m] = {"name": m, "params": ["E"], "kind": "V",
                         "alts": [alt([REP("+", PARAM("E"), True)], "usera", nt())], "argkinds": ["any"]}
        elif m == "Cd":
            k1 = rng.choice(ts)
            one = [t for t in ts if len(t) == 1]
            pat = rng.choice([{"k": "exact", "s": rng.choice(ts)}, {"k": "class", "set": sorted(rng.sample(one, 2))},
                              {"k": "contains", "chars": [rng.choice(["d", "c", "x", "a"])]},
                              {"k": "contains", "chars": [rng.choice(["d", "c", "x", "a"])]}])
            alts = [alt([PARAM("E", True)], "user", nt(), cond={"on": True, "lhs": "K", "op": "==", "rhs": k1}),
                    alt([T(rng.choice(ts)), PARAM("E", True)], "user", nt(), cond={"on": True, "lhs": "K", "op": "!=", "rhs": k1}),
                    alt([PARAM("E", True), T(rng.choice(ts))], "user", nt(),
                        cond={"on": True, "lhs": "K", "op": rng.choice(["~~", "!~"]), "pat": pat})]
            if rng.random() < 0.4:
                alts.append(alt([T(rng.choice(ts)), T(rng.choice(ts))], "user", nt()))
            macros[m] = {"name": m, "params": ["K", "E"], "kind": "V", "alts": alts, "argkinds": ["term", "any"]}
        elif m == "Tr":    # the tutorial's Tier<Op, NextTier>
            a1 = alt([MAC("Tr", [PARAM("O"), PARAM("N")], True), PARAM("O", True), PARAM("N", True)], "user", nt())
            a2 = alt([PARAM("N", True)], "none", 0)
            macros[m] = {"name": m, "params": ["O", "N"], "kind": "V", "alts": [a1, a2], "argkinds": ["term", "V"]}
    items += [{k: v for k, v in m.items() if k != "argkinds"} for m in macros.values()]

    def arg(kind, depth):
        r = rng.random()
        if kind == "term":
            return T(rng.choice(ts))
        if kind == "nonempty":     # something that never derives the empty string (locations next to it are exact)
            return T(rng.choice(ts)) if r < 0.5 else NT(rng.choice(plain_v))
        if kind == "V":
            if depth < 1 and r < 0.3:
                return use(depth + 1, need_v=True)
            return NT(rng.choice(plain_v))
        if r < 0.4:
            return T(rng.choice(ts))
        if r < 0.75 or depth >= 1:
            return NT(rng.choice(plain_v))
        return use(depth + 1)

    def use(depth=0, need_v=False):
        cands = [m for m in macros.values() if not need_v or m["kind"] == "V"]
        if not cands:
            return NT(rng.choice(plain_v))
        m = rng.choice(cands)
        return MAC(m["name"], [arg(k, depth) for k in m["argkinds"]])

    def piece():
        r = rng.random()
        if r < 0.5:
            return use()
        if r < 0.62:
            return REP(rng.choice("*+?"), NT(rng.choice(plain_v)))
        if r < 0.74:
            return REP(rng.choice("*+"), GRP([NT(rng.choice(plain_v), rng.random() < 0.6), T(rng.choice(ts), rng.random() < 0.3)]))
        if r < 0.82:
            return REP("?", GRP([T(rng.choice(ts)), NT(rng.choice(plain_v), True)]))
        if r < 0.9:
            return GRP([T(rng.choice(ts), rng.random() < 0.5), use()])
        return REP(rng.choice("*?"), T(rng.choice(ts)))

    salts = []
    for _ in range(rng.choice([1, 2, 2, 3])):
        rhs = []
        if rng.random() < 0.5:
            rhs.append(T(rng.choice(ts), rng.random() < 0.5))
        rhs.append(dict(piece(), sel=True))
        if rng.random() < 0.4:
            rhs.append(T(rng.choice(ts)))
        if rng.random() < 0.25:
            rhs.append(dict(piece(), sel=True))
        form = rng.choice(["user", "usera", "user"])
        if form == "user":
            for e in rhs:
                e["sel"] = e["sel"] or rng.random() < 0.5
        salts.append(alt(rhs, form, nt()))
    items.insert(0, {"name": "S", "params": [], "kind": "V", "alts": salts})
    sg = {"id": "m%04d" % idx, "ts": ts, "starts": ["S"], "items": items, "sugar": True, "no_machine": True,
          "nts": ["S"], "prods": [], "kinds": {"S": "V"}}
    if rng.random() < 0.3:
        sg["generic"] = {"lt": rng.choice(["'gx", "'__a", "'l0"]), "tp": rng.choice(["GT", "__T", "T0"]), "nt": "Zz9Only"}
        sg["grammar_param"] = "gp"
    if rng.random() < 0.3:
        # a terminal declared with a bare name (`TA => ..` in the extern block) and a macro parameter of the same
        # name: inside the macro the parameter shadows the terminal
        sg["bare"] = {ts[0]: "TA"}

        # a bare-named terminal cannot be the argument a macro condition inspects (LALRPOP wants a string literal
        # there): such arguments name another terminal
        def fix_term_args(e):
            if e["k"] == "macro" and e["n"] in macros:
                for ak, a_ in zip(macros[e["n"]]["argkinds"], e["args"]):
                    if ak == "term" and a_["k"] == "t" and a_["n"] == ts[0]:
                        a_["n"] = ts[1]
            for x in e.get("args", []) + e.get("syms", []) + ([e["s"]] if "s" in e else []):
                fix_term_args(x)
        for it_ in items:
            for a_ in it_["alts"]:
                for e_ in a_["rhs"]:
                    fix_term_args(e_)
        ms = [it for it in items if it["params"]]
        if ms:
            it = rng.choice(ms)
            old = it["params"][0]
            it["params"][0] = "TA"

            def ren(e):
                if e["k"] == "param" and e["n"] == old:
                    e["n"] = "TA"
                elif e["k"] == "t" and e["n"] == ts[0]:
                    e["n"] = ts[1]      # inside this macro `TA` is the parameter: the terminal cannot be named here
                for x in e.get("args", []) + e.get("syms", []) + ([e["s"]] if "s" in e else []):
                    ren(x)
            for a in it["alts"]:
                for e in a["rhs"]:
                    ren(e)
                if a["cond"].get("on") and a["cond"].get("lhs") == old:
                    a["cond"]["lhs"] = "TA"
    return sg


def precmac_grammar(rng, idx):
    """a precedence-annotated nonterminal whose recursive occurrences also sit inside macro arguments, options and
    groups (the documentation's tiers count them all, left to right)"""
    ts = ["a", "b", "c", "d"]
    tag = [0]

    def nt():
        tag[0] += 1
        return tag[0]

    items = []
    macros = [{"name": "Bx", "params": ["T"], "kind": "V", "alts": [alt([PARAM("T", True)], "user", nt())]}]
    if rng.random() < 0.6:
        macros.append({"name": "Pr", "params": ["X", "Y"], "kind": "V",
                       "alts": [alt([PARAM("X", True), T(rng.choice(["c", "d"])), PARAM("Y", True)], "usera", nt())]})
    if rng.random() < 0.4:
        macros.append({"name": "Ps", "params": ["X"], "kind": "V",
                       "alts": [alt([PARAM("X", True), T("d")], "usera", nt())]})

    def slot():
        r = rng.random()
        if r < 0.3:
            return NT("E", True)
        if r < 0.7:
            return MAC("Bx", [NT("E")], True)
        if r < 0.8 and len(macros) > 1:
            m = rng.choice(macros[1:])
            return MAC(m["name"], [NT("E") for _ in m["params"]], True)
        if r < 0.9:
            return GRP([T(rng.choice(["c", "d"])), NT("E", True)], True)
        return MAC("Bx", [MAC("Bx", [NT("E")])], True)

    alts = [dict(alt([T("a", True)], "user", nt()), lev=rng.choice([0, 1]))]
    if rng.random() < 0.4:
        alts.append(dict(alt([T("d"), NT("E", True), T("d")], "user", nt())))
    lev = alts[0]["lev"]
    for _ in range(rng.choice([1, 2, 2])):
        lev += rng.choice([1, 2])
        shape = rng.random()
        op = rng.choice(["b", "c"])
        if shape < 0.45:       # infix
            rhs = [slot(), T(op), slot()]
        elif shape < 0.65:     # prefix form with two operands
            rhs = [T(op), slot(), T("d"), slot()]
        elif shape < 0.8:      # ternary
            rhs = [slot(), T(op), slot(), T("d"), slot()]
        elif shape < 0.9:      # prefix
            rhs = [T(op), slot()]
        else:                  # postfix
            rhs = [slot(), T(op)]
        a = dict(alt(rhs, rng.choice(["user", "usera"]), nt()), lev=lev)
        side = rng.choice(["left", "right", "none", "all", ""])
        if side:
            a["assoc"] = side
        alts.append(a)
        if rng.random() < 0.3:     # a second alternative on the same level, inheriting level and associativity
            alts.append(alt([slot(), T("d" if op == "b" else "b"), slot()], "user", nt()))
    items.append({"name": "E", "params": [], "kind": "V", "alts": alts, "prec": True})
    items += macros
    return {"id": "q%04d" % idx, "ts": ts, "starts": ["E"], "items": items, "sugar": True, "no_machine": True,
            "nts": ["E"], "prods": [], "kinds": {"E": "V"}, "precmac": True}
